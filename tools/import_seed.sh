#!/bin/bash
# import_seed.sh <srcdir> <name> [check ...]
# Confirms a seeded change (patch.diff + demo_test.go + meta.json in <srcdir>) against /repo HEAD in a scratch copy:
#  patch applies, package builds, repository tests pass with it, the demo fails with it and passes without it;
# then runs the named quick checks (default: the property in meta.json) against the patched copy and records
# everything in /verif/seeded/<name>/.
set -u
HERE="$(cd "$(dirname "$0")/.." && pwd)"
export GOFLAGS=-mod=readonly GOPROXY=off GOSUMDB=off GOTOOLCHAIN=local
SRC="$1"; NAME="$2"; shift 2
PROP="$(python3 -c "import json,sys;print(json.load(open(sys.argv[1]))['property'])" "$SRC/meta.json")"
CHECKS="${*:-$PROP}"
W="$(mktemp -d /tmp/vseed.XXXXXX)"; mkdir -p "$W/formula" "$W/out"
git -C /repo archive HEAD | tar -x -C "$W/formula"
log() { echo "$*" | tee -a "$W/ran.txt"; }
cd "$W/formula"
cp "$SRC/demo_test.go" ./zz_demo_test.go
RACE=""
if python3 -c "import json,sys;sys.exit(0 if json.load(open(sys.argv[1])).get('demo_needs_race') else 1)" "$SRC/meta.json" 2>/dev/null; then RACE="-race"; fi
if timeout 600 go test $RACE -vet=off -count=1 ./... >"$W/demo_clean.log" 2>&1; then log "demo on unmodified HEAD: PASS"; else log "demo on unmodified HEAD: FAIL (rejecting)"; tail -5 "$W/demo_clean.log"; rm -rf "$W"; exit 1; fi
rm zz_demo_test.go
if ! git apply --whitespace=nowarn "$SRC/patch.diff" 2>"$W/apply.log" && ! patch -p1 -s < "$SRC/patch.diff" >"$W/apply.log" 2>&1; then log "patch does not apply: $(head -2 "$W/apply.log")"; rm -rf "$W"; exit 1; fi
if go test -vet=off -count=1 ./... >"$W/suite.log" 2>&1; then log "repository suite with the change: PASS"; else log "repository suite with the change: FAIL (rejecting)"; tail -5 "$W/suite.log"; rm -rf "$W"; exit 1; fi
cp "$SRC/demo_test.go" ./zz_demo_test.go
if timeout 600 go test $RACE -vet=off -count=1 ./... >"$W/demo_mut.log" 2>&1; then log "demo with the change: PASS (rejecting: demo does not fail)"; rm -rf "$W"; exit 1; else log "demo with the change: FAIL (as required)"; fi
rm zz_demo_test.go
caught=""
for c in $CHECKS; do
  s=$(date +%s)
  VERIF_REPO="$W/formula" VERIF_SCRATCH="$W/out" "$HERE/check" "$c" quick >"$W/$c.log" 2>&1; rc=$?
  if [ $rc -eq 1 ] && grep -q '^VIOLATION' "$W/$c.log"; then caught="$caught $c"; log "./check $c quick against the changed copy: exit 1, $(grep -c '^VIOLATION' "$W/$c.log") VIOLATION line(s), first signature: $(grep -m1 'signature=' "$W/$c.log" | sed 's/.*signature=//; s/ occurrences.*//') ($(( $(date +%s)-s )) s)"
  else log "./check $c quick against the changed copy: exit $rc, NOT caught: $(tail -1 "$W/$c.log" | cut -c1-160)"; fi
done
D="$HERE/seeded/$NAME"; mkdir -p "$D"
cp "$SRC/patch.diff" "$SRC/demo_test.go" "$D/"
python3 - "$SRC/meta.json" "$D/meta.json" "$W/ran.txt" "$caught" <<'PY'
import json,sys
m=json.load(open(sys.argv[1]))
m["confirmed_by_me"]=open(sys.argv[3]).read().strip().split("\n")
m["caught_by"]=sys.argv[4].split()
m["agent_verified"]=m.pop("verified","")
json.dump(m,open(sys.argv[2],"w"),indent=1,ensure_ascii=False)
PY
echo "== $NAME: caught by:${caught:- NOTHING}"
CK="$(echo "$W/formula" | cksum | cut -d' ' -f1)"; rm -rf "$W" "$HERE"/.build/*-alt"$CK"*
