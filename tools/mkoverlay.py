#!/usr/bin/env python3
"""mkoverlay.py <GOROOT> <outdir>: writes <outdir>/time.go (the toolchain's time/time.go with a harness-only clock hook in
Now) and <outdir>/overlay.json for `go build -overlay`. Exit 0 when the overlay is usable, 1 when the source does not have
the expected shape (the harness is then built without the `verifclock` tag and the clock monitors report themselves
as skipped). Nothing in /repo is touched: the hook lives in the harness binary's copy of the standard library."""
import json, os, sys
goroot, out = sys.argv[1], sys.argv[2]
src = os.path.join(goroot, "src", "time", "time.go")
try:
    s = open(src).read()
except OSError:
    sys.exit(1)
old = "func Now() Time {\n\tsec, nsec, mono := now()\n"
if s.count(old) != 1 or "VerifClock" in s:
    sys.exit(1)
new = ("// VerifClock, when set, supplies the wall-clock reading of Now (the monotonic reading stays real, so durations,\n"
       "// timers and deadlines are unaffected). VerifNowObserver, when set, is told of every call. Harness builds only.\n"
       "var VerifClock func() (sec int64, nsec int32, ok bool)\n"
       "var VerifNowObserver func()\n\n"
       "func Now() Time {\n\tsec, nsec, mono := now()\n"
       "\tif VerifNowObserver != nil {\n\t\tVerifNowObserver()\n\t}\n"
       "\tif VerifClock != nil {\n\t\tif s, n, ok := VerifClock(); ok {\n\t\t\tsec, nsec = s, n\n\t\t}\n\t}\n")
s = s.replace(old, new)
os.makedirs(out, exist_ok=True)
def write_if_changed(path, content):
    try:
        if open(path).read() == content:
            return
    except OSError:
        pass
    open(path, "w").write(content)
write_if_changed(os.path.join(out, "time.go"), s)
write_if_changed(os.path.join(out, "overlay.json"), json.dumps({"Replace": {src: os.path.join(out, "time.go")}}))
sys.exit(0)
