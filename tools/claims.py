claim("C01", "runtime invariant monitor + hook step counter over bounded-exhaustive/random/mutated/pathological inputs",
      "Every generated input (all token sequences up to the bound, random token and byte strings, corpus mutants, 40 pathological shapes up to 64 KiB) is parsed by the real ParseSourceCode in a child process; monitors check no escaped panic / process death, tree-xor-error, completeness of every error-free tree, full consumption, and a linear bound on hook-counted steps. Held-on-what-was-executed, exhaustive only up to the stated token bound.",
      "Trusts the Go runtime to turn memory faults into panics/fatal errors, the hook placement (every loop body and recursive entry of scanner.go/parser.go) for the step count, and the reference tokenizer only for the non-triviality count.",
      "5/C01")
claim("C02", "reference-model monitor: independent tokenizer + Pratt parser and a printer whose trees are known by construction, compared on exhaustive/sampled token sequences",
      "The real parser's tree (canonical form through exported fields) is compared with the tree the reference grammar determines, and accept/reject outcomes are compared, on every token sequence up to the bound under three separator policies, all 19^3 operator triples, all prefix/binary/postfix combinations, every lexeme pair in 16 contexts, and random programs whose tree is known by construction. Held on the executed inputs; exhaustive only up to the stated bounds.",
      "Trusts the reference grammar as my reading of the statement; open constructs are only compared when accepted; the printer-by-construction cases do not depend on the reference parser.",
      "5/C02")
claim("C14", "invariant monitor on the raw scanner API + exhaustive class sweep + reference tokenizer + layout metamorphism",
      "Drives CreateScanner/Scan directly on hostile byte strings (tiling, progress, trivia), compares the four character-class predicates with independent tables on all 1,114,112 code points, compares token kinds/extents/line-break flags with a longest-match reference tokenizer on exhaustive lexeme concatenations x 8 separators, and re-lays-out accepted programs with random legal white space expecting the same tree.",
      "Trusts perl's Unicode database (via tools/gen_es5_ref.pl) for the ES5 tables and the reference tokenizer for what counts as one token; U+200B/U+180E and undefined escapes are skipped and counted.",
      "5/C14")
claim("C15", "invariant monitor over every node/diagnostic + direct line/column count as oracle",
      "For every accepted input every node's range is checked for bounds, nesting and order and its own text is re-parsed to the same subtree; for every rejected input the error string and every diagnostic are checked against a direct count of line-break units; the offset->line/column helpers are compared with the direct count at every offset of all short texts over the six line-break forms.",
      "Trusts the direct count (15 lines) as the meaning of line/column; re-parse of member names is excluded.",
      "5/C15")
claim("C03", "runtime totality monitor in child processes (escaped-panic / process-death / result-shape / visit-bound) + misuse templates that must yield an error",
      "Generated programs over every operator, keyword, builtin and data/host-function name are evaluated by the real Runner.Resolve against generated data maps (odd kinds, typed maps, structs, nil pointers, host functions); each child writes a breadcrumb before every call so a fatal runtime error is attributed and re-confirmed in a fresh child. Misuse templates of the statement's classes must return an error. Two crash inputs are recorded as known findings and re-observed by probe children.",
      "Trusts Go's runtime traps (panic/fatal error) as the crash observation and the hook at the evaluator's dispatch for the visit count; pad lengths are bounded structurally as the statement says.",
      "5/C03")
claim("C04", "reference-model monitor: exact big-integer decimal arithmetic (half-even to 34 digits) compared with the values the real evaluator produces",
      "Literal operand pairs and parenthesised chains are evaluated by the real evaluator inside `[e]` and the resulting decimal (read through its decomposition) must equal the model's; Go float64/int/int32/int64 data values must enter as the decimal they print as and be === to that literal; the float64 handed back must be the nearest one in the statement's exact domain and within 4 ulp elsewhere; a host function must receive the same decimal.",
      "Trusts math/big and the 150-line decimal model; decimal.Big.Decompose for reading results; strconv for the shortest round-trip text of floats.",
      "5/C04")
claim("C05", "law-checking monitor over an exhaustive value grid: eight operator results per ordered pair checked against the exact order model",
      "Every ordered pair of a grid of ~100-200 values (several spellings of equal and neighbouring numbers, arithmetic results, -0, 34-digit neighbours, Go data numbers, strings, booleans, nulls) is evaluated under all eight operators; trichotomy, agreement with numeric / byte-wise order, the disjunction laws, strict-equality kind rules and the negation laws are checked on the eight results together.",
      "Trusts the decimal model's Cmp and bytes.Compare; cross-kind relational results are unspecified.",
      "5/C05")
claim("C12", "reference-model monitor: literal grammar + exact rational value, exhaustive over short spellings",
      "Every string of up to k symbols over the literal alphabet is classified by the reference literal grammar; well-formed spellings must evaluate (inside `[...]`) to exactly the written decimal at any digit count, malformed ones of the statement's three classes must be rejected by the real parser, alone and embedded in ten syntactic positions; random long spellings (parts up to 40 digits, separators, exponents) extend the sweep.",
      "Trusts the reference literal grammar (60 lines) and math/big; adjusted exponents beyond +-6000 (outside decimal128) are skipped and counted.",
      "5/C12")
claim("C13", "round-trip monitor with a randomising reference escaper; unterminated-literal rejection",
      "Texts over quotes, backslashes, controls, all line-break forms, multi-byte and invalid UTF-8 are escaped by a reference escaper that picks among all equivalent escape forms, then evaluated by the real code: the result must equal the text byte for byte in both quote styles; literals left open at end of input or at any line-break form must be rejected, alone and embedded.",
      "Trusts the 50-line escaper as the meaning of the escape forms; line continuations, surrogate escapes and short \\\\x/\\\\u forms are not generated.",
      "5/C13")
claim("C06", "reference-model monitor: truthiness table + selection semantics over an exhaustive operand grid, effect recorders for single-branch evaluation",
      "Every operator is applied to every (pair of) 41 operand values (literals and data: nulls, typed nil, booleans, zeros in all spellings, -0, NaN, infinities, strings, arrays, maps, times, functions, structs) at depth 1 and in random nestings to depth 3; the result must be the operand the table selects, handed back representation-exactly (decimals keep coefficient and exponent, data containers keep identity); conditionals with recording calls and assignments in their leaves must leave a trace of the selected leaf only.",
      "Trusts the 41-row truthiness table as my reading of the statement; eager evaluation of the right operand of && || ?? is allowed.",
      "5/C06")
claim("C16", "reference-model monitor: lookup model navigating the same Go data in parallel with the evaluated path",
      "Generated data maps (nested and typed maps incl. zero-valued entries, structs, nil / typed-nil entries, every scalar kind, keys colliding with builtins) are read through dotted paths of depth 0-4 with '.' and '!.' at every position, with and without a data map; null-safety, the assert form, missing-field errors, number normalisation (exact), identity of containers/functions/decimals and equality of nulls to null are compared with the model.",
      "Trusts the 40-line navigation model; member access on kinds the statement does not name is skipped and counted.",
      "5/C16")
claim("C07", "reference-model monitor: store-passing evaluator (result, final locals, ordered invocation log) + deep before/after snapshot of the caller's map",
      "Generated programs over assignments, reads, commas, arrays, (multi-argument) recording calls, conditionals, parentheses and '+' are run one or two per runner and compared with a store-passing reference evaluation in value, in every $-entry left in the map and in the ordered log of recording calls; forbidden assignment targets in eight positions must be errors; every non-$ entry of the caller's map (contents, decimal internals, container identity) is snapshotted before and after, also on general programs over every builtin and data kind, including failing evaluations.",
      "Trusts the 150-line reference evaluator on its integer/array sub-language and the reflective snapshot as the meaning of 'unchanged'.",
      "5/C07")
claim("C08", "self-consistency monitor: repeat/interleave in one process, order permutation across processes, full reflective tree dump before/after",
      "Each (formula, data) pair is parsed twice (dumps must match), evaluated 5-20 times in fresh runners over freshly built equal data with unrelated parses, evaluations and field analyses in between (value or error text must not change), and the tree's full reflective dump (ids, parents, ranges) must be unchanged afterwards; additionally the same list of pairs is evaluated in forward order in this process and in reverse and strided order in two further processes and the outcomes must agree, which exposes stale caches that are stable within one history.",
      "Trusts the deep rendering of values; now/toDay formulas are excluded from value comparison.",
      "5/C08")
claim("C10", "reference-model monitor (expected read set from an independently parsed tree) + sufficiency by differential evaluation on restricted data",
      "For generated and systematically nested formulas the reported fields must contain every name/maximal path read outside callee position, nothing but reads and assignment targets, no duplicates, the non-local variant must be that set without $-entries, and member access on non-paths must be refused; evaluating against the full data map and against the map restricted to the reported top-level names plus callee names must give the same outcome.",
      "Trusts the reference parser and the 50-line read-set walker; assignment targets that are never read are allowed either way.",
      "5/C10")
claim("C20", "history replay against an executable model (sequential histories, so linearizability degenerates to replay)",
      "All operation histories up to length n over 14 operation instances and random histories up to length 40 (SetThis with fresh/shared/nil maps with and without $-entries, SetThisValue, Resolve of generated formulas that read and assign locals and fields, Set, Get) are replayed on a real runner and on a model; after every operation the result, every caller-held map and the auxiliary store must agree with the model.",
      "Trusts the model (map aliasing, locals as $-keys, separate store) and the reference evaluator for the formulas.",
      "5/C20")
claim("C17", "reference-model monitor: byte-wise reference functions + algebraic laws, exhaustive over strings x positions",
      "Each of the 18 string/list builtins is invoked through real formulas on every combination of 29 subject strings with every needle, every substring, every position from -3 to len+3, every pad and 32 patterns (plus random cases), and compared with independent byte-wise reference implementations; the laws left+right==s, startWith(s,left), endWith(s,right), find==-1 <=> !contains are evaluated as formulas; invalid regular expressions must be errors.",
      "Trusts the 60 lines of reference string functions, unicode.ToLower/ToUpper for case maps and Go's regexp as RE2.",
      "5/C17")
claim("C18", "reference-model monitor: exact decimal model for the integer-valued functions, 320-bit series for sqrt/exp/ln/log, int64 for bit operators",
      "abs/ceil/floor/toInt/roundBank are compared exactly, round by its contract (integer within 1/2), max/min by 'an argument bounding the others', sqrt/exp/ln/log by relative error <= 5e-15 against 320-bit series evaluations and by their inverse laws, toFloat/toString/finite by parse-back and NaN rules, & | ^ ~ against int64 two's complement; arguments cover ties of both parities and signs, near-integers, zero, -0 and magnitudes up to 1e30.",
      "Trusts math/big and the 120-line series code; observed maximum relative errors are reported in the evidence (about 5e-16).",
      "5/C18")
claim("C11", "reference-model monitor: bridge model over reflectively synthesised, recording host functions",
      "Host functions are synthesised with reflect.FuncOf/MakeFunc for signatures over 18 parameter kinds, variadic tails and leading contexts; every invocation records its context and arguments. Argument lists of length 0..n+2 over 25 argument values, with and without spread, are passed through real formulas (each argument wrapped in an order-recording call); the bridge model decides call vs reject and the value each parameter must receive; invocation count (1 or 0), received values, argument evaluation order, context identity, error wrapping with the function's name and number normalisation of returned Go numbers are compared.",
      "Trusts the 120-line bridge model as my reading of the statement; combinations it leaves open are skipped and counted.",
      "5/C11")
claim("C19", "reference-model monitor: independent days-from-civil calendar, per-time-zone child processes",
      "One child per local time zone (TZ set before start, 11 zones incl. UTC+14 and UTC-11 so that some local date always differs from the UTC date) evaluates date(y,m,d) for years 1-9999 with months/days from -40 to 60, the field extractors, millSecond, addDate, useTimezone and timeFormat on random instants and on instants around every DST transition of the zone between 1900 and 2100; civil fields, weekday, milliseconds, carry and formatting are computed independently (Hinnant's days-from-civil), instants are checked against local midnight / same clock time under the zone's offsets, unknown zones must be errors, now/toDay against the wall-clock bracket.",
      "Trusts Go's time package for zone offsets only; the meaning of 'local midnight' on skipped/repeated midnights is the candidate-offset rule stated in the assumptions.",
      "5/C19")
claim("C09", "Go race detector on a race-instrumented harness + sequential-equivalence monitor, one child process per concurrency configuration",
      "Per configuration (2-32 goroutines, GOMAXPROCS 1-16, hook-driven yield probability) a race-instrumented child shares a pool of parsed trees covering every builtin, operator and node kind among goroutines that each evaluate them with their own runner and goroutine-specific data, run the field analysis, and parse valid and invalid texts of their own (fresh identifiers, formatted diagnostics); GORACE logs are collected and de-duplicated by access-site pair, Go runtime fatals (concurrent map access) are attributed through breadcrumbs, and every concurrent result must equal the one computed sequentially for that goroutine's data. Overlapping evaluations of the same tree and injected yields are counted in the evidence.",
      "Trusts the Go race detector (reports only executed paths, bounded history); schedules are those that occurred under the listed configurations.",
      "5/C09")

# ---- additions of later rounds (appended to the level text of the property) -----------------------------
_HOST = " Every parse happens in a guarded, reused host buffer (text between live canary bytes inside the slice's capacity; any byte written is a violation; the buffer is overwritten before the tree is used), evaluations receive background, cancellable, deadline and value-carrying contexts."
_MORE = {
 "C07": " A callee held in a local is read before its arguments (function values in the reference evaluator); every callable x every data name is called directly, repeatedly, through locals and spread, and every operator template applied, under the deep snapshot.",
 "C08": " One tree is parsed from a private buffer and one from the reused host buffer (dumps, results and fields must agree); each formula is also evaluated against ONE long-lived data object between other formulas; the value returned by the first evaluation is read again after all later ones.",
 "C11": " argument-preserved: a number object handed to a parameter arrives unchanged at a later interface{} parameter and reads back exactly; returned-error: eleven kinds of returned error (wrapped, joined, from nested evaluations via RunnerFromCtx, custom As/Is) must name the called function.",
 "C16": " Member access is applied to parenthesised/conditional/??/comma/assignment operands; names-follow-the-map changes the data by every host route after an evaluation that read or assigned the name; 300-character keys differing in the last character.",
 "C20": " stored-number stability (a local's text, comparisons and differences inside the binding evaluation and in later ones), failure storm (thousands of failing evaluations of 19 kinds, then ordinary and deeply nested formulas compared with a fresh runner), exact representation of every entry an operation did not write.",
 "C04": " Digit separators in spelled literals; stored-number stability across evaluations.",
 "C18": " Every case is evaluated again with its operands held in locals, applied twice, and the locals read back; bit-operator operands also spelled with exponents.",
 "C06": " Half of the nested cases and all chains of two selection operators are printed with minimal parentheses and tight spacing; nil decimals among the null operands.",
 "C09": " Runners without a data map (never set, nil, created by SetThisValue) assign and read locals concurrently.",
 "C10": " Names differing only in case, in a prefix or not at all are mentioned in every order.",
 "C15": " The line helpers are also exercised through the SourceCode of accepted and rejected parses.",
 "C17": " Defined string-like types are compared with their underlying types; format characters that are not white space sit at string edges.",
 "C05": " Nil decimals (data, locals, host results) among the nulls; numbers near 1e+-6200.",
 "C03": " Struct types embedding pointers to themselves / each other; defined byte and rune slice types.",
 "C14": " Layouts also break lines after '.' and '!.'.",
}
_R78 = {
 "C01": " Token accounting: the tree of an accepted text stands for exactly as many tokens as the text has.",
 "C03": " Misuse templates are also evaluated inside larger formulas (non-last elements/arguments, operands, branches); every pair of 50 value kinds under 43 operator and call shapes.",
 "C04": " Data numbers also sit in nested maps, typed maps and struct fields; operands also enter as text through toFloat; sampled substitution check (expression vs the literal spelling of its value in 43 contexts).",
 "C05": " Numbers wider than 34 digits, numbers out of coercions/builtins/host functions, float32 values against their float64 widening.",
 "C06": " Zero times among the operands; impure calls standing as condition and branch are evaluated as often as written.",
 "C07": " Spread operands are evaluated once (model); names with $ not in first place are not locals; host functions that modify their slice/map parameters must not reach caller data or locals.",
 "C08": " Clock independence under a virtual wall clock (three other readings per formula); auxiliary store of fresh runners; rejected texts and zone names in every letter case in the cross-process order list.",
 "C09": " Host functions look their runner up through the context; 64 evaluations 6000 levels deep in flight together; a storm on one shared tree of compiling/formatting builtins with per-goroutine arguments; trees whose errors name the callee.",
 "C10": " Computed callees under the sufficiency check; 2-300 distinct names then repeats; double-underscore names.",
 "C11": " returned-number sweep over machine boundaries; a returned error aborts (nothing further called); context-lookalike first parameters.",
 "C12": " What may follow a literal (every blank of the ES sets, every identifier character of the basic plane); the literal written directly as an argument of integer/float/string/interface parameters.",
 "C13": " Every code point of the basic plane through its escape; a literal in place vs through a local under 39 builtins/operators; round trips with data whose names occur in the text.",
 "C14": " Scanner entry points: re-use through SetText, resume with SetTextPos, LookHead/TryScan restore.",
 "C15": " Texts behind a byte order mark.",
 "C16": " Member calls named like builtins read the data; struct fields by Go name whatever their tags; keys spelled like reserved words.",
 "C17": " mid with an inverted range is an error or empty.",
 "C18": " toFloat of 16-34 digit texts, max/min over wide neighbours and far exponents; sampled substitution check.",
 "C19": " now/toDay at ~60 000 chosen instants under a virtual wall clock; records with builtin-named columns; year 0; time.Local switched at run time; zone names in other letter cases and abbreviations.",
 "C20": " The data map bound to a local of itself (reads through it follow later changes); host functions that modify their parameters.",
}
_R910 = {
 "C01": " Allocation bound (bytes allocated per input byte); literals at the extremes of what a few bytes denote, behind a breadcrumb.",
 "C02": " Line breaks followed by non-ASCII blanks before postfix tokens; long flat formulas (one construct 100 001 - 262 145 times as list, arguments, chain or sequence).",
 "C04": " Every data number also under the operators against its literal; numbers stored through SetThisValue; float64 values a float32 holds exactly.",
 "C05": " Look-alike strings (full-width, NBSP, composed/decomposed) are different strings.",
 "C06": " Host functions returning typed nil pointers; times carrying a monotonic reading.",
 "C07": " Rebinding a local to an equal-looking value; wide fractional decimals in the standard data.",
 "C08": " Maps with keys of any kind; the cached build of the data is compared after every case with a snapshot taken when it was built.",
 "C09": " Computed callees with 3-7 arguments analysed concurrently; names in eight scripts and probe texts parsed concurrently and compared with the sequential parse.",
 "C11": " Plain machine-word integers reach float parameters as the nearest float.",
 "C12": " Tight embeddings; every well-formed literal behind typeof (glued when it starts with a dot).",
 "C13": " Texts that spell keywords, numbers and timestamps; escapes at 2^k-byte boundaries.",
 "C15": " The re-parse of a node's text is compared with literal values included.",
 "C16": " A scalar has no members; case variants of builtin names; flat dotted keys; exported fields with non-ASCII capitals.",
 "C17": " Patterns with unmatched brackets and slash-delimited lookalikes; subjects with line feeds and signs; digit pads.",
 "C18": " exp up to |x| = 870, logarithms next to 1; many-digit arguments down to 1e-45; zero-is-zero (28 zero-valued expressions under the whole family).",
 "C19": " Layouts of names only; arguments that are not a time are refused.",
}
_R1112 = {
 "C01": " Shapes with many diagnostics and many look-aheads in one text.",
 "C02": " Operator ladders and chains of 5-16 operators; stray characters at any token boundary in every layout; 2-65 536 line breaks before a postfix.",
 "C03": " Misuse on a zero-value Runner; calls through null receivers; null for slice parameters.",
 "C04": " Host-built decimals (34-digit, 60-digit, context-free) at every place in the data and under every operator; a local equals what it was bound to.",
 "C05": " Context-free and 60-digit host decimals with their negations; one number in many exponent spellings.",
 "C06": " Selections whose value is dropped; host objects whose types carry String/Len/IsZero/Error are truthy and handed back unchanged.",
 "C07": " runner-without-map (locals across evaluations, lists of up to 4097 elements), argument-evaluated-once (every builtin, 1-3 arguments, five value kinds), two-maps-in-turn.",
 "C08": " Sibling host functions (closures of one literal, method values, look-alike parameter types); names that are nearly builtins; recording context: keys looked up behind the caller's back are probed with values.",
 "C09": " Long lists binding and reading locals and trees the analysis refuses among the hot trees; every hot tree analysed by every goroutine in the cold start; one outcome known by construction.",
 "C10": " Dotted paths of 5-300 segments; 26 pairs of names colliding under eight common 32-bit string hashes.",
 "C11": " argument-by-path (26 values x 12 parameter kinds x 9 routes), f(...) without arguments, returned-error-any-signature, float-parameter-sweep (480 000 short decimals against strconv).",
 "C12": " Literals as conditions and selection operands; malformed literals behind member names on the next line.",
 "C15": " Escapes where a name is being read.",
 "C16": " builtin-not-shadowed (host functions stored under builtin names); types-with-methods (structs, named maps and slices with String/Error/Len/MarshalJSON; zero instants through every member route).",
 "C17": " Blanks at the edges of patterns.",
 "C18": " Blank texts are not numeric; toInt of numeric text; max/min over spread lists.",
 "C19": " now() strictly inside the bracket of virtual clock readings at arbitrary nanoseconds; blanks at the edges of layouts.",
 "C20": " Host-built decimals wider than 34 digits bound to locals.",
}
_R13 = {
 "C03": " Methods of a struct's type read as members are missing fields.",
 "C06": " Branches that are parenthesised sequences ending in a conditional: traces of exactly the selected path.",
 "C10": " The full map of every sufficiency pair holds the dollar twins of the names read.",
 "C11": " Null arguments and null array elements going to Go numbers are rejected (no silent zero).",
 "C12": " Exponents padded with 1-300 leading zeros.",
 "C15": " The tree is still what its text parses to after the two field analyses.",
 "C16": " Byte slices are handed on unchanged; methods are no members.",
 "C17": " upper/lower of every code point that has a case.",
 "C20": " opaque-values-stored-unchanged: 15 host values (instants with monotonic readings, slices, maps, structs, pointers, functions) bound through 14 spellings and SetThisValue, compared by Go identity in the map and in six later reads.",
}
for _i in CLAIMED:
    CLAIMED[_i]["text"] += _MORE.get(_i, "") + _R78.get(_i, "") + _R910.get(_i, "") + _R1112.get(_i, "") + _R13.get(_i, "") + _HOST
