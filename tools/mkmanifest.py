#!/usr/bin/env python3
"""Writes /verif/MANIFEST.json from the table below (kept in one place so the file is always valid)."""
import json, os, subprocess
ROOT = os.path.dirname(os.path.dirname(os.path.abspath(__file__)))
props = [json.loads(l) for l in open(os.path.join(ROOT, "properties.jsonl"))]
ids = [p["id"] for p in props]

# id -> (technique, level text, level note, design ref)
CLAIMED = {}
def claim(i, technique, text, note, ref):
    CLAIMED[i] = dict(technique=technique, text=text, note=note, ref=ref)

exec(open(os.path.join(ROOT, "tools", "claims.py")).read())

hooks_commits = subprocess.run(["git", "-C", "/repo", "log", "--format=%h", "--grep=^verif hook"], capture_output=True, text=True).stdout.split()
man = {
    "version": 1,
    "setup_cmd": "./check setup",
    "hooks": {
        "guard": "verif",
        "enable": "go build -tags verif (./check builds /verif/mon, whose go.mod replaces github.com/aundis/formula with /repo, so the current working tree is compiled)",
        "baseline_off_cmd": "cd /repo && GOFLAGS=-mod=readonly GOPROXY=off GOSUMDB=off GOTOOLCHAIN=local go test -vet=off -count=1 ./...",
        "source_commits": hooks_commits,
        "add_only": True,
    },
    "engines": [{
        "name": "vmon", "path": "mon/cmd/vmon",
        "serves_properties": sorted(CLAIMED),
        "kind_free_text": "Go runtime-monitoring harness: sharded child processes run the real package (built from /repo with the verif tag) under generated, hostile and stress workloads; reference-model, invariant and history monitors at the API boundary; Go race detector for C09",
    }],
    "checks": [],
    "not_applicable": [],
    "notes": "All checks are `./check <id> <tier>`; exit 0 held / 1 violation (VIOLATION line) / 2 inconclusive or build failure. Known and fixed findings: known_findings.json. VERIF_SEED selects the random streams. The harness binary is built with `go build -overlay` over a copy of the toolchain's time/time.go (tools/mkoverlay.py) so that monitors can set the wall clock read by time.Now; this touches nothing in /repo and is skipped (clock monitors count themselves as skipped) if the toolchain source has another shape or VERIF_NO_CLOCK_OVERLAY=1 is set.",
}
for i in ids:
    if i in CLAIMED:
        c = CLAIMED[i]
        man["checks"].append({
            "property_id": i,
            "quick_cmd": f"./check {i} quick",
            "thorough_cmd": f"./check {i} thorough",
            "evidence_file": f"/verif/evidence/{i}.json",
            "replay_cmd_template": "./check replay {path}",
            "engine": "vmon",
            "level_claimed": {"category": "exploration", "text": c["text"], "design_ref": c["ref"]},
            "level_note": c["note"],
            "technique": c["technique"],
        })
    else:
        man["not_applicable"].append({"property_id": i, "reason": "not claimed yet: its runtime monitor (DESIGN.md section 5) is not built at this commit"})
json.dump(man, open(os.path.join(ROOT, "MANIFEST.json"), "w"), indent=1)
print("claimed:", sorted(CLAIMED), "unclaimed:", [i for i in ids if i not in CLAIMED])
