#!/usr/bin/env python3
"""Regenerates the seeded-changes table of DESIGN.md (between the markers) from seeded/*/meta.json."""
import json, glob, os, re, sys
HERE = os.path.dirname(os.path.dirname(os.path.abspath(__file__)))
rows = []
def key(name):
    m = re.match(r'(C\d+)-(?:r(\d+))?([ab])$', name)
    return (m.group(1), int(m.group(2) or 0), m.group(3)) if m else (name, 0, '')
for d in sorted(glob.glob(os.path.join(HERE, 'seeded', '*')), key=lambda p: key(os.path.basename(p))):
    name = os.path.basename(d)
    try:
        m = json.load(open(os.path.join(d, 'meta.json')))
    except Exception:
        continue
    title = (m.get('title') or m.get('summary') or m.get('change') or '').replace('|', '/').replace('\n', ' ')
    caught = ', '.join(m.get('caught_by') or []) or ('tolerated by design' if 'tolerat' in (m.get('note') or '').lower() else 'NOT CAUGHT')
    rows.append('| %s | %s | %s | %s |' % (name, m.get('property', ''), title[:110], caught))
table = '| seeded | breaks | change | caught by |\n|---|---|---|---|\n' + '\n'.join(rows) + '\n'
p = os.path.join(HERE, 'DESIGN.md')
s = open(p).read()
start = s.index('| seeded | breaks | change | caught by |')
end = s.index('   What had to be strengthened because a seeded change was first missed:')
s = s[:start] + table + s[end:]
open(p, 'w').write(s)
print(len(rows), 'rows;', sum('NOT CAUGHT' in r for r in rows), 'not caught')
