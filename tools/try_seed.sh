#!/bin/bash
# try_seed.sh <seeded-name> <check> [tier]  -- run one check against /repo HEAD + seeded/<name>/patch.diff in a scratch copy
set -u
HERE="$(cd "$(dirname "$0")/.." && pwd)"
NAME="$1"; C="$2"; TIER="${3:-quick}"
W="$(mktemp -d /tmp/vtry.XXXXXX)"; mkdir -p "$W/formula" "$W/out"
git -C /repo archive HEAD | tar -x -C "$W/formula"
( cd "$W/formula" && { git apply --whitespace=nowarn "$HERE/seeded/$NAME/patch.diff" 2>/dev/null || patch -p1 -s < "$HERE/seeded/$NAME/patch.diff"; } ) || { echo "patch does not apply"; rm -rf "$W"; exit 3; }
VERIF_REPO="$W/formula" VERIF_SCRATCH="$W/out" "$HERE/check" "$C" "$TIER" >"$W/log" 2>&1; rc=$?
echo "$NAME vs $C $TIER: exit $rc: $(grep -c '^VIOLATION' "$W/log") VIOLATION; $(grep -m1 'signature=' "$W/log" | sed 's/.*signature=//' | cut -c1-200)"
[ "${KEEPLOG:-}" ] && cp "$W/log" "/tmp/try_${NAME}_${C}.log"
CK="$(echo "$W/formula" | cksum | cut -d' ' -f1)"; rm -rf "$W" "$HERE"/.build/*-alt"$CK"*
exit $rc
