package core

import (
	"encoding/json"
	"fmt"
	"os"
	"os/exec"
	"path/filepath"
	"sort"
	"strconv"
	"strings"
	"sync"
	"time"
)

// VerifRoot is /verif (overridable for tests of the framework itself).
func VerifRoot() string {
	if r := os.Getenv("VERIF_ROOT"); r != "" {
		return r
	}
	return "/verif"
}

func SeedFromEnv() int64 {
	if s := os.Getenv("VERIF_SEED"); s != "" {
		if v, err := strconv.ParseInt(strings.TrimSpace(s), 10, 64); err == nil {
			return v
		}
		return int64(Hash64(s) >> 1)
	}
	return 1
}

// OutRoot is where .run and evidence are written: /verif, or a scratch directory
// when checks are run against a mutated copy of the repository.
func OutRoot() string {
	if r := os.Getenv("VERIF_SCRATCH"); r != "" {
		return r
	}
	return VerifRoot()
}

type knownFinding struct {
	Status    string `json:"status"` // "known" | "fixed"
	Property  string `json:"property"`
	Signature string `json:"signature,omitempty"`
	Commit    string `json:"commit,omitempty"`
	What      string `json:"what"`
	Witness   string `json:"witness,omitempty"`
}

func loadKnown() []knownFinding {
	var doc struct {
		Findings []knownFinding `json:"findings"`
	}
	b, err := os.ReadFile(filepath.Join(VerifRoot(), "known_findings.json"))
	if err != nil {
		return nil
	}
	if json.Unmarshal(b, &doc) != nil {
		return nil
	}
	return doc.Findings
}

type childResult struct {
	shard    int
	exit     int
	timedOut bool
	log      string
}

func workerBinary(p *Prop) string {
	exe, _ := os.Executable()
	if p.Race {
		if rb := os.Getenv("VMON_RACE_BIN"); rb != "" {
			return rb
		}
		return exe + "-race"
	}
	return exe
}

func runChild(bin string, args []string, env []string, logPath string, watchdog int) (exit int, timedOut bool) {
	full := append([]string{"-s", "QUIT", "-k", "10", strconv.Itoa(watchdog), bin}, args...)
	cmd := exec.Command("timeout", full...)
	for _, e := range env {
		if strings.HasPrefix(e, "VMON_MEMLIMIT_KB=") {
			script := "ulimit -v " + strings.TrimPrefix(e, "VMON_MEMLIMIT_KB=") + "; exec \"$@\""
			cmd = exec.Command("sh", append([]string{"-c", script, "sh", "timeout"}, full...)...)
		}
	}
	cmd.Env = append(os.Environ(), env...)
	lf, err := os.Create(logPath)
	if err == nil {
		cmd.Stdout = lf
		cmd.Stderr = lf
		defer lf.Close()
	}
	err = cmd.Run()
	if err == nil {
		return 0, false
	}
	if ee, ok := err.(*exec.ExitError); ok {
		code := ee.ExitCode()
		if code == 124 || code == 137 || code == 4 {
			return code, true
		}
		if code == 2 {
			// SIGQUIT goroutine dump exits with 2 as well; distinguish by the log
			if b, _ := os.ReadFile(logPath); strings.Contains(string(b), "SIGQUIT: quit") {
				return code, true
			}
		}
		return code, false
	}
	return 127, false
}

func caseTimeout(p *Prop, tier string, mult int) time.Duration {
	sec := 60
	if tier == "thorough" {
		sec = 300
	}
	if p.CaseTimeoutSec != nil {
		if v := p.CaseTimeoutSec(tier); v > 0 {
			sec = v
		}
	}
	if v, err := strconv.Atoi(os.Getenv("VMON_CASE_TIMEOUT")); err == nil && v > 0 {
		sec = v
	}
	return time.Duration(sec*mult) * time.Second
}

func childEnv(p *Prop, shard int, tier string, dir string) []string {
	var env []string
	if p.Env != nil {
		env = p.Env(shard, tier)
	}
	if p.Race {
		env = append(env, fmt.Sprintf("GORACE=halt_on_error=0 exitcode=0 history_size=5 log_path=%s/race-%d", dir, shard))
	}
	if p.MemLimitMB > 0 && !p.Race {
		env = append(env, fmt.Sprintf("VMON_MEMLIMIT_KB=%d", p.MemLimitMB*1024))
	}
	return env
}

func tail(path string, n int) string {
	b, err := os.ReadFile(path)
	if err != nil {
		return ""
	}
	lines := strings.Split(string(b), "\n")
	// prefer the first "fatal error"/"panic:" line plus a little context
	for i, l := range lines {
		if strings.HasPrefix(l, "fatal error:") || strings.HasPrefix(l, "panic:") || strings.HasPrefix(l, "runtime: goroutine stack exceeds") {
			end := i + n
			if end > len(lines) {
				end = len(lines)
			}
			return strings.Join(lines[i:end], "\n")
		}
	}
	if len(lines) > n {
		lines = lines[len(lines)-n:]
	}
	return strings.Join(lines, "\n")
}

// RunParent executes a whole property check and returns the process exit code.
func RunParent(id, tier string) int {
	p := Lookup(id)
	if p == nil {
		fmt.Fprintf(os.Stderr, "unknown property %s (have %v)\n", id, IDs())
		return 2
	}
	start := time.Now()
	seed := SeedFromEnv()
	dir := filepath.Join(OutRoot(), ".run", id)
	os.RemoveAll(dir)
	os.MkdirAll(filepath.Join(dir, "replay"), 0o755)
	base0 := 1
	if p.Shards != nil {
		base0 = p.Shards(tier)
	}
	base := base0
	n := base
	if p.Probes != nil {
		n += p.Probes(tier)
	}
	watchdog := 900
	if tier == "thorough" {
		watchdog = 7200
	}
	if p.WatchdogSec != nil {
		if v := p.WatchdogSec(tier); v > 0 {
			watchdog = v
		}
	}
	bin := workerBinary(p)
	par := 16
	if s := os.Getenv("VERIF_PAR"); s != "" {
		if v, err := strconv.Atoi(s); err == nil && v > 0 {
			par = v
		}
	}
	results := make([]childResult, n)
	sem := make(chan struct{}, par)
	var wg sync.WaitGroup
	for k := 0; k < n; k++ {
		wg.Add(1)
		go func(k int) {
			defer wg.Done()
			sem <- struct{}{}
			defer func() { <-sem }()
			env := childEnv(p, k, tier, dir)
			logPath := filepath.Join(dir, fmt.Sprintf("shard-%d.log", k))
			args := []string{"worker", id, tier, strconv.FormatInt(seed, 10), strconv.Itoa(k), strconv.Itoa(base), dir}
			exit, to := runChild(bin, args, env, logPath, watchdog)
			results[k] = childResult{shard: k, exit: exit, timedOut: to, log: logPath}
		}(k)
	}
	wg.Wait()

	agg := Stats{Counters: map[string]int64{}, Maxes: map[string]float64{}, Skipped: map[string]int64{}}
	distinct := map[uint64]struct{}{}
	var viols []Violation
	var inconclusive []string
	exhaustive := map[string]int{}
	lostShards := 0
	seqReruns := 0
	var inconclusiveAfterSeq []string
	confirmedHang := map[string]bool{}
	extraHangs := 0
	for k := 0; k < n; k++ {
		r := results[k]
		base := filepath.Join(dir, fmt.Sprintf("shard-%d", k))
		if r.exit != 0 {
			// what the monitors of this shard had reported before the process died stands (each violation is written
			// out as it is found and replays on its own)
			viols = append(viols, readViol(base+".viol.json")...)
			// crash or watchdog: attribute to the breadcrumb, confirm in a fresh child
			cur, err := os.ReadFile(base + ".cur")
			what := "crash"
			if r.timedOut {
				what = "hang"
			}
			if r.exit == 3 {
				inconclusive = append(inconclusive, fmt.Sprintf("shard %d: harness error: %s", k, tail(r.log, 12)))
				continue
			}
			if err != nil || len(cur) == 0 {
				inconclusive = append(inconclusive, fmt.Sprintf("shard %d: %s (exit %d) without breadcrumb: %s", k, what, r.exit, tail(r.log, 12)))
				continue
			}
			var bc struct {
				Monitor string          `json:"monitor"`
				Case    json.RawMessage `json:"case"`
			}
			if json.Unmarshal(cur, &bc) != nil {
				inconclusive = append(inconclusive, fmt.Sprintf("shard %d: %s with unreadable breadcrumb", k, what))
				continue
			}
			env := childEnv(p, k, tier, dir)
			rlog := base + ".confirm.log"
			wd := 180
			if r.timedOut {
				if confirmedHang[bc.Monitor] {
					// the same monitor already has a confirmed hang in this run: do not pay for confirming every shard
					extraHangs++
					lostShards++
					continue
				}
				wd = int(caseTimeout(p, tier, 3).Seconds()) + 60
			}
			exit2, to2 := runChild(bin, []string{"replaycase", id, tier, strconv.FormatInt(seed, 10), dir, base + ".cur", strconv.Itoa(1000 + k)}, env, rlog, wd)
			switch {
			case exit2 == 0:
				// the single case is fine alone: the failure depends on what ran before it. Re-run the whole
				// (deterministic) shard once; failing again makes it a history-dependent violation.
				vs := readViol(filepath.Join(dir, fmt.Sprintf("shard-%d.viol.json", 1000+k)))
				viols = append(viols, vs...)
				firstTail := tail(r.log, 12)
				seqLog := base + ".sequence.log"
				os.Remove(base + ".cur")
				if seqReruns >= 1 {
					// one history-dependent failure has been confirmed already; do not pay for the others
					inconclusiveAfterSeq = append(inconclusiveAfterSeq, fmt.Sprintf("shard %d: %s (exit %d) not reproduced by its last input (sequence not re-run): %s", k, what, r.exit, firstTail))
					lostShards++
					continue
				}
				seqReruns++
				exit3, to3 := runChild(bin, []string{"worker", id, tier, strconv.FormatInt(seed, 10), strconv.Itoa(k), strconv.Itoa(base0), dir}, env, seqLog, watchdog)
				if exit3 == 0 {
					seqReruns--
					inconclusive = append(inconclusive, fmt.Sprintf("shard %d: %s (exit %d) not reproduced, neither alone nor by re-running the shard: %s", k, what, r.exit, firstTail))
					lostShards++
				} else if p.CrashIsViolation {
					kind := "crash"
					if to3 {
						kind = "hang"
					}
					seqCase, _ := json.Marshal(map[string]interface{}{"shard": k, "nshards": base0, "tier": tier, "last_input": json.RawMessage(cur)})
					viols = append(viols, Violation{Property: id, Monitor: "__shard__", Sig: id + "/" + kind + "-in-sequence:" + crashSig(seqLog), Seed: seed, Shard: k, Case: seqCase,
						Detail: fmt.Sprintf("%s only after earlier evaluations in the same process (the last input alone is fine); reproduced by re-running shard %d: %s", kind, k, tail(seqLog, 14))})
					lostShards++
				} else {
					inconclusive = append(inconclusive, fmt.Sprintf("shard %d: reproducible %s in sequence: %s", k, kind3(to3), tail(seqLog, 12)))
					lostShards++
				}
				continue
			case to2 && r.timedOut:
				confirmedHang[bc.Monitor] = true
				if p.CrashIsViolation {
					viols = append(viols, Violation{Property: id, Monitor: bc.Monitor, Sig: id + "/hang@" + bc.Monitor, Seed: seed, Shard: k, Case: bc.Case,
						Detail: fmt.Sprintf("no result within %d s, again alone within %d s", watchdog, wd)})
				} else {
					inconclusive = append(inconclusive, fmt.Sprintf("shard %d: hang in %s", k, bc.Monitor))
				}
			default:
				if p.CrashIsViolation {
					viols = append(viols, Violation{Property: id, Monitor: bc.Monitor, Sig: id + "/crash:" + crashSig(rlog), Seed: seed, Shard: k, Case: bc.Case,
						Detail: "process died (confirmed alone in a fresh child): " + tail(rlog, 14)})
				} else {
					inconclusive = append(inconclusive, fmt.Sprintf("shard %d: reproducible crash in %s: %s", k, bc.Monitor, tail(rlog, 12)))
				}
			}
			continue
		}
		var st Stats
		b, err := os.ReadFile(base + ".stats.json")
		if err != nil || json.Unmarshal(b, &st) != nil {
			inconclusive = append(inconclusive, fmt.Sprintf("shard %d: exit 0 but no stats", k))
			continue
		}
		agg.Evaluations += st.Evaluations
		agg.NViol += st.NViol
		for kk, v := range st.Counters {
			agg.Counters[kk] += v
		}
		for kk, v := range st.Skipped {
			agg.Skipped[kk] += v
		}
		for kk, v := range st.Maxes {
			if old, ok := agg.Maxes[kk]; !ok || v > old {
				agg.Maxes[kk] = v
			}
		}
		agg.Samples = append(agg.Samples, st.Samples...)
		agg.Notes = append(agg.Notes, st.Notes...)
		for _, e := range st.Exhaustive {
			exhaustive[e]++
		}
		inconclusive = append(inconclusive, st.Inconcl...)
		viols = append(viols, readViol(base+".viol.json")...)
		if db, err := os.ReadFile(base + ".distinct"); err == nil {
			for i := 0; i+8 <= len(db); i += 8 {
				var u uint64
				for j := 0; j < 8; j++ {
					u |= uint64(db[i+j]) << (8 * j)
				}
				distinct[u] = struct{}{}
			}
		}
	}
	if extraHangs > 0 {
		agg.Counters["further_shards_hanging_like_the_confirmed_one"] = int64(extraHangs)
	}
	if p.Race {
		for _, rr := range collectRaceReports(dir) {
			seqCase, _ := json.Marshal(map[string]interface{}{"shard": rr.Shard, "nshards": base0, "tier": tier})
			viols = append(viols, Violation{Property: id, Monitor: "__shard__", Sig: id + "/data-race:" + rr.Sig, Seed: seed, Shard: rr.Shard, Case: seqCase,
				Detail: "the Go race detector reported:\n" + clip(rr.Text, 3000)})
		}
		agg.Counters["race_log_files_scanned"] += int64(len(raceLogFiles(dir)))
	}
	if seqViol := func() bool {
		for _, v := range viols {
			if v.Monitor == "__shard__" {
				return true
			}
		}
		return false
	}(); !seqViol {
		inconclusive = append(inconclusive, inconclusiveAfterSeq...)
	}
	// exhaustive parts count only when every shard completed them
	var exParts []string
	for e, c := range exhaustive {
		if c == base && lostShards == 0 {
			exParts = append(exParts, e)
		}
	}
	sort.Strings(exParts)
	if p.Floors != nil {
		inconclusive = append(inconclusive, p.Floors(agg.Counters, tier)...)
	}
	if agg.Evaluations == 0 || len(distinct) < 2 {
		inconclusive = append(inconclusive, "the run observed (almost) nothing")
	}

	// known findings
	known := loadKnown()
	var fresh []Violation
	knownSeen := map[string]int{}
	for _, v := range viols {
		matched := false
		for _, kf := range known {
			if kf.Status == "known" && kf.Property == id && kf.Signature == v.Sig {
				matched = true
				if knownSeen[kf.Signature] == 0 {
					fmt.Printf("KNOWN-FINDING: property=%s %s\n", id, kf.What)
				}
				knownSeen[kf.Signature]++
				break
			}
		}
		if !matched {
			fresh = append(fresh, v)
		}
	}

	// replay files, one VIOLATION line per signature
	bySig := map[string][]Violation{}
	var sigs []string
	for _, v := range fresh {
		if _, ok := bySig[v.Sig]; !ok {
			sigs = append(sigs, v.Sig)
		}
		bySig[v.Sig] = append(bySig[v.Sig], v)
	}
	sort.Strings(sigs)
	printed := 0
	for i, s := range sigs {
		v := bySig[s][0]
		path := filepath.Join(dir, "replay", fmt.Sprintf("%03d.json", i))
		writeJSON(path, v)
		if printed < 20 {
			fmt.Printf("VIOLATION property=%s replay=%s\n", id, path)
			fmt.Printf("  monitor=%s signature=%s occurrences>=%d\n  case=%s\n  expected=%v\n  observed=%v\n  %s\n", v.Monitor, v.Sig, len(bySig[s]),
				clip(string(v.Case), 300), clipV(v.Expected, 300), clipV(v.Observed, 300), clip(v.Detail, 600))
			printed++
		}
	}

	// evidence
	samples := agg.Samples
	if len(samples) > 16 {
		// keep a spread
		step := len(samples) / 16
		var s2 []interface{}
		for i := 0; i < len(samples) && len(s2) < 16; i += step {
			s2 = append(s2, samples[i])
		}
		samples = s2
	}
	if samples == nil {
		samples = []interface{}{}
	}
	cov := map[string]interface{}{
		"evaluations":         agg.Evaluations,
		"distinct_nontrivial": len(distinct),
		"rule":                p.Rule,
		"samples":             samples,
		"exhaustive":          false,
		"exhaustive_parts":    exParts,
		"observations":        agg.Counters,
		"maxima":              agg.Maxes,
		"unspecified_skipped": agg.Skipped,
		"known_findings_seen": knownSeen,
		"shards":              n,
		"inconclusive":        inconclusive,
		"violation_classes":   sigs,
		"notes":               dedup(agg.Notes),
	}
	ev := map[string]interface{}{
		"property_id": id,
		"tier":        tier,
		"seed":        seed,
		"level":       "exploration",
		"coverage":    cov,
		"assumptions": p.Assumptions,
		"wall_s":      time.Since(start).Seconds(),
		"violations":  len(fresh),
	}
	os.MkdirAll(filepath.Join(OutRoot(), "evidence"), 0o755)
	if err := writeJSON(filepath.Join(OutRoot(), "evidence", id+".json"), ev); err != nil {
		fmt.Fprintln(os.Stderr, "cannot write evidence:", err)
		return 2
	}
	fmt.Printf("%s %s seed=%d: evaluations=%d distinct_nontrivial=%d violations=%d known=%d inconclusive=%d wall=%.1fs\n",
		id, tier, seed, agg.Evaluations, len(distinct), len(fresh), len(knownSeen), len(inconclusive), time.Since(start).Seconds())
	if len(fresh) > 0 {
		return 1
	}
	if len(inconclusive) > 0 {
		for _, s := range inconclusive {
			fmt.Printf("INCONCLUSIVE property=%s %s\n", id, clip(s, 800))
		}
		return 2
	}
	return 0
}

func dedup(in []string) []string {
	seen := map[string]bool{}
	out := []string{}
	for _, s := range in {
		if !seen[s] {
			seen[s] = true
			out = append(out, s)
		}
	}
	sort.Strings(out)
	return out
}

// crashSig names a crash by its fatal line and the innermost frame of the code under test.
func crashSig(logPath string) string {
	b, err := os.ReadFile(logPath)
	if err != nil {
		return "unknown"
	}
	fatal, frame := "", ""
	for _, l := range strings.Split(string(b), "\n") {
		if fatal == "" && (strings.HasPrefix(l, "fatal error:") || strings.HasPrefix(l, "panic:")) {
			fatal = strings.TrimSpace(l)
			if len(fatal) > 60 {
				fatal = fatal[:60]
			}
		}
		if frame == "" && strings.HasPrefix(l, "github.com/aundis/formula.") {
			f := strings.TrimPrefix(l, "github.com/aundis/formula.")
			// cut the argument list (method frames start with a parenthesised receiver: "(*Runner).resolve(0xc000...)")
			start := 0
			if strings.HasPrefix(f, "(") {
				start = strings.Index(f, ")") + 1
			}
			if i := strings.IndexAny(f[start:], "({"); i > 0 {
				f = f[:start+i]
			}
			frame = "formula." + f
		}
	}
	if fatal == "" {
		fatal = "died"
	}
	return fatal + "@" + frame
}

type raceReport struct {
	Shard int
	Sig   string
	Text  string
}

func raceLogFiles(dir string) []string {
	m, _ := filepath.Glob(filepath.Join(dir, "race-*.*"))
	sort.Strings(m)
	return m
}

// collectRaceReports parses the race detector's log files: one entry per distinct pair of access sites.
func collectRaceReports(dir string) []raceReport {
	var out []raceReport
	seen := map[string]bool{}
	for _, f := range raceLogFiles(dir) {
		b, err := os.ReadFile(f)
		if err != nil {
			continue
		}
		shard := 0
		fmt.Sscanf(filepath.Base(f), "race-%d.", &shard)
		for _, block := range strings.Split(string(b), "==================") {
			if !strings.Contains(block, "WARNING: DATA RACE") {
				continue
			}
			// the first frame of the code under test (else the first frame at all) in each access stack
			var sites []string
			inStack := false
			got := false
			first := ""
			for _, l := range strings.Split(block, "\n") {
				t := strings.TrimSpace(l)
				if strings.HasSuffix(t, ":") && (strings.Contains(t, " by goroutine ") || strings.Contains(t, " by main goroutine")) && (strings.HasPrefix(t, "Write") || strings.HasPrefix(t, "Read") || strings.HasPrefix(t, "Previous") || strings.HasPrefix(t, "Atomic")) {
					if inStack && !got && first != "" {
						sites = append(sites, first)
					}
					inStack, got, first = true, false, ""
					continue
				}
				if t == "" || strings.HasPrefix(t, "Goroutine ") {
					if inStack && !got && first != "" {
						sites = append(sites, first)
					}
					inStack = false
					continue
				}
				if inStack && !got && !strings.HasPrefix(t, "/") {
					fn := t
					if i := strings.Index(fn, "("); i > 0 && strings.HasSuffix(fn, ")") && !strings.Contains(fn[i:], ".") {
						fn = fn[:strings.LastIndex(fn, "(")]
					}
					if first == "" {
						first = fn
					}
					if strings.HasPrefix(fn, "github.com/aundis/formula.") {
						sites = append(sites, strings.TrimPrefix(fn, "github.com/aundis/"))
						got = true
					}
				}
			}
			sort.Strings(sites)
			sig := strings.Join(sites, "|")
			if sig == "" {
				sig = "unattributed"
			}
			if seen[sig] {
				continue
			}
			seen[sig] = true
			out = append(out, raceReport{Shard: shard, Sig: sig, Text: strings.TrimSpace(block)})
		}
	}
	return out
}

func kind3(to bool) string {
	if to {
		return "hang"
	}
	return "crash"
}

func firstLine(s string) string {
	if i := strings.IndexByte(s, '\n'); i >= 0 {
		s = s[:i]
	}
	return clip(s, 80)
}

func clip(s string, n int) string {
	if len(s) > n {
		return s[:n] + fmt.Sprintf("…(+%d bytes)", len(s)-n)
	}
	return s
}

func clipV(v interface{}, n int) string {
	b, err := json.Marshal(v)
	if err != nil {
		return clip(fmt.Sprint(v), n)
	}
	return clip(string(b), n)
}

func readViol(path string) []Violation {
	var vs []Violation
	b, err := os.ReadFile(path)
	if err != nil {
		return nil
	}
	json.Unmarshal(b, &vs)
	return vs
}

// RunWorker is the child side.
func RunWorker(args []string) int {
	if len(args) < 6 {
		fmt.Fprintln(os.Stderr, "worker: bad args")
		return 3
	}
	id, tier := args[0], args[1]
	seed, _ := strconv.ParseInt(args[2], 10, 64)
	shard, _ := strconv.Atoi(args[3])
	n, _ := strconv.Atoi(args[4])
	dir := args[5]
	p := Lookup(id)
	if p == nil {
		return 3
	}
	w := NewW(id, tier, seed, shard, n, dir)
	w.StartWatchdog(caseTimeout(p, tier, 1))
	p.Run(w)
	if err := w.Flush(); err != nil {
		fmt.Fprintln(os.Stderr, "flush:", err)
		return 3
	}
	return 0
}

// RunReplayCase re-executes the case stored in a breadcrumb or replay file.
func RunReplayCase(args []string) int {
	if len(args) < 6 {
		return 3
	}
	id, tier := args[0], args[1]
	seed, _ := strconv.ParseInt(args[2], 10, 64)
	dir, file := args[3], args[4]
	shard, _ := strconv.Atoi(args[5])
	p := Lookup(id)
	if p == nil {
		return 3
	}
	b, err := os.ReadFile(file)
	if err != nil {
		return 3
	}
	var bc struct {
		Monitor string          `json:"monitor"`
		Case    json.RawMessage `json:"case"`
	}
	if err := json.Unmarshal(b, &bc); err != nil {
		return 3
	}
	w := NewW(id, tier, seed, shard, 1, dir)
	w.Replay = true
	w.StartWatchdog(caseTimeout(p, tier, 3))
	if err := p.ReplayCase(w, bc.Monitor, bc.Case); err != nil {
		fmt.Fprintln(os.Stderr, "replay:", err)
		return 3
	}
	if err := w.Flush(); err != nil {
		return 3
	}
	return 0
}

// RunReplay is `vmon replay <path>`: exit 1 + VIOLATION line if the recorded case still fails.
func RunReplay(path string) int {
	b, err := os.ReadFile(path)
	if err != nil {
		fmt.Fprintln(os.Stderr, err)
		return 2
	}
	var v Violation
	if err := json.Unmarshal(b, &v); err != nil {
		fmt.Fprintln(os.Stderr, err)
		return 2
	}
	p := Lookup(v.Property)
	if p == nil {
		fmt.Fprintln(os.Stderr, "unknown property", v.Property)
		return 2
	}
	dir := filepath.Join(OutRoot(), ".run", v.Property+"-replay")
	os.RemoveAll(dir)
	os.MkdirAll(dir, 0o755)
	tier := "quick"
	env := childEnv(p, v.Shard, tier, dir)
	if v.Monitor == "__shard__" {
		var sc struct {
			Shard, NShards int
			Tier           string
		}
		json.Unmarshal(v.Case, &sc)
		if sc.Tier != "" {
			tier = sc.Tier
		}
		exit, to := runChild(workerBinary(p), []string{"worker", v.Property, tier, strconv.FormatInt(v.Seed, 10), strconv.Itoa(sc.Shard), strconv.Itoa(sc.NShards), dir}, env, filepath.Join(dir, "replay.log"), 7200)
		if exit != 0 {
			fmt.Printf("VIOLATION property=%s replay=%s\n  %s when shard %d is re-run: %s\n", v.Property, path, kind3(to), sc.Shard, tail(filepath.Join(dir, "replay.log"), 14))
			return 1
		}
		if p.Race {
			if rr := collectRaceReports(dir); len(rr) > 0 {
				fmt.Printf("VIOLATION property=%s replay=%s\n  data race when shard %d is re-run (%d distinct): %s\n%s\n", v.Property, path, sc.Shard, len(rr), rr[0].Sig, clip(rr[0].Text, 2000))
				return 1
			}
		}
		if vs := readViol(filepath.Join(dir, fmt.Sprintf("shard-%d.viol.json", sc.Shard))); len(vs) > 0 {
			fmt.Printf("VIOLATION property=%s replay=%s\n  monitor=%s signature=%s\n  %s\n", v.Property, path, vs[0].Monitor, vs[0].Sig, clip(vs[0].Detail, 600))
			return 1
		}
		fmt.Printf("replay %s: re-running the shard no longer fails\n", path)
		return 0
	}
	exit, to := runChild(workerBinary(p), []string{"replaycase", v.Property, tier, strconv.FormatInt(v.Seed, 10), dir, path, "0"}, env, filepath.Join(dir, "replay.log"), 3600)
	if exit != 0 {
		if exit == 3 {
			fmt.Println("replay: harness error:", tail(filepath.Join(dir, "replay.log"), 10))
			return 2
		}
		what := "crash"
		if to {
			what = "hang"
		}
		fmt.Printf("VIOLATION property=%s replay=%s\n  %s on replay: %s\n", v.Property, path, what, tail(filepath.Join(dir, "replay.log"), 14))
		return 1
	}
	vs := readViol(filepath.Join(dir, "shard-0.viol.json"))
	if len(vs) > 0 {
		fmt.Printf("VIOLATION property=%s replay=%s\n  monitor=%s signature=%s\n  expected=%v\n  observed=%v\n  %s\n", v.Property, path, vs[0].Monitor, vs[0].Sig,
			clipV(vs[0].Expected, 400), clipV(vs[0].Observed, 400), clip(vs[0].Detail, 600))
		return 1
	}
	fmt.Printf("replay %s: the recorded case no longer violates %s\n", path, v.Property)
	return 0
}
