// Package core is the runtime-monitoring framework: worker context (counters,
// samples, violations, crash breadcrumbs), property/monitor registry, the parent
// process that shards work over child processes, evidence and replay files.
package core

import (
	"encoding/json"
	"fmt"
	"hash/fnv"
	"math/rand"
	"os"
	"os/exec"
	"path/filepath"
	"runtime"
	"sort"
	"strconv"
	"strings"
	"sync/atomic"
	"time"
)

// Violation is one refuting observation together with the case that produced it.
type Violation struct {
	Property string          `json:"property"`
	Monitor  string          `json:"monitor"`
	Sig      string          `json:"signature"`
	Seed     int64           `json:"seed"`
	Shard    int             `json:"shard"`
	Case     json.RawMessage `json:"case"`
	Expected interface{}     `json:"expected,omitempty"`
	Observed interface{}     `json:"observed,omitempty"`
	Detail   string          `json:"detail,omitempty"`
}

// Stats is what one worker hands back to the parent.
type Stats struct {
	Evaluations int64              `json:"evaluations"`
	Counters    map[string]int64   `json:"counters"`
	Maxes       map[string]float64 `json:"maxes"`
	Samples     []interface{}      `json:"samples"`
	Skipped     map[string]int64   `json:"skipped"`
	Exhaustive  []string           `json:"exhaustive_parts"`
	Notes       []string           `json:"notes"`
	NViol       int                `json:"nviol"`
	Inconcl     []string           `json:"inconclusive"`
}

// W is the worker context handed to every monitor.
type W struct {
	Prop    string
	Tier    string
	Seed    int64
	Shard   int
	NShards int
	Dir     string // run directory of this property
	Replay  bool

	st       Stats
	distinct map[uint64]struct{}
	viol     []Violation
	violSig  map[string]int
	curF     *os.File
	sampleN  map[string]int
	curMon   string
	curLen   int64
	beat     int64 // monotonic nanos (since process start) of the last sign of life (atomic)
}

// monoNow: nanoseconds since process start on the monotonic clock (monitors may run under a virtual wall clock).
var processStart = time.Now()

func monoNow() int64 { return int64(time.Since(processStart)) }

// Beat records a sign of life for the per-case watchdog.
func (w *W) Beat() { atomic.StoreInt64(&w.beat, monoNow()) }

// Extend tells the watchdog that the next sign of life may take up to d (e.g. while a helper process runs).
func (w *W) Extend(d time.Duration) { atomic.StoreInt64(&w.beat, monoNow()+int64(d)) }

// StartWatchdog kills the process (exit 4, after dumping all goroutine stacks) when no
// case completed for limit; the parent then treats the breadcrumb as a hang candidate.
func (w *W) StartWatchdog(limit time.Duration) {
	w.Beat()
	go func() {
		for {
			time.Sleep(500 * time.Millisecond)
			if time.Duration(monoNow()-atomic.LoadInt64(&w.beat)) > limit {
				buf := make([]byte, 1<<20)
				n := runtime.Stack(buf, true)
				fmt.Fprintf(os.Stderr, "CASE-WATCHDOG: no progress for %s\n%s\n", limit, buf[:n])
				os.Exit(4)
			}
		}
	}()
}

const maxDistinctPerShard = 6_000_000
const maxViolPerSig = 3
const maxSamplesPerKind = 3

func NewW(prop, tier string, seed int64, shard, nshards int, dir string) *W {
	w := &W{Prop: prop, Tier: tier, Seed: seed, Shard: shard, NShards: nshards, Dir: dir}
	w.st.Counters = map[string]int64{}
	w.st.Maxes = map[string]float64{}
	w.st.Skipped = map[string]int64{}
	w.distinct = map[uint64]struct{}{}
	w.violSig = map[string]int{}
	w.sampleN = map[string]int{}
	return w
}

func (w *W) Quick() bool { return w.Tier != "thorough" }

// Pick returns q for the quick tier and t for the thorough tier.
func (w *W) Pick(q, t int) int {
	if w.Quick() {
		return q
	}
	return t
}

// RNG gives a deterministic generator for (property, seed, shard, stream).
func (w *W) RNG(stream string) *rand.Rand {
	h := fnv.New64a()
	fmt.Fprintf(h, "%s|%d|%d|%s", w.Prop, w.Seed, w.Shard, stream)
	return rand.New(rand.NewSource(int64(h.Sum64())))
}

// Mine reports whether global index i belongs to this shard.
func (w *W) Mine(i int) bool { return i%w.NShards == w.Shard }

// Eval counts n executions of the code under test and is the watchdog's sign of life.
func (w *W) Eval(n int) {
	before := w.st.Evaluations
	w.st.Evaluations += int64(n)
	if before>>6 != w.st.Evaluations>>6 || n > 1 {
		w.Beat()
	}
}

func (w *W) Count(key string)           { w.st.Counters[key]++ }
func (w *W) CountN(key string, n int64) { w.st.Counters[key] += n }
func (w *W) Skip(key string)            { w.st.Skipped[key]++ }
func (w *W) Note(s string)              { w.st.Notes = append(w.st.Notes, s) }
func (w *W) ExhaustivePart(s string)    { w.st.Exhaustive = append(w.st.Exhaustive, s) }
func (w *W) Inconclusive(reason string) { w.st.Inconcl = append(w.st.Inconcl, reason) }
func (w *W) Counter(key string) int64   { return w.st.Counters[key] }
func (w *W) Max(key string, v float64) {
	if old, ok := w.st.Maxes[key]; !ok || v > old {
		w.st.Maxes[key] = v
	}
}

// HashStr gives a short stable hash of any JSON-serialisable value.
func HashStr(v interface{}) string {
	b, _ := json.Marshal(v)
	return fmt.Sprintf("%016x", Hash64(string(b)))
}

func Hash64(s string) uint64 {
	h := fnv.New64a()
	h.Write([]byte(s))
	return h.Sum64()
}

// Nontrivial records one case that is non-trivial by the property's rule; the
// key identifies the case (distinct keys are counted once, across shards too).
func (w *W) Nontrivial(key string) {
	if len(w.distinct) >= maxDistinctPerShard {
		return // conservative: stop counting, never over-count
	}
	w.distinct[Hash64(key)] = struct{}{}
}

// Sample keeps a few concrete cases per kind for the evidence file.
func (w *W) Sample(kind string, v interface{}) {
	if w.sampleN[kind] >= maxSamplesPerKind {
		return
	}
	w.sampleN[kind]++
	w.st.Samples = append(w.st.Samples, map[string]interface{}{"kind": kind, "case": v})
}

// Cur leaves a breadcrumb on disk before a call that may kill the process.
func (w *W) Cur(monitor string, c interface{}) {
	if w.curF == nil {
		f, err := os.OpenFile(filepath.Join(w.Dir, fmt.Sprintf("shard-%d.cur", w.Shard)), os.O_CREATE|os.O_RDWR|os.O_TRUNC, 0o644)
		if err != nil {
			return
		}
		w.curF = f
	}
	w.Beat()
	b, _ := json.Marshal(map[string]interface{}{"monitor": monitor, "case": c})
	w.curF.Truncate(int64(len(b)))
	w.curLen = int64(len(b))
	w.curF.WriteAt(b, 0)
}

// CurRaw is Cur for a pre-rendered case (JSON), for hot loops.
func (w *W) CurRaw(monitor string, rawCase []byte) {
	if w.curF == nil {
		f, err := os.OpenFile(filepath.Join(w.Dir, fmt.Sprintf("shard-%d.cur", w.Shard)), os.O_CREATE|os.O_RDWR|os.O_TRUNC, 0o644)
		if err != nil {
			return
		}
		w.curF = f
	}
	w.Beat()
	b := make([]byte, 0, len(rawCase)+64)
	b = append(b, `{"monitor":"`...)
	b = append(b, monitor...)
	b = append(b, `","case":`...)
	b = append(b, rawCase...)
	b = append(b, '}')
	if int64(len(b)) < w.curLen {
		w.curF.Truncate(int64(len(b)))
	}
	w.curLen = int64(len(b))
	w.curF.WriteAt(b, 0)
}

// Violation records a refuting observation.
func (w *W) Violation(monitor, sig string, c interface{}, expected, observed interface{}, detail string) {
	w.st.NViol++
	if w.violSig[sig] >= maxViolPerSig {
		w.violSig[sig]++
		return
	}
	w.violSig[sig]++
	raw, err := json.Marshal(c)
	if err != nil {
		raw, _ = json.Marshal(fmt.Sprintf("%#v", c))
	}
	w.viol = append(w.viol, Violation{Property: w.Prop, Monitor: monitor, Sig: sig, Seed: w.Seed, Shard: w.Shard,
		Case: raw, Expected: jsonSafe(expected), Observed: jsonSafe(observed), Detail: detail})
	// on disk at once: what a monitor has seen stands even if the process is killed by a later case
	if w.Dir != "" {
		writeJSON(filepath.Join(w.Dir, fmt.Sprintf("shard-%d.viol.json", w.Shard)), w.viol)
	}
}

func (w *W) NViol() int { return w.st.NViol }

func jsonSafe(v interface{}) interface{} {
	if v == nil {
		return nil
	}
	if _, err := json.Marshal(v); err != nil {
		return fmt.Sprintf("%#v", v)
	}
	return v
}

// Flush writes the worker's results.
func (w *W) Flush() error {
	base := filepath.Join(w.Dir, fmt.Sprintf("shard-%d", w.Shard))
	if err := writeJSON(base+".stats.json", &w.st); err != nil {
		return err
	}
	if err := writeJSON(base+".viol.json", w.viol); err != nil {
		return err
	}
	// distinct hashes, binary little endian
	keys := make([]uint64, 0, len(w.distinct))
	for k := range w.distinct {
		keys = append(keys, k)
	}
	buf := make([]byte, 8*len(keys))
	for i, k := range keys {
		for j := 0; j < 8; j++ {
			buf[8*i+j] = byte(k >> (8 * j))
		}
	}
	if err := os.WriteFile(base+".distinct", buf, 0o644); err != nil {
		return err
	}
	if w.curF != nil {
		w.curF.Close()
		os.Remove(w.curF.Name())
	}
	return nil
}

func writeJSON(path string, v interface{}) error {
	b, err := json.MarshalIndent(v, "", " ")
	if err != nil {
		return err
	}
	return os.WriteFile(path, b, 0o644)
}

// ---- registry ---------------------------------------------------------------

// Prop describes one property's monitor set.
type Prop struct {
	ID          string
	Title       string
	Rule        string
	Assumptions []string
	// Shards returns the number of child processes for a tier.
	Shards func(tier string) int
	// Run executes this worker's share of the case space.
	Run func(w *W)
	// Floors inspects the merged counters and returns reasons for "inconclusive".
	Floors func(c map[string]int64, tier string) []string
	// Env returns extra environment for a given shard (e.g. TZ).
	Env func(shard int, tier string) []string
	// Race: run workers from the race-instrumented binary.
	Race bool
	// WatchdogSec per worker (0 = default).
	WatchdogSec func(tier string) int
	// CrashIsViolation: a child killed by a Go fatal error refutes the property.
	CrashIsViolation bool
	// MemLimitMB: address-space limit of each child (0 = none).
	MemLimitMB int
	// CaseTimeoutSec: per-case watchdog inside each child (0 = default 60 quick / 300 thorough).
	CaseTimeoutSec func(tier string) int
	// Probes: extra children (shard numbers Shards..Shards+Probes-1) that each run one
	// input expected to be fatal to the process (known findings are re-observed this way).
	Probes func(tier string) int

	monitors map[string]func(w *W, raw json.RawMessage) error
}

var props = map[string]*Prop{}

func Register(p *Prop) *Prop {
	p.monitors = map[string]func(w *W, raw json.RawMessage) error{}
	props[p.ID] = p
	return p
}

func Lookup(id string) *Prop { return props[id] }

func IDs() []string {
	var ids []string
	for k := range props {
		ids = append(ids, k)
	}
	sort.Strings(ids)
	return ids
}

var auxCmds = map[string]func(args []string) int{}

// RegisterAux registers an auxiliary child command (`vmon aux <name> args...`), used by
// monitors that need a second process (e.g. to evaluate the same cases in another order).
func RegisterAux(name string, f func(args []string) int) { auxCmds[name] = f }

// RunAux dispatches `vmon aux <name> ...`.
func RunAux(args []string) int {
	if len(args) == 0 || auxCmds[args[0]] == nil {
		fmt.Fprintln(os.Stderr, "unknown aux command")
		return 3
	}
	return auxCmds[args[0]](args[1:])
}

// SelfExec runs this binary's aux command and returns its stdout.
func SelfExec(timeoutSec int, args ...string) ([]byte, error) {
	exe, err := os.Executable()
	if err != nil {
		return nil, err
	}
	full := append([]string{"-s", "KILL", strconv.Itoa(timeoutSec), exe, "aux"}, args...)
	cmd := exec.Command("timeout", full...)
	cmd.Stderr = os.Stderr
	return cmd.Output()
}

// Mon declares a monitor over cases of type C. The returned function runs the
// check on one case; the same check is used to replay a recorded case.
func Mon[C any](p *Prop, name string, check func(w *W, c *C)) func(w *W, c *C) {
	run := func(w *W, c *C) {
		check(w, c)
		if PostCase != nil {
			PostCase(w, p, name, c)
		}
	}
	p.monitors[name] = func(w *W, raw json.RawMessage) error {
		var c C
		if err := json.Unmarshal(raw, &c); err != nil {
			return err
		}
		run(w, &c)
		return nil
	}
	return run
}

// PostCase, when set, runs after every case of every monitor (cross-cutting observers that
// are fed by shared helpers, e.g. the guard around the text buffer handed to the parser).
var PostCase func(w *W, p *Prop, monitor string, c interface{})

// ReplayCase re-executes one recorded case.
func (p *Prop) ReplayCase(w *W, monitor string, raw json.RawMessage) error {
	f, ok := p.monitors[monitor]
	if !ok {
		return fmt.Errorf("property %s has no monitor %q (have %s)", p.ID, monitor, strings.Join(p.monitorNames(), ","))
	}
	return f(w, raw)
}

func (p *Prop) monitorNames() []string {
	var n []string
	for k := range p.monitors {
		n = append(n, k)
	}
	sort.Strings(n)
	return n
}

// Call runs f and reports a panic escaping from it.
func Call(f func()) (panicked bool, val interface{}) {
	defer func() {
		if r := recover(); r != nil {
			panicked = true
			val = r
		}
	}()
	f()
	return false, nil
}
