// Package val describes Go data values by a serialisable spec, so that every
// case (data maps included) can be written to a replay file and rebuilt exactly.
package val

import (
	"context"
	"errors"
	"fmt"
	"math"
	"math/big"
	"math/rand"
	"reflect"
	"strings"
	"time"

	"github.com/ericlagergren/decimal"
)

// V is the spec of one value.
type V struct {
	K string `json:"k"`
	S string `json:"s,omitempty"`
	I int64  `json:"i,omitempty"`
	U uint64 `json:"u,omitempty"`
	B bool   `json:"b,omitempty"`
	L []V    `json:"l,omitempty"`
	M []KV   `json:"m,omitempty"`
}

type KV struct {
	K string `json:"k"`
	V V      `json:"v"`
}

// St is the struct kind used in data maps.
type St struct {
	A    int
	S    string
	F    float64
	N    int64
	T    bool
	M    map[string]interface{}
	P    *St
	Any  interface{}
	Nil  *int
	priv int
	hid  string
}

// Inner / Outer: a struct with an embedded struct (promoted fields).
type Inner struct {
	City  string
	Floor int
}

type Outer struct {
	Inner
	Name string
	Age  int
}

// Types that embed a pointer to themselves / to each other (the type graph is cyclic, the values are not).
type SelfNode struct {
	*SelfNode
	Name string
}
type MutLeft struct {
	*MutRight
	L string
}
type MutRight struct {
	*MutLeft
	R string
}

// Defined slice types whose underlying type converts to string.
type RawBytes []byte
type MyRunes []rune

// Odd Go kinds a caller might put in a data map.
type MyStr string
type MyInt int
type MyFloat float64
type MyMap map[string]interface{}
type MyList []interface{}
type Named struct{ V int }

func (n Named) String() string { return fmt.Sprintf("Named(%d)", n.V) }

type Holder struct {
	I   interface{}
	S   fmt.Stringer
	Err error
	PP  **int
	Arr [3]int
	B   []byte
}

// rowA / rowB: two different struct types that print the same type name ("val.row") but lay their fields out
// differently (function-local types of the same name).
func rowA(qty, price int, note string) interface{} {
	type row struct {
		Qty   int
		Price int
		Note  string
	}
	return row{qty, price, note}
}

func rowB(qty, price int) interface{} {
	type row struct {
		Price int
		Qty   int
	}
	return row{Price: price, Qty: qty}
}

func Nil() V         { return V{K: "nil"} }
func Bool(b bool) V  { return V{K: "bool", B: b} }
func Str(s string) V { return V{K: "str", S: s} }
func Int(k string, i int64) V {
	return V{K: k, I: i}
}
func Uint(k string, u uint64) V { return V{K: k, U: u} }
func F64(f float64) V           { return V{K: "f64", U: math.Float64bits(f)} }
func F32(f float32) V           { return V{K: "f32", U: uint64(math.Float32bits(f))} }
func Dec(s string) V            { return V{K: "dec", S: s} }
func Time(sec int64, nsec int64, zone string) V {
	return V{K: "time", I: sec, U: uint64(nsec), S: zone}
}
func List(l ...V) V             { return V{K: "list", L: l} }
func Typed(k string, l ...V) V  { return V{K: k, L: l} }
func Map(kv ...KV) V            { return V{K: "map", M: kv} }
func TMap(k string, kv ...KV) V { return V{K: k, M: kv} }
func Struct(kv ...KV) V         { return V{K: "struct", M: kv} }
func PStruct(kv ...KV) V        { return V{K: "pstruct", M: kv} }
func Fn(id string) V            { return V{K: "fn", S: id} }

func (v V) F() float64 {
	if v.K == "f32" {
		return float64(math.Float32frombits(uint32(v.U)))
	}
	return math.Float64frombits(v.U)
}

// Get returns the entry k of a map/struct spec.
func (v V) Get(k string) (V, bool) {
	for _, e := range v.M {
		if e.K == k {
			return e.V, true
		}
	}
	return V{}, false
}

func loc(name string) *time.Location {
	switch name {
	case "", "UTC":
		return time.UTC
	case "Local":
		return time.Local
	}
	if l, err := time.LoadLocation(name); err == nil {
		return l
	}
	return time.UTC
}

func NewDec(s string) *decimal.Big {
	d, ok := decimal.WithContext(decimal.Context128).SetString(s)
	if !ok || d == nil {
		return decimal.WithContext(decimal.Context128).SetNaN(false)
	}
	return d
}

// Env carries what host functions need at build time.
type Env struct {
	Log *[]Invocation // recording functions append here
}

type Invocation struct {
	Fn   string
	Args []interface{}
}

// Build materialises a spec.
func Build(v V, env *Env) interface{} {
	switch v.K {
	case "nil":
		return nil
	case "bool":
		return v.B
	case "str":
		return v.S
	case "int":
		return int(v.I)
	case "int8":
		return int8(v.I)
	case "int16":
		return int16(v.I)
	case "int32":
		return int32(v.I)
	case "int64":
		return v.I
	case "uint":
		return uint(v.U)
	case "uint8":
		return uint8(v.U)
	case "uint16":
		return uint16(v.U)
	case "uint32":
		return uint32(v.U)
	case "uint64":
		return v.U
	case "f64":
		return math.Float64frombits(v.U)
	case "f32":
		return math.Float32frombits(uint32(v.U))
	case "dec":
		return NewDec(v.S)
	case "dec60":
		// a decimal in a context of the host's own (60 digits)
		d, ok := decimal.WithPrecision(60).SetString(v.S)
		if !ok || d == nil {
			return NewDec(v.S)
		}
		return d
	case "decraw":
		// a decimal without any context: mantissa and scale (plain digits with an optional sign and point)
		t := strings.TrimPrefix(v.S, "-")
		scale := 0
		if i := strings.IndexByte(t, '.'); i >= 0 {
			scale = len(t) - i - 1
			t = t[:i] + t[i+1:]
		}
		m, ok := new(big.Int).SetString(t, 10)
		if !ok {
			return NewDec(v.S)
		}
		if strings.HasPrefix(v.S, "-") {
			m.Neg(m)
		}
		return new(decimal.Big).SetBigMantScale(m, scale)
	case "time":
		return time.Unix(v.I, int64(v.U)).In(loc(v.S))
	case "list":
		out := make([]interface{}, len(v.L))
		for i, e := range v.L {
			out[i] = Build(e, env)
		}
		return out
	case "emptylist":
		return []interface{}{}
	case "strs":
		out := make([]string, len(v.L))
		for i, e := range v.L {
			out[i] = e.S
		}
		return out
	case "ints":
		out := make([]int, len(v.L))
		for i, e := range v.L {
			out[i] = int(e.I)
		}
		return out
	case "f64s":
		out := make([]float64, len(v.L))
		for i, e := range v.L {
			out[i] = e.F()
		}
		return out
	case "maps":
		out := make([]map[string]interface{}, len(v.L))
		for i, e := range v.L {
			out[i], _ = Build(e, env).(map[string]interface{})
		}
		return out
	case "map":
		out := make(map[string]interface{}, len(v.M))
		for _, e := range v.M {
			out[e.K] = Build(e.V, env)
		}
		return out
	case "nilmap":
		return map[string]interface{}(nil)
	case "mapsi":
		out := map[string]int{}
		for _, e := range v.M {
			out[e.K] = int(e.V.I)
		}
		return out
	case "mapss":
		out := map[string]string{}
		for _, e := range v.M {
			out[e.K] = e.V.S
		}
		return out
	case "mapsb":
		out := map[string]bool{}
		for _, e := range v.M {
			out[e.K] = e.V.B
		}
		return out
	case "mapsf":
		out := map[string]float64{}
		for _, e := range v.M {
			out[e.K] = e.V.F()
		}
		return out
	case "mapis":
		out := map[int]string{}
		for i, e := range v.M {
			out[i] = e.V.S
		}
		return out
	case "struct":
		return buildStruct(v, env)
	case "pstruct":
		s := buildStruct(v, env)
		return &s
	case "rowA":
		q, _ := v.Get("Qty")
		pr, _ := v.Get("Price")
		n, _ := v.Get("Note")
		return rowA(int(q.I), int(pr.I), n.S)
	case "rowB":
		q, _ := v.Get("Qty")
		pr, _ := v.Get("Price")
		return rowB(int(q.I), int(pr.I))
	case "estruct":
		var o Outer
		for _, e := range v.M {
			switch e.K {
			case "City":
				o.City = e.V.S
			case "Floor":
				o.Floor = int(e.V.I)
			case "Name":
				o.Name = e.V.S
			case "Age":
				o.Age = int(e.V.I)
			}
		}
		return o
	case "mystr":
		return MyStr(v.S)
	case "myint":
		return MyInt(v.I)
	case "myf64":
		return MyFloat(v.F())
	case "mymap":
		return MyMap{"k": 1, "s": "v"}
	case "mylist":
		return MyList{1, "x", nil}
	case "arr3":
		return [3]int{1, 2, 3}
	case "strarr2":
		return [2]string{"a", "b"}
	case "ppint":
		x := int(v.I)
		px := &x
		return &px
	case "pmap":
		m := map[string]interface{}{"k": 1}
		return &m
	case "mapik":
		return map[int]int{1: 2, 3: 4}
	case "mapifk":
		return map[interface{}]interface{}{"k": 1, 2: "two"}
	case "yamlmap":
		// what a YAML/MessagePack decoder hands over: keys of any kind, some of which print alike
		return map[interface{}]interface{}{"k": 1, true: "bool key", "true": "text key", 1: "int key", "1": "digit text key", nil: "nil key", "null": "null text key", 2.5: "float key", "name": v.S}
	case "chan":
		return make(chan int, 1)
	case "stringer":
		return Named{int(v.I)}
	case "pstringer":
		return &Named{int(v.I)}
	case "holder":
		x := 5
		px := &x
		return Holder{I: (*int)(nil), S: Named{1}, Err: errors.New("e"), PP: &px, Arr: [3]int{7, 8, 9}, B: []byte("bytes")}
	case "nilholder":
		return Holder{}
	case "listnil":
		return []interface{}{(*int)(nil), nil, (*decimal.Big)(nil)}
	case "bytes":
		return []byte(v.S)
	case "errval":
		return errors.New("an error value")
	case "cplx":
		return complex(1, 2)
	case "uintptr":
		return uintptr(42)
	case "nilfunc":
		return (func() (int, error))(nil)
	case "nilslice":
		return []interface{}(nil)
	case "nilstrs":
		return []string(nil)
	case "nildec":
		return (*decimal.Big)(nil)
	case "nilptr":
		return (*int)(nil)
	case "nilpstruct":
		return (*St)(nil)
	case "selfembed":
		return SelfNode{Name: v.S}
	case "selfembed1":
		return SelfNode{SelfNode: &SelfNode{Name: "inner"}, Name: v.S}
	case "pselfembed":
		return &SelfNode{Name: v.S}
	case "mutual":
		return MutLeft{L: v.S}
	case "mutual1":
		return &MutLeft{MutRight: &MutRight{R: "r"}, L: v.S}
	case "rawbytes":
		return RawBytes(v.S)
	case "myrunes":
		return MyRunes([]rune(strings.ToValidUTF8(v.S, "?")))
	case "pint":
		x := int(v.I)
		return &x
	case "fn":
		return buildFn(v.S, env)
	}
	panic("val.Build: unknown kind " + v.K)
}

func buildStruct(v V, env *Env) St {
	var s St
	for _, e := range v.M {
		switch e.K {
		case "A":
			s.A = int(e.V.I)
		case "S":
			s.S = e.V.S
		case "F":
			s.F = e.V.F()
		case "N":
			s.N = e.V.I
		case "T":
			s.T = e.V.B
		case "M":
			s.M, _ = Build(e.V, env).(map[string]interface{})
		case "P":
			if p, ok := Build(e.V, env).(*St); ok {
				s.P = p
			}
		case "Any":
			s.Any = Build(e.V, env)
		case "priv":
			s.priv = int(e.V.I)
		case "hid":
			s.hid = e.V.S
		}
	}
	return s
}

// FnIDs lists the fixed host functions available to data maps.
var FnIDs = []string{"id", "err", "sum", "cat", "nums", "strs", "ctx", "noret", "one", "three", "time", "mapf", "panic", "retint", "retf32", "niladic", "anys", "retnildec", "retnilptr", "curry"}

func record(env *Env, fn string, args ...interface{}) {
	if env != nil && env.Log != nil {
		*env.Log = append(*env.Log, Invocation{fn, args})
	}
}

func buildFn(id string, env *Env) interface{} {
	switch id {
	case "id":
		return func(x interface{}) (interface{}, error) { record(env, id, x); return x, nil }
	case "err":
		return func(x interface{}) (interface{}, error) { record(env, id, x); return nil, errors.New("host failure") }
	case "sum":
		return func(xs ...*decimal.Big) (*decimal.Big, error) {
			record(env, id, len(xs))
			s := decimal.WithContext(decimal.Context128)
			for _, x := range xs {
				if x != nil {
					s.Add(s, x)
				}
			}
			return s, nil
		}
	case "cat":
		return func(a, b string) (string, error) { record(env, id, a, b); return a + b, nil }
	case "nums":
		return func(a int, b int64, c float64, d int8) (float64, error) {
			record(env, id, a, b, c, d)
			return float64(a) + float64(b) + c + float64(d), nil
		}
	case "strs":
		return func(xs []string) (int, error) { record(env, id, xs); return len(xs), nil }
	case "ctx":
		return func(ctx context.Context, a interface{}) (interface{}, error) { record(env, id, a); return a, nil }
	case "noret":
		return func() { record(env, id) }
	case "one":
		return func() int { record(env, id); return 1 }
	case "three":
		return func() (int, int, error) { record(env, id); return 1, 2, nil }
	case "time":
		return func(t time.Time) (time.Time, error) { record(env, id, t); return t, nil }
	case "mapf":
		return func(m map[string]interface{}) (int, error) { record(env, id, m); return len(m), nil }
	case "panic":
		return func(x interface{}) (interface{}, error) { record(env, id, x); panic("host panic") }
	case "retint":
		return func() (int, error) { record(env, id); return 7, nil }
	case "retf32":
		return func() (float32, error) { record(env, id); return 1.5, nil }
	case "retnildec":
		return func(x interface{}) (*decimal.Big, error) { record(env, id, x); return nil, nil }
	case "retnilptr":
		return func() (*St, error) { record(env, id); return nil, nil }
	case "niladic":
		return func() (interface{}, error) { record(env, id); return nil, nil }
	case "anys":
		return func(xs ...interface{}) (int, error) { record(env, id, len(xs)); return len(xs), nil }
	case "curry":
		// returns a function (a value a formula can hold, pass on - and, were computed callees supported, call)
		return func(a interface{}) (interface{}, error) {
			record(env, id, a)
			return func(b interface{}) (interface{}, error) { return []interface{}{a, b}, nil }, nil
		}
	}
	// siblings: closures made by one function literal, and method values of one method - distinct functions to the host,
	// although Go gives them one and the same code pointer
	if strings.HasPrefix(id, "mk:") {
		return makeTagged(strings.TrimPrefix(id, "mk:"))
	}
	if strings.HasPrefix(id, "rowfn:") {
		// host functions over two different struct types that print the same type name: func(val.row) (interface {}, error) twice
		var sample interface{} = rowA(0, 0, "")
		if id == "rowfn:B" {
			sample = rowB(0, 0)
		}
		ft := reflect.FuncOf([]reflect.Type{reflect.TypeOf(sample)}, []reflect.Type{reflect.TypeOf((*interface{})(nil)).Elem(), reflect.TypeOf((*error)(nil)).Elem()}, false)
		return reflect.MakeFunc(ft, func(args []reflect.Value) []reflect.Value {
			n := int(args[0].FieldByName("Qty").Int()*1000 + args[0].FieldByName("Price").Int())
			return []reflect.Value{reflect.ValueOf(n), reflect.Zero(reflect.TypeOf((*error)(nil)).Elem())}
		}).Interface()
	}
	if strings.HasPrefix(id, "meth:") {
		return (&priceTable{tag: strings.TrimPrefix(id, "meth:")}).Get
	}
	return func() (interface{}, error) { return nil, fmt.Errorf("unknown host function %s", id) }
}

func makeTagged(tag string) func(x interface{}) (interface{}, error) {
	return func(x interface{}) (interface{}, error) { return tag + ":" + fmt.Sprint(x), nil }
}

type priceTable struct{ tag string }

func (t *priceTable) Get(key string) (string, error) { return t.tag + "[" + key + "]", nil }

// ---- random data ---------------------------------------------------------------

var strPool = []string{"", "a", "abc", "0", "1", "12.5", " x ", "中文", "é", "true", "null", "NaN", "Infinity", "-1", "1e3", "a,b", "(", "\x00", "\xff", "hello world"}

var intEdge = []int64{0, 1, -1, 2, 7, 10, 100, 255, 256, -128, 127, 65535, 1 << 31, -(1 << 31), 1<<53 + 1, 9007199254740993, math.MaxInt64, math.MinInt64, 1000000, 999999999999}

var floatEdge = []float64{0, math.Copysign(0, -1), 1, -1, 0.1, 0.3, 2.5, -2.5, 1e22, 1e23, 5e-324, math.MaxFloat64, 9007199254740993, 1.7976931348623157e308, 1e-7, 123456.789,
	math.NaN(), math.Inf(1), math.Inf(-1), 30.749999000000003, 1e15, 1e16, 0.5, 1.5,
	// machine-integer boundaries as floats
	9223372036854775808, -9223372036854775808, 18446744073709551616, 4294967296, 2147483648, -2147483649, 9223372036854774784, 1e19, 1e18}

var zones = []string{"UTC", "Local", "Asia/Shanghai", "America/New_York", "Asia/Kolkata"}

// RandScalar draws a scalar of any supported kind.
func RandScalar(r *rand.Rand) V {
	switch r.Intn(16) {
	case 0:
		return Nil()
	case 1:
		return Bool(r.Intn(2) == 0)
	case 2, 3:
		return Str(strPool[r.Intn(len(strPool))])
	case 4:
		return Int([]string{"int", "int32", "int64"}[r.Intn(3)], clampKind(intEdge[r.Intn(len(intEdge))], r))
	case 5:
		return Int("int", int64(r.Intn(2000)-1000))
	case 6:
		k := []string{"int8", "int16", "uint", "uint8", "uint16", "uint32", "uint64"}[r.Intn(7)]
		if k[0] == 'u' {
			return Uint(k, uint64(r.Intn(300)))
		}
		return Int(k, int64(r.Intn(200)-100))
	case 7:
		return F64(floatEdge[r.Intn(len(floatEdge))])
	case 8:
		return F64(math.Float64frombits(r.Uint64()))
	case 9:
		return F32(float32(floatEdge[r.Intn(len(floatEdge))]))
	case 10:
		return Dec([]string{"0", "1", "-1", "1.50", "0.1", "123456789012345678901234567890.1234", "1E+3", "-0", "NaN", "Infinity", "2.5", "1e-30"}[r.Intn(12)])
	case 11:
		return Time(int64(r.Intn(4e9))-1e9, int64(r.Intn(1e9)), zones[r.Intn(len(zones))])
	case 12:
		if r.Intn(2) == 0 {
			return V{K: "nildec"}
		}
		return V{K: "nilptr"}
	case 13:
		return V{K: "nilpstruct"}
	case 14:
		return Int("int64", r.Int63()-r.Int63())
	default:
		return F64(float64(r.Intn(2000)-1000) / 8)
	}
}

func clampKind(v int64, r *rand.Rand) int64 { return v }

// RandValue draws any value, containers to the given depth.
func RandValue(r *rand.Rand, depth int) V {
	if depth <= 0 || r.Intn(3) != 0 {
		return RandScalar(r)
	}
	switch r.Intn(16) {
	case 0, 1:
		n := r.Intn(4)
		l := make([]V, n)
		for i := range l {
			l[i] = RandValue(r, depth-1)
		}
		return List(l...)
	case 2:
		n := r.Intn(4)
		l := make([]V, n)
		for i := range l {
			l[i] = Str(strPool[r.Intn(len(strPool))])
		}
		return Typed("strs", l...)
	case 3:
		n := r.Intn(4)
		l := make([]V, n)
		for i := range l {
			l[i] = Int("int", int64(r.Intn(100)))
		}
		return Typed("ints", l...)
	case 4, 5, 6:
		return RandMap(r, depth-1, 1+r.Intn(4))
	case 7:
		return TMap("mapsi", KV{"a", Int("int", 0)}, KV{"b", Int("int", int64(r.Intn(10)))}, KV{"len", Int("int", 3)})
	case 8:
		return TMap("mapss", KV{"a", Str("")}, KV{"b", Str(strPool[r.Intn(len(strPool))])})
	case 9:
		return TMap("mapis", KV{"0", Str("zero")}, KV{"1", Str("one")})
	case 10, 11:
		kv := []KV{{"A", Int("int", int64(r.Intn(100)))}, {"S", Str(strPool[r.Intn(len(strPool))])}, {"F", F64(floatEdge[r.Intn(len(floatEdge))])}, {"priv", Int("int", 5)}}
		if depth > 1 {
			kv = append(kv, KV{"M", RandMap(r, depth-2, 2)}, KV{"Any", RandScalar(r)})
			if r.Intn(2) == 0 {
				kv = append(kv, KV{"P", PStruct(KV{"A", Int("int", 9)}, KV{"S", Str("inner")})})
			}
		}
		if r.Intn(2) == 0 {
			return Struct(kv...)
		}
		return PStruct(kv...)
	case 12:
		n := r.Intn(3)
		l := make([]V, n)
		for i := range l {
			l[i] = RandMap(r, 0, 2)
		}
		return Typed("maps", l...)
	case 13:
		return Fn(FnIDs[r.Intn(len(FnIDs))])
	default:
		return OddKind(r)
	}
}

var oddKinds = []string{"mystr", "myint", "myf64", "mymap", "mylist", "arr3", "strarr2", "ppint", "pmap", "mapik", "mapifk", "chan", "stringer", "pstringer", "holder", "nilholder", "listnil", "bytes", "errval", "cplx", "uintptr", "nilfunc", "nilslice", "nilstrs", "nilmap", "emptylist", "selfembed", "selfembed1", "pselfembed", "mutual", "mutual1", "rawbytes", "myrunes", "yamlmap"}

// StripAddr returns the spec with every kind that fmt renders as a heap address somewhere (non-nil pointers nested in
// containers, pointers inside structs, channels) replaced by an address-free relative. For comparisons between
// processes, where the same data necessarily lives at other addresses.
func StripAddr(v V) V {
	switch v.K {
	case "pstruct":
		v.K = "struct"
	case "selfembed1", "pselfembed":
		v.K = "selfembed"
	case "mutual1":
		v.K = "mutual"
	case "holder", "ppint", "pmap", "chan", "pstringer", "pint":
		return Str("was " + v.K)
	}
	if len(v.L) > 0 {
		l := make([]V, len(v.L))
		for i, e := range v.L {
			l[i] = StripAddr(e)
		}
		v.L = l
	}
	if len(v.M) > 0 {
		m := make([]KV, len(v.M))
		for i, e := range v.M {
			m[i] = KV{e.K, StripAddr(e.V)}
		}
		v.M = m
	}
	return v
}

// OddKinds lists the odd kinds (for exhaustive pairings).
func OddKinds() []string { return append([]string{}, oddKinds...) }

// OddKind draws a value of a Go kind or shape that ordinary tests do not think of.
func OddKind(r *rand.Rand) V {
	k := oddKinds[r.Intn(len(oddKinds))]
	return V{K: k, S: strPool[r.Intn(len(strPool))], I: int64(r.Intn(100)), U: math.Float64bits(float64(r.Intn(100)) / 4)}
}

var keyPool = []string{"a", "b", "c", "k", "name", "x1", "len", "max", "now", "true", "A", "S", "F", "M", "P", "priv", "$v", "名"}

// RandMap draws a string-keyed map spec with n entries.
func RandMap(r *rand.Rand, depth, n int) V {
	used := map[string]bool{}
	var kv []KV
	for len(kv) < n {
		k := keyPool[r.Intn(len(keyPool))]
		if used[k] {
			continue
		}
		used[k] = true
		kv = append(kv, KV{k, RandValue(r, depth)})
	}
	return Map(kv...)
}
