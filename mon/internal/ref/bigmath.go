package ref

import (
	"math/big"
)

// High-precision real functions on big.Float (precision Prec bits), used as the
// reference for sqrt / exp / ln / log10. Written from the series definitions.
const Prec = 320

func bf(x float64) *big.Float { return new(big.Float).SetPrec(Prec).SetFloat64(x) }

func BigOf(d Dec) *big.Float { return new(big.Float).SetPrec(Prec).SetRat(d.Rat()) }

var ln2Cache *big.Float

// atanhSeries computes atanh(z) for |z| <= 1/3.
func atanhSeries(z *big.Float) *big.Float {
	z2 := new(big.Float).SetPrec(Prec).Mul(z, z)
	term := new(big.Float).SetPrec(Prec).Set(z)
	sum := new(big.Float).SetPrec(Prec).Set(z)
	for k := 3; k < 400; k += 2 {
		term.Mul(term, z2)
		t := new(big.Float).SetPrec(Prec).Quo(term, bf(float64(k)))
		sum.Add(sum, t)
		if t.Sign() == 0 || t.MantExp(nil)-sum.MantExp(nil) < -Prec-8 {
			break
		}
	}
	return sum
}

func Ln2() *big.Float {
	if ln2Cache == nil {
		// ln 2 = 2 atanh(1/3)
		z := new(big.Float).SetPrec(Prec).Quo(bf(1), bf(3))
		ln2Cache = new(big.Float).SetPrec(Prec).Mul(bf(2), atanhSeries(z))
	}
	return ln2Cache
}

// Ln computes the natural logarithm of x > 0.
func Ln(x *big.Float) *big.Float {
	// x = m * 2^k with m in [0.5, 1); bring m into [2/3, 4/3)
	m := new(big.Float).SetPrec(Prec)
	k := x.MantExp(m)
	if m.Cmp(new(big.Float).SetPrec(Prec).Quo(bf(2), bf(3))) < 0 {
		m.Mul(m, bf(2))
		k--
	}
	// ln m = 2 atanh((m-1)/(m+1))
	num := new(big.Float).SetPrec(Prec).Sub(m, bf(1))
	den := new(big.Float).SetPrec(Prec).Add(m, bf(1))
	z := new(big.Float).SetPrec(Prec).Quo(num, den)
	res := new(big.Float).SetPrec(Prec).Mul(bf(2), atanhSeries(z))
	kk := new(big.Float).SetPrec(Prec).SetInt64(int64(k))
	return res.Add(res, kk.Mul(kk, Ln2()))
}

// Exp computes e^x for |x| < 2^20.
func Exp(x *big.Float) *big.Float {
	// x = k ln2 + r
	q := new(big.Float).SetPrec(Prec).Quo(x, Ln2())
	kf, _ := q.Float64()
	k := int64(kf)
	if kf < 0 {
		k = int64(kf - 0.5)
	} else {
		k = int64(kf + 0.5)
	}
	r := new(big.Float).SetPrec(Prec).Sub(x, new(big.Float).SetPrec(Prec).Mul(new(big.Float).SetPrec(Prec).SetInt64(k), Ln2()))
	// halve 16 times
	const halvings = 16
	r.SetMantExp(r, -halvings)
	sum := bf(1)
	term := bf(1)
	for i := 1; i < 200; i++ {
		term.Mul(term, r)
		term.Quo(term, bf(float64(i)))
		sum.Add(sum, term)
		if term.Sign() == 0 || term.MantExp(nil) < -Prec-16 {
			break
		}
	}
	for i := 0; i < halvings; i++ {
		sum.Mul(sum, sum)
	}
	return sum.SetMantExp(sum, int(k))
}

func Ln10() *big.Float { return Ln(bf(10)) }

func Log10(x *big.Float) *big.Float {
	return new(big.Float).SetPrec(Prec).Quo(Ln(x), Ln10())
}

func Sqrt(x *big.Float) *big.Float { return new(big.Float).SetPrec(Prec).Sqrt(x) }

// RelErr returns |a-b| / |b| as a float64 (b != 0).
func RelErr(a, b *big.Float) float64 {
	d := new(big.Float).SetPrec(Prec).Sub(a, b)
	d.Abs(d)
	d.Quo(d, new(big.Float).SetPrec(Prec).Abs(b))
	f, _ := d.Float64()
	return f
}

// RoundHalfEvenInt rounds a finite decimal to the nearest integer, ties to even.
func (d Dec) RoundHalfEvenInt() Dec {
	if d.Form != 0 || d.Exp >= 0 {
		return d
	}
	p := pow10(-d.Exp)
	q, r := new(big.Int).QuoRem(d.Coef, p, new(big.Int))
	r2 := new(big.Int).Lsh(r, 1)
	switch r2.Cmp(p) {
	case 1:
		q.Add(q, big.NewInt(1))
	case 0:
		if q.Bit(0) == 1 {
			q.Add(q, big.NewInt(1))
		}
	}
	return Dec{Neg: d.Neg, Coef: q}
}
