package ref

import (
	"fmt"
	"strings"
)

// Node is a reference syntax tree node.
//
//	K      kids                         S / Op
//	num    -                            S = source spelling
//	str    -                            S = source spelling (with quotes)
//	kw     -                            S = null|true|false|this|ctx
//	id     -                            S = name
//	pre    [operand]                    Op = + - ! !! ~
//	typeof [operand]
//	bin    [left right]                 Op = binary operator, "=" or ","
//	cond   [cond whenTrue whenFalse]
//	sel    [base]                       S = member name, Op = "." or "!."
//	call   [callee arg...]              Spread
//	arr    [elem...]
//	paren  [inner]
type Node struct {
	K      string  `json:"k"`
	Op     string  `json:"op,omitempty"`
	S      string  `json:"s,omitempty"`
	Kids   []*Node `json:"kids,omitempty"`
	Spread bool    `json:"spread,omitempty"`

	// filled by the parser only
	Pos, End int  `json:"-"` // Pos = start of leading trivia of first token, End = end of last token
	OpTok    int  `json:"-"` // token index of the operator / '.' / '(' / '?'
	Soft     bool `json:"-"`
}

func N(k string, kids ...*Node) *Node { return &Node{K: k, Kids: kids} }
func Num(s string) *Node              { return &Node{K: "num", S: s} }
func Str(s string) *Node              { return &Node{K: "str", S: s} }
func Kw(s string) *Node               { return &Node{K: "kw", S: s} }
func ID(s string) *Node               { return &Node{K: "id", S: s} }
func Bin(op string, l, r *Node) *Node { return &Node{K: "bin", Op: op, Kids: []*Node{l, r}} }
func Pre(op string, x *Node) *Node    { return &Node{K: "pre", Op: op, Kids: []*Node{x}} }
func TypeOf(x *Node) *Node            { return &Node{K: "typeof", Kids: []*Node{x}} }
func Cond(c, a, b *Node) *Node        { return &Node{K: "cond", Kids: []*Node{c, a, b}} }
func Sel(base *Node, name string, assert bool) *Node {
	op := "."
	if assert {
		op = "!."
	}
	return &Node{K: "sel", Op: op, S: name, Kids: []*Node{base}}
}
func Call(callee *Node, spread bool, args ...*Node) *Node {
	return &Node{K: "call", Kids: append([]*Node{callee}, args...), Spread: spread}
}
func Arr(elems ...*Node) *Node { return &Node{K: "arr", Kids: elems} }
func Paren(x *Node) *Node      { return &Node{K: "paren", Kids: []*Node{x}} }

// Canon renders the shape that C02 compares: node kinds, operators, identifier
// and member names, literal kinds, spread/assert flags and list lengths.
func (n *Node) Canon() string {
	var sb strings.Builder
	n.canon(&sb)
	return sb.String()
}

func (n *Node) canon(sb *strings.Builder) {
	if n == nil {
		sb.WriteString("<nil>")
		return
	}
	switch n.K {
	case "num":
		sb.WriteString("num")
	case "str":
		sb.WriteString("str")
	case "kw":
		sb.WriteString(n.S)
	case "id":
		sb.WriteString("id:" + n.S)
	default:
		sb.WriteByte('(')
		sb.WriteString(n.K)
		if n.Op != "" {
			sb.WriteByte(' ')
			sb.WriteString(n.Op)
		}
		if n.K == "sel" {
			sb.WriteString(" " + n.S)
		}
		if n.Spread {
			sb.WriteString(" ...")
		}
		for _, k := range n.Kids {
			sb.WriteByte(' ')
			k.canon(sb)
		}
		sb.WriteByte(')')
	}
}

// Count returns the number of nodes.
func (n *Node) Count() int {
	c := 1
	for _, k := range n.Kids {
		c += k.Count()
	}
	return c
}

// Walk visits every node, parents first.
func (n *Node) Walk(f func(*Node)) {
	f(n)
	for _, k := range n.Kids {
		k.Walk(f)
	}
}

// ---- precedence ------------------------------------------------------------------

// BinPrec is the ladder of C02.
var BinPrec = map[string]int{
	"||": 1, "??": 1,
	"&&": 2,
	"|":  3,
	"^":  4,
	"&":  5,
	"==": 6, "!=": 6, "===": 6, "!==": 6,
	"<": 7, ">": 7, "<=": 7, ">=": 7,
	"+": 9, "-": 9,
	"*": 10, "/": 10, "%": 10,
}

var BinOps = []string{"||", "??", "&&", "|", "^", "&", "==", "!=", "===", "!==", "<", ">", "<=", ">=", "+", "-", "*", "/", "%"}
var PreOps = []string{"+", "-", "!", "!!", "~"}

// levels: comma 0, assign/cond 1, binary prec p -> 1+p (2..11), unary 12, postfix 13, primary 14
func level(n *Node) int {
	switch n.K {
	case "bin":
		switch n.Op {
		case ",":
			return 0
		case "=":
			return 1
		}
		return 1 + BinPrec[n.Op]
	case "cond":
		return 1
	case "pre", "typeof":
		return 12
	case "sel", "call":
		return 13
	}
	return 14
}

// Parenthesize returns a copy of the tree with a paren node inserted wherever
// the grammar requires one for the tree to print and re-parse as itself.
func Parenthesize(n *Node) *Node {
	c := *n
	c.Kids = make([]*Node, len(n.Kids))
	need := func(i int) int {
		switch n.K {
		case "bin":
			switch n.Op {
			case ",":
				if i == 0 {
					return 0
				}
				return 1
			case "=":
				if i == 0 {
					return 2
				}
				return 1
			}
			p := BinPrec[n.Op]
			if i == 0 {
				return 1 + p
			}
			return 2 + p
		case "cond":
			if i == 0 {
				return 2
			}
			return 1
		case "pre", "typeof":
			return 12
		case "sel":
			return 13
		case "call":
			if i == 0 {
				return 13
			}
			return 1
		case "arr":
			return 1
		case "paren":
			return 0
		}
		return 0
	}
	for i, k := range n.Kids {
		pk := Parenthesize(k)
		if level(pk) < need(i) {
			pk = Paren(pk)
		}
		// a numeric literal directly before '.' would fuse ("1.a"); the printer
		// separates tokens, so no parentheses are needed for that.
		c.Kids[i] = pk
	}
	return &c
}

// Tokens flattens a (parenthesized) tree to lexemes. callParen[i] / memberDot[i]
// mark lexeme indexes before which no line break may be placed.
type Flat struct {
	Lex     []string
	NoBreak map[int]bool // index of a '.', '!.' or call '(' lexeme, and of member names
	Postfix map[int]bool // index of a '.', '!.' or call '(' lexeme only (a line break before it is illegal)
}

func Flatten(n *Node) *Flat {
	f := &Flat{NoBreak: map[int]bool{}, Postfix: map[int]bool{}}
	f.emit(n)
	return f
}

func (f *Flat) tok(s string) { f.Lex = append(f.Lex, s) }

func (f *Flat) emit(n *Node) {
	switch n.K {
	case "num", "str", "kw", "id":
		f.tok(n.S)
	case "pre":
		f.tok(n.Op)
		f.emit(n.Kids[0])
	case "typeof":
		f.tok("typeof")
		f.emit(n.Kids[0])
	case "bin":
		f.emit(n.Kids[0])
		f.tok(n.Op)
		f.emit(n.Kids[1])
	case "cond":
		f.emit(n.Kids[0])
		f.tok("?")
		f.emit(n.Kids[1])
		f.tok(":")
		f.emit(n.Kids[2])
	case "sel":
		f.emit(n.Kids[0])
		f.NoBreak[len(f.Lex)] = true
		f.Postfix[len(f.Lex)] = true
		f.tok(n.Op)
		f.NoBreak[len(f.Lex)] = true // a line break between '.' and the name is left open
		f.tok(n.S)
	case "call":
		f.emit(n.Kids[0])
		f.NoBreak[len(f.Lex)] = true
		f.Postfix[len(f.Lex)] = true
		f.tok("(")
		for i, a := range n.Kids[1:] {
			if i > 0 {
				f.tok(",")
			}
			f.emit(a)
		}
		if n.Spread {
			f.tok("...")
		}
		f.tok(")")
	case "arr":
		f.tok("[")
		for i, a := range n.Kids {
			if i > 0 {
				f.tok(",")
			}
			f.emit(a)
		}
		f.tok("]")
	case "paren":
		f.tok("(")
		f.emit(n.Kids[0])
		f.tok(")")
	default:
		panic("ref.Flatten: unknown node kind " + n.K)
	}
}

// NeedSep reports whether lexemes a and b must be separated to stay two tokens.
func NeedSep(a, b string) bool {
	lx := Lexemes([]byte(a + b))
	return !(len(lx) == 2 && lx[0] == a && lx[1] == b)
}

// Print renders a tree with single spaces only where tokens would fuse.
func Print(n *Node) string {
	return JoinLexemes(Flatten(Parenthesize(n)).Lex, nil)
}

// JoinLexemes joins with the given separators (sep[i] goes before lexeme i;
// nil = minimal). The caller is responsible for separators being legal.
func JoinLexemes(lex []string, sep []string) string {
	var sb strings.Builder
	for i, l := range lex {
		if sep != nil {
			sb.WriteString(sep[i])
		} else if i > 0 && NeedSep(lex[i-1], l) {
			sb.WriteByte(' ')
		}
		sb.WriteString(l)
	}
	s := sb.String()
	if sep == nil {
		// three-token fusions ('.' '.' '.') are not caught pairwise: verify
		got := Lexemes([]byte(s))
		if !equalStrings(got, lex) {
			return strings.Join(lex, " ")
		}
	}
	return s
}

func equalStrings(a, b []string) bool {
	if len(a) != len(b) {
		return false
	}
	for i := range a {
		if a[i] != b[i] {
			return false
		}
	}
	return true
}

// ---- parser -------------------------------------------------------------------

type ParseVerdict int

const (
	Reject ParseVerdict = iota
	Accept
	AcceptIfAccepted // the statement leaves the construct open; if the implementation accepts, this is the tree
	Unspecified      // contains code points / escapes the statements do not classify
)

func (v ParseVerdict) String() string {
	return [...]string{"REJECT", "ACCEPT", "ACCEPT-IF-ACCEPTED", "UNSPECIFIED"}[v]
}

type ParseResult struct {
	Verdict ParseVerdict
	Tree    *Node
	Toks    []Token
	Why     string // reason for REJECT
	ErrTok  int    // token index where the reference gave up (REJECT), -1 for lexical
	ErrPos  int
}

type parser struct {
	toks []Token
	i    int
	soft bool
	err  string
	errI int
}

type parseFail struct{}

func (p *parser) fail(why string) {
	if p.err == "" {
		p.err = why
		p.errI = p.i
	}
	panic(parseFail{})
}

func (p *parser) cur() *Token { return &p.toks[p.i] }
func (p *parser) isP(s string) bool {
	t := p.cur()
	return t.Kind == TPunct && t.Text == s
}
func (p *parser) next() { p.i++ }

// Parse applies the grammar of C02 to src.
func Parse(src []byte) ParseResult {
	lr := Lex(src)
	if lr.Err != nil {
		v := Reject
		if lr.Open {
			v = Unspecified
		}
		return ParseResult{Verdict: v, Why: "lexical: " + lr.Err.What, ErrTok: -1, ErrPos: lr.Err.Pos, Toks: lr.Toks}
	}
	p := &parser{toks: lr.Toks}
	var tree *Node
	func() {
		defer func() {
			if r := recover(); r != nil {
				if _, ok := r.(parseFail); !ok {
					panic(r)
				}
			}
		}()
		tree = p.expr()
		if p.cur().Kind != TEOF {
			p.fail("end of text expected")
		}
	}()
	if lr.Open {
		return ParseResult{Verdict: Unspecified, Toks: lr.Toks, Tree: tree}
	}
	if p.err != "" {
		return ParseResult{Verdict: Reject, Why: p.err, ErrTok: p.errI, ErrPos: p.toks[p.errI].Pos, Toks: lr.Toks}
	}
	v := Accept
	if p.soft {
		v = AcceptIfAccepted
	}
	return ParseResult{Verdict: v, Tree: tree, Toks: lr.Toks}
}

func (p *parser) fin(n *Node, startTok int) *Node {
	n.Pos = p.toks[startTok].Start
	n.End = p.toks[p.i-1].End
	return n
}

// Expr := Assign (',' Assign)*
func (p *parser) expr() *Node {
	st := p.i
	e := p.assign()
	for p.isP(",") {
		op := p.i
		p.next()
		r := p.assign()
		e = p.fin(&Node{K: "bin", Op: ",", Kids: []*Node{e, r}, OpTok: op}, st)
	}
	return e
}

// Assign := Binary ['=' Assign] | Binary '?' Assign ':' Assign
func (p *parser) assign() *Node {
	st := p.i
	l := p.binary(0)
	if p.isP("=") {
		op := p.i
		p.next()
		if l.K != "id" {
			p.soft = true // only a bare $name is a valid target; where the error surfaces is open
		}
		r := p.assign()
		return p.fin(&Node{K: "bin", Op: "=", Kids: []*Node{l, r}, OpTok: op}, st)
	}
	if p.isP("?") {
		op := p.i
		p.next()
		a := p.assign()
		if !p.isP(":") {
			p.fail("':' expected")
		}
		p.next()
		b := p.assign()
		return p.fin(&Node{K: "cond", Kids: []*Node{l, a, b}, OpTok: op}, st)
	}
	return l
}

func (p *parser) binary(minPrec int) *Node {
	st := p.i
	l := p.unary()
	for {
		t := p.cur()
		if t.Kind != TPunct {
			break
		}
		prec, ok := BinPrec[t.Text]
		if !ok || prec <= minPrec {
			break
		}
		op := p.i
		p.next()
		r := p.binary(prec)
		l = p.fin(&Node{K: "bin", Op: t.Text, Kids: []*Node{l, r}, OpTok: op}, st)
	}
	return l
}

func (p *parser) unary() *Node {
	st := p.i
	t := p.cur()
	if t.Kind == TPunct {
		switch t.Text {
		case "+", "-", "!", "!!", "~":
			p.next()
			x := p.unary()
			return p.fin(&Node{K: "pre", Op: t.Text, Kids: []*Node{x}, OpTok: st}, st)
		}
	}
	if t.Kind == TKeyword && t.Text == "typeof" {
		p.next()
		x := p.unary()
		return p.fin(&Node{K: "typeof", Kids: []*Node{x}, OpTok: st}, st)
	}
	return p.postfix()
}

func (p *parser) postfix() *Node {
	st := p.i
	e := p.primary()
	for {
		t := p.cur()
		if t.Kind != TPunct || t.NLBefore {
			break
		}
		if t.Text == "." || t.Text == "!." {
			op := p.i
			p.next()
			nt := p.cur()
			if nt.Kind != TIdent && nt.Kind != TKeyword {
				p.fail("identifier expected")
			}
			if nt.Kind == TKeyword || nt.NLBefore {
				p.soft = true
			}
			p.next()
			e = p.fin(&Node{K: "sel", Op: t.Text, S: nt.Text, Kids: []*Node{e}, OpTok: op}, st)
			continue
		}
		if t.Text == "(" {
			op := p.i
			p.next()
			call := &Node{K: "call", Kids: []*Node{e}, OpTok: op}
			if !p.isP(")") && !p.isP("...") {
				for {
					call.Kids = append(call.Kids, p.assign())
					if p.isP(",") {
						p.next()
						continue
					}
					break
				}
			}
			if p.isP("...") {
				if len(call.Kids) == 1 {
					p.soft = true // f(...) without an argument
				}
				call.Spread = true
				p.next()
			}
			if !p.isP(")") {
				p.fail("')' expected")
			}
			p.next()
			e = p.fin(call, st)
			continue
		}
		break
	}
	return e
}

func (p *parser) primary() *Node {
	st := p.i
	t := p.cur()
	switch t.Kind {
	case TNum:
		p.next()
		return p.fin(&Node{K: "num", S: t.Text}, st)
	case TStr:
		p.next()
		return p.fin(&Node{K: "str", S: t.Text}, st)
	case TIdent:
		p.next()
		return p.fin(&Node{K: "id", S: t.Text}, st)
	case TKeyword:
		if t.Text == "typeof" {
			p.fail("expression expected")
		}
		p.next()
		return p.fin(&Node{K: "kw", S: t.Text}, st)
	case TPunct:
		switch t.Text {
		case "(":
			p.next()
			inner := p.expr()
			if !p.isP(")") {
				p.fail("')' expected")
			}
			p.next()
			return p.fin(&Node{K: "paren", Kids: []*Node{inner}}, st)
		case "[":
			p.next()
			arr := &Node{K: "arr"}
			if !p.isP("]") {
				for {
					arr.Kids = append(arr.Kids, p.assign())
					if p.isP(",") {
						p.next()
						continue
					}
					break
				}
			}
			if !p.isP("]") {
				p.fail("']' expected")
			}
			p.next()
			return p.fin(arr, st)
		}
	}
	p.fail("expression expected")
	return nil
}

// Describe gives a short human readable description.
func (r ParseResult) Describe() string {
	switch r.Verdict {
	case Reject:
		return fmt.Sprintf("REJECT(%s at %d)", r.Why, r.ErrPos)
	case Unspecified:
		return "UNSPECIFIED"
	}
	return r.Verdict.String() + " " + r.Tree.Canon()
}
