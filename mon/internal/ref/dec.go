package ref

import (
	"fmt"
	"math/big"
	"strings"
)

// Dec is an exact decimal number: (-1)^Neg * Coef * 10^Exp, or a special value.
type Dec struct {
	Form int // 0 finite, 1 infinity, 2 NaN
	Neg  bool
	Coef *big.Int
	Exp  int
}

var ten = big.NewInt(10)

func pow10(n int) *big.Int {
	if n < 0 {
		panic("pow10 negative")
	}
	return new(big.Int).Exp(ten, big.NewInt(int64(n)), nil)
}

func DecInt(v int64) Dec {
	c := big.NewInt(v)
	neg := c.Sign() < 0
	c.Abs(c)
	return Dec{Neg: neg, Coef: c}
}

func DecBig(c *big.Int, exp int) Dec {
	neg := c.Sign() < 0
	return Dec{Neg: neg, Coef: new(big.Int).Abs(c), Exp: exp}
}

func NaN() Dec             { return Dec{Form: 2} }
func Inf(neg bool) Dec     { return Dec{Form: 1, Neg: neg} }
func (d Dec) Finite() bool { return d.Form == 0 }
func (d Dec) IsNaN() bool  { return d.Form == 2 }
func (d Dec) IsInf() bool  { return d.Form == 1 }
func (d Dec) IsZero() bool { return d.Form == 0 && d.Coef.Sign() == 0 }

// Digits is the number of significant digits of the coefficient (0 has 1).
func (d Dec) Digits() int {
	if d.Coef.Sign() == 0 {
		return 1
	}
	return len(d.Coef.String())
}

func (d Dec) signed() *big.Int {
	c := new(big.Int).Set(d.Coef)
	if d.Neg {
		c.Neg(c)
	}
	return c
}

// ParseDec reads [+-]digits[.digits][(e|E)[+-]digits] with optional underscores
// between digits (the literal grammar of C12 plus a sign); also Infinity/NaN spellings.
func ParseDec(s string) (Dec, bool) {
	orig := s
	neg := false
	if strings.HasPrefix(s, "-") {
		neg = true
		s = s[1:]
	} else if strings.HasPrefix(s, "+") {
		s = s[1:]
	}
	switch strings.ToLower(s) {
	case "inf", "infinity":
		return Inf(neg), true
	case "nan", "qnan", "snan":
		return NaN(), true
	}
	s = strings.ReplaceAll(s, "_", "")
	mant := s
	exp := 0
	if i := strings.IndexAny(s, "eE"); i >= 0 {
		mant = s[:i]
		es := s[i+1:]
		if es == "" {
			return Dec{}, false
		}
		eneg := false
		if es[0] == '+' || es[0] == '-' {
			eneg = es[0] == '-'
			es = es[1:]
		}
		if es == "" {
			return Dec{}, false
		}
		for _, c := range es {
			if c < '0' || c > '9' {
				return Dec{}, false
			}
		}
		// leading zeros of the exponent are insignificant
		if es = strings.TrimLeft(es, "0"); es == "" {
			es = "0"
		}
		if len(es) > 9 {
			return Dec{}, false
		}
		for _, c := range es {
			if c < '0' || c > '9' {
				return Dec{}, false
			}
			exp = exp*10 + int(c-'0')
		}
		if eneg {
			exp = -exp
		}
	}
	ip, fp := mant, ""
	if i := strings.IndexByte(mant, '.'); i >= 0 {
		ip, fp = mant[:i], mant[i+1:]
	}
	if ip == "" && fp == "" {
		return Dec{}, false
	}
	for _, c := range ip + fp {
		if c < '0' || c > '9' {
			return Dec{}, false
		}
	}
	c, ok := new(big.Int).SetString(ip+fp, 10)
	if !ok {
		_ = orig
		return Dec{}, false
	}
	return Dec{Neg: neg, Coef: c, Exp: exp - len(fp)}, true
}

// align returns signed coefficients at the common (smaller) exponent.
func align(a, b Dec) (*big.Int, *big.Int, int) {
	x, y := a.signed(), b.signed()
	e := a.Exp
	if b.Exp < e {
		e = b.Exp
	}
	if a.Exp > e {
		x.Mul(x, pow10(a.Exp-e))
	}
	if b.Exp > e {
		y.Mul(y, pow10(b.Exp-e))
	}
	return x, y, e
}

// Cmp compares two finite numbers numerically.
func (a Dec) Cmp(b Dec) int {
	x, y, _ := align(a, b)
	return x.Cmp(y)
}

// Equal: numeric equality of finite values (-0 == 0).
func (a Dec) Equal(b Dec) bool { return a.Form == 0 && b.Form == 0 && a.Cmp(b) == 0 }

// RoundHalfEven rounds to at most prec significant digits.
func (d Dec) RoundHalfEven(prec int) Dec {
	if d.Form != 0 {
		return d
	}
	n := d.Digits()
	if n <= prec {
		return d
	}
	shift := n - prec
	p := pow10(shift)
	q, r := new(big.Int).QuoRem(d.Coef, p, new(big.Int))
	r2 := new(big.Int).Lsh(r, 1)
	switch r2.Cmp(p) {
	case 1:
		q.Add(q, big.NewInt(1))
	case 0:
		if q.Bit(0) == 1 {
			q.Add(q, big.NewInt(1))
		}
	}
	out := Dec{Neg: d.Neg, Coef: q, Exp: d.Exp + shift}
	if out.Digits() > prec { // 99..9 -> 100..0
		out.Coef = new(big.Int).Quo(out.Coef, ten)
		out.Exp++
	}
	return out
}

func Add(a, b Dec) Dec {
	x, y, e := align(a, b)
	return DecBig(x.Add(x, y), e)
}

func Sub(a, b Dec) Dec {
	x, y, e := align(a, b)
	return DecBig(x.Sub(x, y), e)
}

func Mul(a, b Dec) Dec {
	return Dec{Neg: a.Neg != b.Neg, Coef: new(big.Int).Mul(a.Coef, b.Coef), Exp: a.Exp + b.Exp}
}

func (d Dec) NegOf() Dec { d2 := d; d2.Neg = !d.Neg; return d2 }
func (d Dec) Abs() Dec   { d2 := d; d2.Neg = false; return d2 }

// Quo returns a/b rounded half-even to prec significant digits (b != 0).
func Quo(a, b Dec, prec int) Dec {
	if a.IsZero() {
		return Dec{Neg: a.Neg != b.Neg, Coef: new(big.Int), Exp: a.Exp - b.Exp}
	}
	// scale the dividend so that the integer quotient has at least prec+2 digits
	shift := prec + 2 + b.Digits() - a.Digits()
	if shift < 0 {
		shift = 0
	}
	num := new(big.Int).Mul(a.Coef, pow10(shift))
	q, r := new(big.Int).QuoRem(num, b.Coef, new(big.Int))
	exp := a.Exp - b.Exp - shift
	if r.Sign() != 0 {
		// sticky digit: make the quotient inexact without disturbing the half-even decision
		q.Mul(q, ten)
		q.Add(q, big.NewInt(1))
		exp--
	}
	return Dec{Neg: a.Neg != b.Neg, Coef: q, Exp: exp}.RoundHalfEven(prec)
}

// Rem returns the remainder of truncated division (sign of the dividend) and
// the number of digits of the integer quotient.
func Rem(a, b Dec) (Dec, int) {
	x, y, e := align(a.Abs(), b.Abs())
	q, r := new(big.Int).QuoRem(x, y, new(big.Int))
	qd := 1
	if q.Sign() != 0 {
		qd = len(q.String())
	}
	return Dec{Neg: a.Neg, Coef: r, Exp: e}, qd
}

// TruncToInt truncates toward zero.
func (d Dec) TruncToInt() Dec {
	if d.Form != 0 || d.Exp >= 0 {
		return d
	}
	q := new(big.Int).Quo(d.Coef, pow10(-d.Exp))
	return Dec{Neg: d.Neg, Coef: q}
}

// Floor / Ceil / rounding to integer.
func (d Dec) Floor() Dec {
	t := d.TruncToInt()
	if d.Neg && !t.Equal(d) {
		return Sub(t, DecInt(1))
	}
	return t
}

func (d Dec) Ceil() Dec {
	t := d.TruncToInt()
	if !d.Neg && !t.Equal(d) {
		return Add(t, DecInt(1))
	}
	return t
}

// IsInt reports an integral value.
func (d Dec) IsInt() bool { return d.Form == 0 && d.TruncToInt().Equal(d) }

func (d Dec) Rat() *big.Rat {
	r := new(big.Rat).SetInt(d.signed())
	if d.Exp > 0 {
		r.Mul(r, new(big.Rat).SetInt(pow10(d.Exp)))
	} else if d.Exp < 0 {
		r.Quo(r, new(big.Rat).SetInt(pow10(-d.Exp)))
	}
	return r
}

func (d Dec) String() string {
	switch d.Form {
	case 1:
		if d.Neg {
			return "-Infinity"
		}
		return "Infinity"
	case 2:
		return "NaN"
	}
	s := d.Coef.String()
	if d.Neg {
		s = "-" + s
	}
	if d.Exp != 0 {
		s += fmt.Sprintf("e%d", d.Exp)
	}
	return s
}

// Int64 returns the value as int64 if it is an integer in range.
func (d Dec) Int64() (int64, bool) {
	if !d.IsInt() {
		return 0, false
	}
	t := d.TruncToInt()
	c := t.signed()
	if t.Exp > 0 {
		c.Mul(c, pow10(t.Exp))
	}
	if !c.IsInt64() {
		return 0, false
	}
	return c.Int64(), true
}
