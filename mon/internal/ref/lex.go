// Package ref is the executable reference model: character classes, tokenizer,
// grammar (parser + printer), exact decimal arithmetic, literal codecs. It is
// written from the property statements and ES5, not from the implementation.
package ref

import (
	"unicode/utf8"
)

// ---- character classes --------------------------------------------------------

func inTable(t [][2]rune, r rune) bool {
	lo, hi := 0, len(t)
	for lo < hi {
		m := (lo + hi) / 2
		switch {
		case r < t[m][0]:
			hi = m
		case r > t[m][1]:
			lo = m + 1
		default:
			return true
		}
	}
	return false
}

func IsIDStart(r rune) bool {
	if r < 0x80 {
		return r >= 'A' && r <= 'Z' || r >= 'a' && r <= 'z' || r == '$' || r == '_'
	}
	return inTable(es5Start, r)
}

func IsIDPart(r rune) bool {
	if r < 0x80 {
		return r >= 'A' && r <= 'Z' || r >= 'a' && r <= 'z' || r >= '0' && r <= '9' || r == '$' || r == '_'
	}
	return inTable(es5Part, r)
}

func IsLineBreak(r rune) bool {
	return r == '\n' || r == '\r' || r == 0x2028 || r == 0x2029 || r == 0x0085
}

// IsSpace is the ES white space set (without the two code points whose category
// changed between Unicode versions: U+200B and U+180E, see IsSpaceOpen).
func IsSpace(r rune) bool {
	switch r {
	case '\t', '\v', '\f', ' ', 0x00A0, 0xFEFF, 0x1680, 0x202F, 0x205F, 0x3000:
		return true
	}
	return r >= 0x2000 && r <= 0x200A
}

// IsSpaceOpen: code points on which the statement does not decide.
func IsSpaceOpen(r rune) bool { return r == 0x200B || r == 0x180E }

func isDigit(r rune) bool { return r >= '0' && r <= '9' }

// ---- tokens -----------------------------------------------------------------

type TokKind int

const (
	TEOF TokKind = iota
	TNum
	TStr
	TIdent
	TKeyword // true false null this ctx typeof
	TPunct   // operators and punctuation, Text holds the spelling
)

type Token struct {
	Kind     TokKind
	Text     string // source spelling (operators: canonical spelling)
	Start    int    // start of leading trivia
	Pos      int    // start of token text
	End      int    // end of token text
	NLBefore bool   // a line break occurs in the leading trivia
}

// Operators, longest first.
var Operators = []string{
	"===", "!==", "...",
	"==", "!=", "!.", "!!", "&&", "||", "??", "<=", ">=",
	"(", ")", "[", "]", ".", ",", "<", ">", "+", "-", "*", "/", "%", "&", "|", "^", "!", "~", "?", ":", "=",
}

var Keywords = map[string]bool{"true": true, "false": true, "null": true, "this": true, "ctx": true, "typeof": true}

type LexError struct {
	Pos  int
	What string
}

func (e *LexError) Error() string { return e.What }

// LexResult: tokens (always ending in TEOF when Err == nil). Open is set when the
// text contains a code point the statements do not classify (U+200B, U+180E
// outside string literals): comparisons should then be skipped.
type LexResult struct {
	Toks []Token
	Err  *LexError
	Open bool
}

// Lex tokenizes by longest match.
func Lex(src []byte) LexResult {
	var res LexResult
	pos := 0
	n := len(src)
	for {
		start := pos
		nl := false
		// trivia
		for pos < n {
			r, sz := utf8.DecodeRune(src[pos:])
			if IsLineBreak(r) {
				nl = true
				pos += sz
				continue
			}
			if IsSpace(r) {
				pos += sz
				continue
			}
			if IsSpaceOpen(r) {
				res.Open = true
				pos += sz
				continue
			}
			break
		}
		if pos >= n {
			res.Toks = append(res.Toks, Token{Kind: TEOF, Start: start, Pos: pos, End: pos, NLBefore: nl})
			return res
		}
		r, sz := utf8.DecodeRune(src[pos:])
		tok := Token{Start: start, Pos: pos, NLBefore: nl}
		switch {
		case isDigit(r) || r == '.' && pos+1 < n && isDigit(rune(src[pos+1])):
			end, err := scanNumber(src, pos)
			if err != nil {
				res.Err = err
				return res
			}
			tok.Kind, tok.End = TNum, end
		case r == '\'' || r == '"':
			end, open, err := scanString(src, pos)
			if err != nil {
				res.Err = err
				return res
			}
			if open {
				res.Open = true
			}
			tok.Kind, tok.End = TStr, end
		case IsIDStart(r):
			end := pos + sz
			for end < n {
				r2, sz2 := utf8.DecodeRune(src[end:])
				if !IsIDPart(r2) {
					break
				}
				end += sz2
			}
			tok.End = end
			tok.Kind = TIdent
			if Keywords[string(src[pos:end])] {
				tok.Kind = TKeyword
			}
		default:
			matched := false
			for _, op := range Operators {
				if pos+len(op) <= n && string(src[pos:pos+len(op)]) == op {
					tok.Kind, tok.End, tok.Text = TPunct, pos+len(op), op
					matched = true
					break
				}
			}
			if !matched {
				res.Err = &LexError{Pos: pos, What: "invalid character"}
				return res
			}
		}
		if tok.Text == "" {
			tok.Text = string(src[tok.Pos:tok.End])
		}
		res.Toks = append(res.Toks, tok)
		pos = tok.End
	}
}

// scanNumber implements the literal grammar of C12:
//
//	digits | digits '.' digits? | '.' digits, then optional (e|E)(+|-)?digits
//
// where a digit group may contain single underscores between two digits; the
// literal must not be followed immediately by an identifier start character.
func scanNumber(src []byte, pos int) (int, *LexError) {
	n := len(src)
	p := pos
	group := func(required bool) *LexError {
		// digits with single underscores strictly between digits
		begin := p
		lastUnderscore := false
		digits := 0
		for p < n {
			c := src[p]
			if c >= '0' && c <= '9' {
				digits++
				lastUnderscore = false
				p++
				continue
			}
			if c == '_' {
				if digits == 0 || lastUnderscore {
					return &LexError{Pos: p, What: "numeric separator not allowed here"}
				}
				lastUnderscore = true
				p++
				continue
			}
			break
		}
		if lastUnderscore {
			return &LexError{Pos: p - 1, What: "numeric separator not allowed here"}
		}
		if required && digits == 0 {
			return &LexError{Pos: begin, What: "digit expected"}
		}
		return nil
	}
	if src[p] == '.' {
		p++
		if err := group(true); err != nil {
			return 0, err
		}
	} else {
		if err := group(true); err != nil {
			return 0, err
		}
		if p < n && src[p] == '.' {
			p++
			if err := group(false); err != nil {
				return 0, err
			}
		}
	}
	if p < n && (src[p] == 'e' || src[p] == 'E') {
		p++
		if p < n && (src[p] == '+' || src[p] == '-') {
			p++
		}
		if err := group(true); err != nil {
			return 0, err
		}
	}
	if p < n {
		r, _ := utf8.DecodeRune(src[p:])
		if IsIDStart(r) {
			return 0, &LexError{Pos: p, What: "identifier immediately after numeric literal"}
		}
		if r == '_' { // covered by IsIDStart, kept for clarity
			return 0, &LexError{Pos: p, What: "numeric separator not allowed here"}
		}
	}
	return p, nil
}

// scanString finds the end of a string literal: closing quote on the same line.
// A backslash takes the next character with it (including a line break: line
// continuation, left open by the statements but lexically one literal).
//
// open reports an escape the statements do not define (\x or \u without exactly
// two / four hexadecimal digits).
func scanString(src []byte, pos int) (end int, open bool, lerr *LexError) {
	n := len(src)
	q, sz := utf8.DecodeRune(src[pos:])
	p := pos + sz
	for {
		if p >= n {
			return 0, open, &LexError{Pos: p, What: "unexpected end of text"}
		}
		r, sz := utf8.DecodeRune(src[p:])
		if r == q {
			return p + sz, open, nil
		}
		if r == '\\' {
			p += sz
			if p >= n {
				return 0, open, &LexError{Pos: p, What: "unexpected end of text"}
			}
			r2, sz2 := utf8.DecodeRune(src[p:])
			p += sz2
			if r2 == '\r' && p < n && src[p] == '\n' {
				p++
			}
			if IsLineBreak(r2) {
				open = true // line continuation: not defined by the statements
			}
			if r2 == 'x' || r2 == 'u' {
				want := 2
				if r2 == 'u' {
					want = 4
				}
				for i := 0; i < want; i++ {
					if p+i >= n || !isHex(src[p+i]) {
						open = true
						break
					}
				}
			}
			continue
		}
		if IsLineBreak(r) {
			return 0, open, &LexError{Pos: p, What: "unterminated string literal"}
		}
		p += sz
	}
}

func isHex(c byte) bool {
	return c >= '0' && c <= '9' || c >= 'a' && c <= 'f' || c >= 'A' && c <= 'F'
}

// Lexemes returns the token spellings (without EOF) or nil on error.
func Lexemes(src []byte) []string {
	r := Lex(src)
	if r.Err != nil {
		return nil
	}
	var out []string
	for _, t := range r.Toks {
		if t.Kind != TEOF {
			out = append(out, string(src[t.Pos:t.End]))
		}
	}
	return out
}
