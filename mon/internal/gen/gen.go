// Package gen holds the deterministic case generators: every case is a pure
// function of (seed, stream, index).
package gen

import (
	"math/rand"
	"strings"
	"unicode/utf8"
)

// TokAlphabet: one representative lexeme per token class (TOK-k of DESIGN.md).
var TokAlphabet = []string{
	"1", ".5", "'s'", "a", "$v", "null", "true", "this", "typeof",
	"(", ")", "[", "]", ".", "!.", "...", ",", "?", ":", "=",
	"||", "??", "&&", "|", "^", "&", "==", "!=", "===", "!==", "<", ">", "<=", ">=", "+", "-", "*", "/", "%",
	"!", "!!", "~", "#",
}

// BinOps in precedence order groups.
var BinOps = []string{"||", "??", "&&", "|", "^", "&", "==", "!=", "===", "!==", "<", ">", "<=", ">=", "+", "-", "*", "/", "%"}

// TokSeq decodes index idx (0 <= idx < len(alpha)^k) into a length-k sequence.
func TokSeq(alpha []string, k int, idx int) []string {
	out := make([]string, k)
	for i := k - 1; i >= 0; i-- {
		out[i] = alpha[idx%len(alpha)]
		idx /= len(alpha)
	}
	return out
}

func Pow(b, k int) int {
	r := 1
	for i := 0; i < k; i++ {
		r *= b
	}
	return r
}

// Separators usable between tokens.
var Seps = []string{" ", "\t", "\u00a0", "\n", "\r\n", "\u2028", "  ", "\u3000", "\ufeff", "\v", "\f", "\r", "\u2029", "\u0085", "\u1680", "\u2003", "\u202f", "\u205f"}
var SpaceSeps = []string{" ", "\t", "\u00a0", "  ", "\u3000", "\ufeff", "\v", "\f", "\u1680", "\u2003", "\u202f", "\u205f"}
var BreakSeps = []string{"\n", "\r\n", "\u2028", "\r", "\u2029", "\u0085", " \n ", "\n\n", "\n\u00a0", "\r\n\ufeff", "\n\u3000\u3000", "\u2028\u2003", "\u00a0\n\u202f", "\n\t\u1680"}

// Interesting code points for byte-level generators.
var InterestingRunes = []rune{0x00A0, 0x0085, 0x1680, 0x180E, 0x2000, 0x2003, 0x200A, 0x200B, 0x200C, 0x200D, 0x2028, 0x2029, 0x202F, 0x205F, 0x3000, 0xFEFF,
	0xFFFD, 0x4E2D, 0x00E9, 0x0300, 0x0660, 0x203F, 0x1F600, 0x10000, 0xAA, 0xB5, 0x2118, 0x1885, 0x19B0, 0x1CF2, 0xFFFF, 0xD7FF, 0xE000}

var interestingBytes = [][]byte{{0xC0, 0x80}, {0xED, 0xA0, 0x80}, {0xF4, 0x90, 0x80, 0x80}, {0xE2, 0x80}, {0xFF}, {0xFE}, {0x80}, {0xC3}, {0x00}, {0x7F}, {0x1B}}

var asciiPool = []byte("abcxyz_$ABC0123456789 \t\n\r()[].,?:=!&|^~<>+-*/%'\"\\#@`{};eE")

// RandBytes produces a random byte string of a given flavour.
func RandBytes(r *rand.Rand, maxLen int) []byte {
	n := r.Intn(maxLen + 1)
	b := make([]byte, 0, n+4)
	flavour := r.Intn(4)
	for len(b) < n {
		switch {
		case flavour == 0: // uniform
			b = append(b, byte(r.Intn(256)))
		case flavour == 1 || r.Intn(10) < 7: // ascii-biased
			b = append(b, asciiPool[r.Intn(len(asciiPool))])
		case r.Intn(3) == 0:
			b = append(b, interestingBytes[r.Intn(len(interestingBytes))]...)
		default:
			var buf [4]byte
			m := utf8.EncodeRune(buf[:], InterestingRunes[r.Intn(len(InterestingRunes))])
			b = append(b, buf[:m]...)
		}
	}
	return b
}

// Mutate applies 1..4 byte-level mutations.
func Mutate(r *rand.Rand, src []byte, corpus [][]byte) []byte {
	b := append([]byte(nil), src...)
	for m := 1 + r.Intn(4); m > 0; m-- {
		switch r.Intn(8) {
		case 0: // flip
			if len(b) > 0 {
				b[r.Intn(len(b))] ^= 1 << uint(r.Intn(8))
			}
		case 1: // delete
			if len(b) > 0 {
				i := r.Intn(len(b))
				b = append(b[:i], b[i+1:]...)
			}
		case 2: // duplicate a span
			if len(b) > 0 {
				i := r.Intn(len(b))
				j := i + r.Intn(len(b)-i+1)
				span := append([]byte(nil), b[i:j]...)
				b = append(b[:j], append(span, b[j:]...)...)
			}
		case 3: // truncate
			if len(b) > 0 {
				b = b[:r.Intn(len(b))]
			}
		case 4: // splice
			if len(corpus) > 0 {
				o := corpus[r.Intn(len(corpus))]
				if len(o) > 0 {
					i := r.Intn(len(b) + 1)
					j := r.Intn(len(o))
					k := j + r.Intn(len(o)-j+1)
					b = append(b[:i], append(append([]byte(nil), o[j:k]...), b[i:]...)...)
				}
			}
		case 5: // insert interesting rune
			var buf [4]byte
			m := utf8.EncodeRune(buf[:], InterestingRunes[r.Intn(len(InterestingRunes))])
			i := r.Intn(len(b) + 1)
			b = append(b[:i], append(append([]byte(nil), buf[:m]...), b[i:]...)...)
		case 6: // insert interesting bytes
			ib := interestingBytes[r.Intn(len(interestingBytes))]
			i := r.Intn(len(b) + 1)
			b = append(b[:i], append(append([]byte(nil), ib...), b[i:]...)...)
		case 7: // insert ascii
			i := r.Intn(len(b) + 1)
			b = append(b[:i], append([]byte{asciiPool[r.Intn(len(asciiPool))]}, b[i:]...)...)
		}
	}
	return b
}

// Corpus: the formulas of the repository's own tests plus a few more of the same kind.
var Corpus = []string{
	"(1 + 2) * 3", "toDay()", "join(mapToArr(value, 'name'), ',')", "person.age", "true == 1", "find('hello world', 'o') + 10",
	"finite(a) + finite(b) + finite(c)", "v==='染色'", "v+1.2", "toString(1)", "toInt('1.3')", "toFloat('5.5')", "a - c - b", "add('1', 30)",
	"finite(a)", "!a", "a || b", "a === null", "0 === null", "typeof 100", "typeof 'hello'", "typeof null", "typeof true", "'a','b'", "1,2", "1+1,2+2", "1+1,2+2,3+3",
	"$1=1,$2=2,$1+$2", "$中文=1,$中文", "$1=now(),$2=hour(useTimezone($1, 'Asia/Shanghai')),$3=hour(useTimezone($1, 'UTC')),$2===($3+8)%24",
	"a.b.c", "a!.b", "f(a, b...)", "[1, 2, 3]", "a ? b : c", "a ? b : c ? d : e", "-a * +b", "!!a && !b || c ?? d", "a & b | c ^ ~d", "a < b == c >= d",
	"lpad(toString(x), '0', 8)", "mid(s, 1, 3) + left(s, 2) + right(s, 2)", "max(1, 2, 3) - min(a, b)", "round(x * 100) / 100", "date(2020, 1, 31)", "year(d) * 100 + month(d)",
	"replace(trim(s), ' ', '_')", "upper(left(name, 1)) + lower(mid(name, 1, len(name)))", "includes(['a','b'], x)", "regexp(s, '^a+$')", "this.a + this.b",
	"(a, b)", "[[1], [2, [3]]]", "f()(g)", "a.b(c).d", "x = y", "$x = $y = 1", "'it''s'", "\"dq\" + 'sq'", "1e3 + .5 - 2.", "1_000 * 2",
}

func CorpusBytes() [][]byte {
	out := make([][]byte, len(Corpus))
	for i, s := range Corpus {
		out[i] = []byte(s)
	}
	return out
}

// Shape is one pathological family; n is the repetition parameter, the result
// is truncated to at most 65536 bytes.
type Shape struct {
	Name string
	Make func(n int) string
}

func rep(s string, n int) string { return strings.Repeat(s, n) }

var Shapes = []Shape{
	{"open-parens", func(n int) string { return rep("(", n) }},
	{"nested-parens", func(n int) string { return rep("(", n) + "1" + rep(")", n) }},
	{"close-parens", func(n int) string { return "1" + rep(")", n) }},
	{"open-brackets", func(n int) string { return rep("[", n) }},
	{"nested-brackets", func(n int) string { return rep("[", n) + rep("]", n) }},
	{"prefix-chain", func(n int) string { return rep("-", n) + "1" }},
	{"bang-chain", func(n int) string { return rep("!", n) + "a" }},
	{"typeof-chain", func(n int) string { return rep("typeof ", n) + "a" }},
	{"plus-chain", func(n int) string { return "1" + rep("+1", n) }},
	{"mixed-op-chain", func(n int) string { return "a" + rep("*b+c&&d||e", n) }},
	{"comma-chain", func(n int) string { return "1" + rep(",1", n) }},
	{"cond-chain", func(n int) string { return rep("a?b:", n) + "c" }},
	{"cond-nest-true", func(n int) string { return rep("a?", n) + "b" + rep(":c", n) }},
	{"assign-chain", func(n int) string { return rep("$a=", n) + "1" }},
	{"dot-chain", func(n int) string { return "a" + rep(".b", n) }},
	{"assertdot-chain", func(n int) string { return "a" + rep("!.b", n) }},
	{"call-chain", func(n int) string { return "f" + rep("()", n) }},
	{"nested-calls", func(n int) string { return rep("f(", n) + rep(")", n) }},
	{"long-string", func(n int) string { return "'" + rep("x", n) + "'" }},
	{"long-number", func(n int) string { return rep("7", n) }},
	{"long-fraction", func(n int) string { return "0." + rep("3", n) }},
	{"long-identifier", func(n int) string { return rep("k", n) }},
	{"unterminated-backslashes", func(n int) string { return "'" + rep("\\", n) }},
	{"space-run", func(n int) string { return rep(" ", n) + "1" }},
	{"newline-run", func(n int) string { return "1" + rep("\n", n) }},
	{"junk-run", func(n int) string { return rep("#", n) }},
	{"invalid-utf8-run", func(n int) string { return rep("\xff", n) }},
	{"dot-newline-chain", func(n int) string { return "a" + rep(".\nb", n) }},
	{"comma-run-in-list", func(n int) string { return "[" + rep(",", n) + "]" }},
	{"error-recovery-list", func(n int) string { return "f(" + rep(") ", n) }},
	{"error-recovery-args", func(n int) string { return "f(" + rep(": ", n) + ")" }},
	{"crlf-then-error", func(n int) string { return rep("\r\n", n) + ")" }},
	{"number-separators", func(n int) string { return "1" + rep("_1", n) }},
	{"escapes", func(n int) string { return "'" + rep("\\u0041\\x41\\n", n) + "'" }},
	{"string-list", func(n int) string { return "[" + rep("'a',", n) + "'b']" }},
	{"array-of-arrays", func(n int) string { return "[" + rep("[1],", n) + "[2]]" }},
	{"spread-run", func(n int) string { return "f(" + rep("...", n) + ")" }},
	{"question-run", func(n int) string { return "a" + rep("?", n) }},
	{"eq-run", func(n int) string { return "a" + rep("=", n) + "b" }},
	{"multibyte-identifier", func(n int) string { return rep("中", n) }},
	{"braced-escape-digits", func(n int) string { return "'\\u{" + rep("F", n) + "}'" }},
	{"braced-escape-open", func(n int) string { return "'\\u{" + rep("1", n) }},
	{"hex-escape-digits", func(n int) string { return "'\\x" + rep("F", n) + "'" }},
	{"u-escape-digits", func(n int) string { return "'\\u" + rep("0", n) + "41'" }},
	{"exponent-digits", func(n int) string { return "1e" + rep("9", n) }},
	{"negative-exponent-digits", func(n int) string { return "1e-" + rep("9", n) }},
	{"leading-zeros", func(n int) string { return rep("0", n) + "1" }},
	{"nested-args-with-element", func(n int) string { return rep("f(", n) + "1" + rep(")", n) }},
	{"nested-brackets-with-element", func(n int) string { return rep("[", n) + "1" + rep("]", n) }},
	{"open-calls", func(n int) string { return rep("f(", n) }},
	{"open-brackets-with-element", func(n int) string { return rep("[", n) + "1" }},
	// many diagnostics and many speculative look-aheads (a member name on the line after its dot) in one text
	{"errors-then-members-on-next-lines", func(n int) string { return "[" + rep("?", n) + "a" + rep(".\nb", n) }},
	{"members-on-next-lines-then-errors", func(n int) string { return "a" + rep(".\nb", n) + rep(" ?", n) }},
	{"error-and-member-on-next-line-alternating", func(n int) string { return "a" + rep(" ? .\nb", n) }},
	{"errors-then-calls-on-next-lines", func(n int) string { return "[" + rep(")", n) + "a" + rep("\n(1)", n) }},
}

var ShapeSizes = []int{0, 1, 2, 3, 15, 16, 17, 31, 32, 33, 63, 64, 65, 127, 128, 129, 255, 256, 257, 511, 512, 513, 1023, 1024, 1025, 4095, 4096, 8192, 16384, 65535, 65536}

// ShapeBytes builds shape s at size n, truncated to 64 KiB.
func ShapeBytes(s Shape, n int) []byte {
	// keep the result within 64 KiB without building something huge first
	unit := len(s.Make(2)) - len(s.Make(1))
	if unit < 1 {
		unit = 1
	}
	if n*unit > 70000 {
		n = 70000 / unit
	}
	b := []byte(s.Make(n))
	if len(b) > 65536 {
		b = b[:65536]
	}
	return b
}
