package gen

import "math/rand"

// LexPool is the wide lexeme pool for random token sequences: every operator and
// keyword, builtin and data names, well-formed and malformed literals, junk.
var LexPool = append(append([]string{}, TokAlphabet...),
	"false", "ctx", "0", "007", "12.5", "1e3", "1E-2", "3.", "1_000", "1__0", "1_", "1e", "1e+", "0x1F", "1a", "1.2.3", "..", "....", ".",
	"\"d\"", "''", "'a\\'b'", "'\\x41'", "'\\u4e2d'", "'\\xzz'", "'open", "\"open\n", "'\\", "'a\nb'", "`", "\\", "@", "\x00", "\xff", "\xc3", "\xe2\x80", "é", "中", "$中文", "_", "$", "$1", "名.字",
	"now", "toDay", "date", "addDate", "year", "month", "day", "hour", "minute", "second", "millSecond", "weekDay", "timeFormat", "useTimezone",
	"abs", "ceil", "exp", "floor", "ln", "log", "max", "min", "round", "roundBank", "roundCash", "sqrt", "finite",
	"startWith", "endWith", "contains", "find", "includes", "left", "right", "len", "lower", "upper", "lpad", "rpad", "mid", "replace", "trim", "regexp",
	"mapToArr", "join", "toString", "toInt", "toFloat",
	"n0", "n1", "s0", "s1", "m", "arr", "st", "fn", "nilp", "tm", "t0", "b0",
	"+=", "-=", "<<", ">>", "=>", "**", "++", "--", "?.", "::", ";", "{", "}",
)

// Builtins lists the names in the evaluator's builtin table.
var Builtins = []string{"now", "toDay", "date", "addDate", "year", "month", "day", "hour", "minute", "second", "millSecond", "weekDay", "timeFormat", "useTimezone",
	"abs", "ceil", "exp", "floor", "ln", "log", "max", "min", "round", "roundBank", "roundCash", "sqrt", "finite",
	"startWith", "endWith", "contains", "find", "includes", "left", "right", "len", "lower", "upper", "lpad", "rpad", "mid", "replace", "trim", "regexp",
	"mapToArr", "join", "toString", "toInt", "toFloat"}

// RandTokens joins up to maxTok random lexemes from pool with random separators.
func RandTokens(r *rand.Rand, pool []string, maxTok int) []byte {
	n := 1 + r.Intn(maxTok)
	var b []byte
	for i := 0; i < n; i++ {
		if i > 0 {
			switch r.Intn(6) {
			case 0:
			case 1:
				b = append(b, Seps[r.Intn(len(Seps))]...)
			default:
				b = append(b, ' ')
			}
		}
		b = append(b, pool[r.Intn(len(pool))]...)
	}
	return b
}
