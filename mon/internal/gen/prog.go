package gen

import (
	"math/rand"

	"verifmon/internal/ref"
)

// ProgCfg steers the grammar-directed generator of reference trees.
type ProgCfg struct {
	Idents  []string
	Members []string
	Funcs   []string // callee names (nil: no calls)
	Nums    []string
	Strs    []string
	Kws     []string // subset of null true false this ctx
	BinOps  []string
	PreOps  []string
	// weights (0 disables)
	WBin, WPre, WTypeof, WCond, WSel, WCall, WArr, WParen, WAssign, WComma int
	AssignTargets                                                          []string // names assignable ($-locals)
	SpreadPct                                                              int      // percent of calls with spread
	AssertPct                                                              int      // percent of selectors using !.
	MaxList                                                                int
	PathCallee                                                             bool // allow a.b(...) callees
	AnyCallee                                                              bool // allow any expression as callee (syntax only)
}

// FullSyntax exercises every construct (C02, C14, C15).
func FullSyntax() *ProgCfg {
	return &ProgCfg{
		Idents:  []string{"a", "b", "c", "$v", "$w", "x1", "_y", "名"},
		Members: []string{"b", "k", "name", "$m", "true", "typeof"}[:4],
		Funcs:   []string{"f", "g", "max", "len"},
		Nums:    []string{"1", "0", "2.5", ".5", "3.", "1e3", "1_000", "12E-2", "007"},
		Strs:    []string{"'s'", "\"d\"", "''", "'a\\'b'", "'\\n'", "'中'"},
		Kws:     []string{"null", "true", "false", "this", "ctx"},
		BinOps:  ref.BinOps, PreOps: ref.PreOps,
		WBin: 30, WPre: 10, WTypeof: 3, WCond: 6, WSel: 10, WCall: 8, WArr: 5, WParen: 6, WAssign: 4, WComma: 3,
		AssignTargets: []string{"$v", "$w", "a"}, SpreadPct: 15, AssertPct: 25, MaxList: 3, PathCallee: true, AnyCallee: true,
	}
}

func pick(r *rand.Rand, xs []string) string { return xs[r.Intn(len(xs))] }

// Leaf produces a primary without children.
func (c *ProgCfg) Leaf(r *rand.Rand) *ref.Node {
	n := len(c.Idents)*3 + len(c.Nums)*2 + len(c.Strs) + len(c.Kws)
	if n == 0 {
		return ref.Num("1")
	}
	k := r.Intn(n)
	switch {
	case k < len(c.Idents)*3:
		return ref.ID(pick(r, c.Idents))
	case k < len(c.Idents)*3+len(c.Nums)*2:
		return ref.Num(pick(r, c.Nums))
	case k < len(c.Idents)*3+len(c.Nums)*2+len(c.Strs):
		return ref.Str(pick(r, c.Strs))
	default:
		return ref.Kw(pick(r, c.Kws))
	}
}

// Node produces a random tree of at most the given depth. The tree is NOT yet
// parenthesized: apply ref.Parenthesize before printing.
func (c *ProgCfg) Node(r *rand.Rand, depth int) *ref.Node {
	if depth <= 0 || r.Intn(100) < 12 {
		return c.Leaf(r)
	}
	wCall := c.WCall
	if len(c.Funcs) == 0 {
		wCall = 0
	}
	wSel := c.WSel
	if len(c.Members) == 0 {
		wSel = 0
	}
	wAssign := c.WAssign
	if len(c.AssignTargets) == 0 {
		wAssign = 0
	}
	total := c.WBin + c.WPre + c.WTypeof + c.WCond + wSel + wCall + c.WArr + c.WParen + wAssign + c.WComma
	if total == 0 {
		return c.Leaf(r)
	}
	k := r.Intn(total)
	sub := func() *ref.Node { return c.Node(r, depth-1) }
	switch {
	case k < c.WBin:
		return ref.Bin(pick(r, c.BinOps), sub(), sub())
	case k < c.WBin+c.WPre:
		return ref.Pre(pick(r, c.PreOps), sub())
	case k < c.WBin+c.WPre+c.WTypeof:
		return ref.TypeOf(sub())
	case k < c.WBin+c.WPre+c.WTypeof+c.WCond:
		return ref.Cond(sub(), sub(), sub())
	case k < c.WBin+c.WPre+c.WTypeof+c.WCond+wSel:
		return ref.Sel(sub(), pick(r, c.Members), r.Intn(100) < c.AssertPct)
	case k < c.WBin+c.WPre+c.WTypeof+c.WCond+wSel+wCall:
		var callee *ref.Node = ref.ID(pick(r, c.Funcs))
		if c.PathCallee && r.Intn(4) == 0 {
			callee = ref.Sel(ref.ID(pick(r, c.Idents)), pick(r, c.Funcs), false)
		}
		if c.AnyCallee && r.Intn(4) == 0 {
			callee = sub()
		}
		n := r.Intn(c.MaxList + 1)
		args := make([]*ref.Node, n)
		for i := range args {
			args[i] = sub()
		}
		spread := n > 0 && r.Intn(100) < c.SpreadPct
		return ref.Call(callee, spread, args...)
	case k < c.WBin+c.WPre+c.WTypeof+c.WCond+wSel+wCall+c.WArr:
		n := r.Intn(c.MaxList + 1)
		el := make([]*ref.Node, n)
		for i := range el {
			el[i] = sub()
		}
		return ref.Arr(el...)
	case k < c.WBin+c.WPre+c.WTypeof+c.WCond+wSel+wCall+c.WArr+c.WParen:
		return ref.Paren(sub())
	case k < c.WBin+c.WPre+c.WTypeof+c.WCond+wSel+wCall+c.WArr+c.WParen+wAssign:
		return ref.Bin("=", ref.ID(pick(r, c.AssignTargets)), sub())
	default:
		return ref.Bin(",", sub(), sub())
	}
}

// Layout chooses separators for a flattened program: sep[i] precedes lexeme i.
// mode 0: minimal; 1: single spaces; 2: random white space incl. line breaks where legal;
// 3: like 2 but also line breaks between '.' / '!.' and the member name (accepted by the
// implementation, left open by the grammar).
func Layout(r *rand.Rand, f *ref.Flat, mode int) []string {
	sep := make([]string, len(f.Lex))
	for i := range f.Lex {
		need := i > 0 && ref.NeedSep(f.Lex[i-1], f.Lex[i])
		switch mode {
		case 0:
			if need {
				sep[i] = " "
			}
		case 1:
			if i > 0 {
				sep[i] = " "
			}
		default:
			s := ""
			k := r.Intn(4)
			if need && k == 0 {
				k = 1
			}
			for j := 0; j < k; j++ {
				if (!f.NoBreak[i] || (mode == 3 && !f.Postfix[i])) && i > 0 && r.Intn(3) == 0 {
					s += BreakSeps[r.Intn(len(BreakSeps))]
				} else {
					s += SpaceSeps[r.Intn(len(SpaceSeps))]
				}
			}
			sep[i] = s
		}
	}
	return sep
}
