//go:build verifclock

package obs

import "time"

// ClockAvailable reports whether the harness was built with the overlaid time package (tools/mkoverlay.py).
func ClockAvailable() bool { return true }

// WithClock runs f while time.Now reports the given wall-clock instant (advancing by one microsecond per call, so that
// successive readings are ordered); the monotonic clock stays real.
func WithClock(at time.Time, f func()) {
	sec, nsec := at.Unix(), int64(at.Nanosecond())
	calls := int64(0)
	time.VerifClock = func() (int64, int32, bool) {
		n := nsec + calls*1000
		calls++
		return sec + n/1e9, int32(n % 1e9), true
	}
	defer func() { time.VerifClock = nil }()
	f()
}

// ObserveNow calls obs for every time.Now call made while f runs.
func ObserveNow(obs func(), f func()) {
	time.VerifNowObserver = obs
	defer func() { time.VerifNowObserver = nil }()
	f()
}
