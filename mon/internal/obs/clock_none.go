//go:build !verifclock

package obs

import "time"

// ClockAvailable: the harness was built without the clock overlay; the clock monitors skip.
func ClockAvailable() bool { return false }

func WithClock(at time.Time, f func()) { f() }

func ObserveNow(obs func(), f func()) { f() }
