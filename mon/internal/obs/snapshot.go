package obs

import (
	"fmt"
	"math"
	"reflect"
	"sort"
	"strings"
	"time"
)

// Snapshot renders a value deeply: contents of maps (sorted keys), slices,
// structs including unexported fields (so a *decimal.Big is captured in its
// internal representation), and the identity (address) of every map, slice
// backing array and pointer, so that "replaced by an equal copy" is visible too.
func Snapshot(v interface{}) string {
	var sb strings.Builder
	seen := map[uintptr]bool{}
	snap(&sb, reflect.ValueOf(v), seen, true)
	return sb.String()
}

// SnapshotValues is Snapshot without addresses (pure contents).
func SnapshotValues(v interface{}) string {
	var sb strings.Builder
	seen := map[uintptr]bool{}
	snap(&sb, reflect.ValueOf(v), seen, false)
	return sb.String()
}

var timeType = reflect.TypeOf(time.Time{})

func snap(sb *strings.Builder, v reflect.Value, seen map[uintptr]bool, addr bool) {
	if !v.IsValid() {
		sb.WriteString("nil")
		return
	}
	switch v.Kind() {
	case reflect.Ptr:
		if v.IsNil() {
			fmt.Fprintf(sb, "(%s)nil", v.Type())
			return
		}
		p := v.Pointer()
		if addr {
			fmt.Fprintf(sb, "&%x", p)
		} else {
			sb.WriteByte('&')
		}
		if seen[p] {
			sb.WriteString("^")
			return
		}
		seen[p] = true
		snap(sb, v.Elem(), seen, addr)
	case reflect.Interface:
		if v.IsNil() {
			sb.WriteString("nil")
			return
		}
		snap(sb, v.Elem(), seen, addr)
	case reflect.Struct:
		if v.Type() == timeType && v.CanInterface() {
			t := v.Interface().(time.Time)
			fmt.Fprintf(sb, "time(%d.%09d %s)", t.Unix(), t.Nanosecond(), t.Location())
			return
		}
		sb.WriteString(v.Type().String())
		sb.WriteByte('{')
		for i := 0; i < v.NumField(); i++ {
			if i > 0 {
				sb.WriteByte(' ')
			}
			sb.WriteString(v.Type().Field(i).Name)
			sb.WriteByte(':')
			snap(sb, v.Field(i), seen, addr)
		}
		sb.WriteByte('}')
	case reflect.Map:
		if v.IsNil() {
			fmt.Fprintf(sb, "(%s)nil", v.Type())
			return
		}
		if addr {
			fmt.Fprintf(sb, "map@%x", v.Pointer())
		} else {
			sb.WriteString("map")
		}
		if seen[v.Pointer()] {
			sb.WriteString("^")
			return
		}
		seen[v.Pointer()] = true
		type kv struct {
			k string
			v reflect.Value
		}
		var kvs []kv
		it := v.MapRange()
		for it.Next() {
			var kb strings.Builder
			snap(&kb, it.Key(), map[uintptr]bool{}, false)
			kvs = append(kvs, kv{kb.String(), it.Value()})
		}
		sort.Slice(kvs, func(i, j int) bool { return kvs[i].k < kvs[j].k })
		sb.WriteByte('[')
		for i, e := range kvs {
			if i > 0 {
				sb.WriteByte(' ')
			}
			sb.WriteString(e.k)
			sb.WriteByte(':')
			snap(sb, e.v, seen, addr)
		}
		sb.WriteByte(']')
	case reflect.Slice:
		if v.IsNil() {
			fmt.Fprintf(sb, "(%s)nil", v.Type())
			return
		}
		if addr {
			fmt.Fprintf(sb, "slice@%x/%d/%d", v.Pointer(), v.Len(), v.Cap())
		} else {
			sb.WriteString("slice")
		}
		// a slice that (through interface elements) contains itself: cut the cycle where it closes (only slices on the
		// current path are marked, so shared but acyclic sub-slices render in full every time)
		key := v.Pointer() ^ uintptr(v.Len())<<48 ^ 1
		if v.Len() > 0 && seen[key] {
			sb.WriteString("[^]")
			return
		}
		seen[key] = true
		sb.WriteByte('[')
		for i := 0; i < v.Len(); i++ {
			if i > 0 {
				sb.WriteByte(' ')
			}
			snap(sb, v.Index(i), seen, addr)
		}
		sb.WriteByte(']')
		delete(seen, key)
	case reflect.Array:
		sb.WriteByte('[')
		for i := 0; i < v.Len(); i++ {
			if i > 0 {
				sb.WriteByte(' ')
			}
			snap(sb, v.Index(i), seen, addr)
		}
		sb.WriteByte(']')
	case reflect.String:
		fmt.Fprintf(sb, "%q", v.String())
	case reflect.Int, reflect.Int8, reflect.Int16, reflect.Int32, reflect.Int64:
		fmt.Fprintf(sb, "%s(%d)", v.Type(), v.Int())
	case reflect.Uint, reflect.Uint8, reflect.Uint16, reflect.Uint32, reflect.Uint64, reflect.Uintptr:
		fmt.Fprintf(sb, "%s(%d)", v.Type(), v.Uint())
	case reflect.Float32, reflect.Float64:
		fmt.Fprintf(sb, "%s(%x)", v.Type(), math.Float64bits(v.Float()))
	case reflect.Bool:
		fmt.Fprintf(sb, "%v", v.Bool())
	case reflect.Func:
		if v.IsNil() {
			sb.WriteString("func(nil)")
		} else {
			fmt.Fprintf(sb, "func@%x", v.Pointer())
		}
	default:
		fmt.Fprintf(sb, "<%s>", v.Kind())
	}
}
