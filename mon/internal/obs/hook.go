//go:build !nohook

package obs

import "github.com/aundis/formula"

// HookAvailable reports whether /repo was built with its verif hook file.
func HookAvailable() bool { return true }

// SetHook installs (or with nil removes) the tick hook of the code under test.
func SetHook(h func(site int)) { formula.VerifHook = h }
