package obs

import (
	"math/big"

	"github.com/ericlagergren/decimal"

	"verifmon/internal/ref"
)

// DecOf reads the exact value of an implementation number through its
// decomposition (sign, coefficient bytes, exponent).
func DecOf(d *decimal.Big) ref.Dec {
	if d == nil {
		return ref.NaN()
	}
	if d.IsNaN(0) {
		return ref.NaN()
	}
	if d.IsInf(0) {
		return ref.Inf(d.Signbit())
	}
	_, _, coef, exp := d.Decompose(nil)
	c := new(big.Int).SetBytes(coef)
	return ref.Dec{Neg: d.Signbit(), Coef: c, Exp: int(exp)}
}
