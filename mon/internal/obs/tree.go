// Package obs holds the observers: renderings of the implementation's trees,
// deep snapshots of data, recording host functions, the hook bridge.
package obs

import (
	"fmt"
	"reflect"
	"strings"

	"github.com/aundis/formula"
)

func isNilNode(n interface{}) bool {
	if n == nil {
		return true
	}
	v := reflect.ValueOf(n)
	return v.Kind() == reflect.Ptr && v.IsNil()
}

var tokText = map[formula.SyntaxKind]string{
	formula.SK_LessThan: "<", formula.SK_GreaterThan: ">", formula.SK_LessThanEquals: "<=", formula.SK_GreaterThanEquals: ">=",
	formula.SK_EqualsEquals: "==", formula.SK_EqualsEqualsEquals: "===", formula.SK_ExclamationEquals: "!=", formula.SK_ExclamationEqualsEquals: "!==",
	formula.SK_Plus: "+", formula.SK_Minus: "-", formula.SK_Asterisk: "*", formula.SK_Slash: "/", formula.SK_Percent: "%",
	formula.SK_Ampersand: "&", formula.SK_Bar: "|", formula.SK_Caret: "^", formula.SK_AmpersandAmpersand: "&&", formula.SK_BarBar: "||",
	formula.SK_QuestionQuestion: "??", formula.SK_Exclamation: "!", formula.SK_ExclamationDot: "!.", formula.SK_ExclamationExclamation: "!!",
	formula.SK_Tilde: "~", formula.SK_Question: "?", formula.SK_Colon: ":", formula.SK_Equals: "=", formula.SK_Comma: ",",
	formula.SK_OpenParen: "(", formula.SK_CloseParen: ")", formula.SK_OpenBracket: "[", formula.SK_CloseBracket: "]",
	formula.SK_Dot: ".", formula.SK_DotDotDot: "...",
	formula.SK_NumberLiteral: "num", formula.SK_StringLiteral: "str", formula.SK_Identifier: "ident", formula.SK_EndOfFile: "EOF",
	formula.SK_TrueKeyword: "true", formula.SK_FalseKeyword: "false", formula.SK_NullKeyword: "null", formula.SK_ThisKeyword: "this",
	formula.SK_CtxKeyword: "ctx", formula.SK_TypeofKeyword: "typeof", formula.SK_Unknown: "unknown",
}

// TokText names a syntax kind.
func TokText(k formula.SyntaxKind) string {
	if s, ok := tokText[k]; ok {
		return s
	}
	return fmt.Sprintf("SK(%d)", int(k))
}

// Canon renders the implementation's tree in the same canonical form as ref.Node.Canon.
func Canon(e formula.Expression) string {
	var sb strings.Builder
	canon(&sb, false, e)
	return sb.String()
}

// CanonValues is Canon with the value every literal carries (numbers, texts and the reserved-word literals alike).
func CanonValues(e formula.Expression) string {
	var sb strings.Builder
	canon(&sb, true, e)
	return sb.String()
}

func opText(t *formula.TokenNode) string {
	if t == nil {
		return "<nilop>"
	}
	return TokText(t.Token)
}

func canon(sb *strings.Builder, vals bool, e formula.Expression) {
	if isNilNode(e) {
		sb.WriteString("<nil>")
		return
	}
	switch n := e.(type) {
	case *formula.Identifier:
		sb.WriteString("id:" + n.Value)
	case *formula.LiteralExpression:
		switch n.Token {
		case formula.SK_NumberLiteral:
			sb.WriteString("num")
		case formula.SK_StringLiteral:
			sb.WriteString("str")
		default:
			sb.WriteString(TokText(n.Token))
		}
		if vals {
			sb.WriteString(fmt.Sprintf("=%q", n.Value))
		}
	case *formula.PrefixUnaryExpression:
		sb.WriteString("(pre " + opText(n.Operator) + " ")
		canon(sb, vals, n.Operand)
		sb.WriteByte(')')
	case *formula.TypeOfExpression:
		sb.WriteString("(typeof ")
		canon(sb, vals, n.Expression)
		sb.WriteByte(')')
	case *formula.BinaryExpression:
		sb.WriteString("(bin " + opText(n.Operator) + " ")
		canon(sb, vals, n.Left)
		sb.WriteByte(' ')
		canon(sb, vals, n.Right)
		sb.WriteByte(')')
	case *formula.ConditionalExpression:
		sb.WriteString("(cond ")
		canon(sb, vals, n.Condition)
		sb.WriteByte(' ')
		canon(sb, vals, n.WhenTrue)
		sb.WriteByte(' ')
		canon(sb, vals, n.WhenFalse)
		sb.WriteByte(')')
	case *formula.SelectorExpression:
		op := "."
		if n.Assert {
			op = "!."
		}
		name := "<nil>"
		if n.Name != nil {
			name = n.Name.Value
		}
		sb.WriteString("(sel " + op + " " + name + " ")
		canon(sb, vals, n.Expression)
		sb.WriteByte(')')
	case *formula.CallExpression:
		sb.WriteString("(call")
		if n.DotDotDotToken != nil {
			sb.WriteString(" ...")
		}
		sb.WriteByte(' ')
		canon(sb, vals, n.Expression)
		if n.Arguments == nil {
			sb.WriteString(" <nilargs>")
		} else {
			for i := 0; i < n.Arguments.Len(); i++ {
				sb.WriteByte(' ')
				canon(sb, vals, n.Arguments.At(i))
			}
		}
		sb.WriteByte(')')
	case *formula.ArrayLiteralExpression:
		sb.WriteString("(arr")
		if n.Elements == nil {
			sb.WriteString(" <nilelems>")
		} else {
			for i := 0; i < n.Elements.Len(); i++ {
				sb.WriteByte(' ')
				canon(sb, vals, n.Elements.At(i))
			}
		}
		sb.WriteByte(')')
	case *formula.ParenthesizedExpression:
		sb.WriteString("(paren ")
		canon(sb, vals, n.Expression)
		sb.WriteByte(')')
	default:
		fmt.Fprintf(sb, "<%T>", e)
	}
}

// Child is one syntactic child of a node, in source order.
type Child struct {
	Role string
	Node formula.Node // expression, token node or identifier; may be nil
	List formula.List // argument / element list (then Node is nil)
}

// Children lists the children of a node in source order, including operator tokens.
func Children(e formula.Node) []Child {
	switch n := e.(type) {
	case *formula.PrefixUnaryExpression:
		return []Child{{"operator", tn(n.Operator), nil}, {"operand", n.Operand, nil}}
	case *formula.TypeOfExpression:
		return []Child{{"operand", n.Expression, nil}}
	case *formula.BinaryExpression:
		return []Child{{"left", n.Left, nil}, {"operator", tn(n.Operator), nil}, {"right", n.Right, nil}}
	case *formula.ConditionalExpression:
		return []Child{{"condition", n.Condition, nil}, {"question", tn(n.QuestionTok), nil}, {"whenTrue", n.WhenTrue, nil}, {"colon", tn(n.ColonTok), nil}, {"whenFalse", n.WhenFalse, nil}}
	case *formula.SelectorExpression:
		var name formula.Node
		if n.Name != nil {
			name = n.Name
		}
		return []Child{{"base", n.Expression, nil}, {"name", name, nil}}
	case *formula.CallExpression:
		c := []Child{{"callee", n.Expression, nil}}
		if n.Arguments != nil {
			c = append(c, Child{"arguments", nil, n.Arguments})
		} else {
			c = append(c, Child{"arguments", nil, nil})
		}
		if n.DotDotDotToken != nil {
			c = append(c, Child{"spread", n.DotDotDotToken, nil})
		}
		return c
	case *formula.ArrayLiteralExpression:
		if n.Elements != nil {
			return []Child{{"elements", nil, n.Elements}}
		}
		return []Child{{"elements", nil, nil}}
	case *formula.ParenthesizedExpression:
		return []Child{{"inner", n.Expression, nil}}
	}
	return nil
}

func tn(t *formula.TokenNode) formula.Node {
	if t == nil {
		return nil
	}
	return t
}

// IsNil reports a nil node of any dynamic type.
func IsNil(n interface{}) bool { return isNilNode(n) }

// Walk visits every expression node of a tree (parents first).
func Walk(e formula.Expression, f func(formula.Expression)) {
	if isNilNode(e) {
		return
	}
	f(e)
	for _, c := range Children(e) {
		if c.List != nil && !isNilNode(c.List) {
			for i := 0; i < c.List.Len(); i++ {
				if x, ok := c.List.NodeAt(i).(formula.Expression); ok {
					Walk(x, f)
				}
			}
			continue
		}
		if c.Role == "name" {
			continue
		}
		if x, ok := c.Node.(formula.Expression); ok && !isNilNode(x) {
			Walk(x, f)
		}
	}
}

// CountNodes counts expression nodes.
func CountNodes(e formula.Expression) int {
	n := 0
	Walk(e, func(formula.Expression) { n++ })
	return n
}

// FullDump renders everything reachable from a value through reflection,
// including unexported fields (ids, parents, ranges); used for before/after
// comparison of trees. Cycles are cut by pointer identity.
func FullDump(v interface{}) string {
	var sb strings.Builder
	seen := map[uintptr]int{}
	fullDump(&sb, reflect.ValueOf(v), seen, 0)
	return sb.String()
}

func fullDump(sb *strings.Builder, v reflect.Value, seen map[uintptr]int, depth int) {
	if !v.IsValid() {
		sb.WriteString("nil")
		return
	}
	switch v.Kind() {
	case reflect.Ptr:
		if v.IsNil() {
			sb.WriteString("nil")
			return
		}
		p := v.Pointer()
		if id, ok := seen[p]; ok {
			fmt.Fprintf(sb, "^%d", id)
			return
		}
		seen[p] = len(seen)
		fmt.Fprintf(sb, "&%d", seen[p])
		fullDump(sb, v.Elem(), seen, depth+1)
	case reflect.Interface:
		if v.IsNil() {
			sb.WriteString("nil")
			return
		}
		fullDump(sb, v.Elem(), seen, depth+1)
	case reflect.Struct:
		sb.WriteString(v.Type().Name())
		sb.WriteByte('{')
		for i := 0; i < v.NumField(); i++ {
			if i > 0 {
				sb.WriteByte(' ')
			}
			sb.WriteString(v.Type().Field(i).Name)
			sb.WriteByte(':')
			fullDump(sb, v.Field(i), seen, depth+1)
		}
		sb.WriteByte('}')
	case reflect.Slice:
		if v.Type().Elem().Kind() == reflect.Uint8 {
			fmt.Fprintf(sb, "bytes(%d:%x)", v.Len(), hashBytes(v.Bytes()))
			return
		}
		if v.IsNil() {
			sb.WriteString("nilslice")
			return
		}
		sb.WriteByte('[')
		for i := 0; i < v.Len(); i++ {
			if i > 0 {
				sb.WriteByte(' ')
			}
			fullDump(sb, v.Index(i), seen, depth+1)
		}
		sb.WriteByte(']')
	case reflect.String:
		fmt.Fprintf(sb, "%q", v.String())
	case reflect.Int, reflect.Int8, reflect.Int16, reflect.Int32, reflect.Int64:
		fmt.Fprintf(sb, "%d", v.Int())
	case reflect.Bool:
		fmt.Fprintf(sb, "%v", v.Bool())
	default:
		fmt.Fprintf(sb, "<%s>", v.Kind())
	}
}

func hashBytes(b []byte) uint64 {
	var h uint64 = 14695981039346656037
	for _, c := range b {
		h ^= uint64(c)
		h *= 1099511628211
	}
	return h
}
