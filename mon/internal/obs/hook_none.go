//go:build nohook

package obs

// Built against sources without hook_verif.go: tick based clauses are inconclusive.
func HookAvailable() bool { return false }

func SetHook(h func(site int)) {}
