package obs

// TickCounter counts hook ticks of one call at a time (single goroutine use).
type TickCounter struct {
	Total   int64
	Parse   int64 // sites 1..17: scanner and parser loops / recursive entries
	Resolve int64 // site 20: evaluator node visits
	Limit   int64 // when > 0, panic with Runaway once Parse exceeds it
}

// Runaway is the sentinel panic used to abort a parse that exceeded its step budget.
type Runaway struct{ Ticks int64 }

func (t *TickCounter) Reset(limit int64) { *t = TickCounter{Limit: limit} }

func (t *TickCounter) Hook(site int) {
	t.Total++
	if site == 20 {
		t.Resolve++
		return
	}
	t.Parse++
	if t.Limit > 0 && t.Parse > t.Limit {
		panic(Runaway{t.Parse})
	}
}
