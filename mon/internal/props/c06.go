package props

import (
	"bytes"
	"context"
	"errors"
	"fmt"
	"math"
	"math/big"
	"math/rand"
	"reflect"
	"regexp"
	"strings"
	"time"

	"github.com/aundis/formula"
	"github.com/ericlagergren/decimal"

	"verifmon/internal/core"
	"verifmon/internal/obs"
	"verifmon/internal/ref"
)

var c06 = core.Register(&core.Prop{
	ID:    "C06",
	Title: "One notion of truthiness drives every selection operator",
	Rule: "all condition values (null, typed nil, booleans, numbers incl. 0, -0, 0.0, NaN, infinities, strings incl. '' and '0', arrays, maps, times, functions, structs; as literals and through data) x all branch values for each of ! !! ?: && || ??, " +
		"exhaustively at depth 1 and randomly nested to depth 3; single-branch evaluation observed through recording host calls and local assignments; non-trivial = involves at least one selection operator with a non-boolean operand; distinct by expression",
	Assumptions: []string{
		"eager evaluation of the right operand of && || ?? is not a violation (the statement promises single-branch evaluation for ?: only)",
		"'!x' on strings, arrays, maps, times and functions is unspecified",
		"'handed back unchanged' is decided representation-exactly: decimals keep coefficient and exponent, data containers keep their identity",
	},
	Shards: func(tier string) int { return pickTier(tier, 4, 16) },
	Floors: func(c map[string]int64, tier string) []string {
		var out []string
		for _, k := range []string{"op:not", "op:notnot", "op:cond", "op:and", "op:or", "op:nn", "branch_effect_cases", "identity_checked", "nested_cases", "dead_branch_cases", "same_runner_repeats", "flat_cases", "written_twice_cases", "branch_sequence_cases"} {
			if c[k] == 0 {
				out = append(out, "coverage floor: no "+k)
			}
		}
		return out
	},
})

// leaf operands: text, truthiness, nullness, whether '!' is specified, whether it is a data container
type tLeaf struct {
	Src    string
	Truthy bool
	Null   bool
	NotOK  bool // boolean, number or null: '!x' is specified
	Ident  bool // data container / function / time: identity must be preserved
}

// numbers produced by coercions the statements do not define (unary + / - on strings): their truthiness is
// derived from the value the leaf itself evaluates to (zero and NaN falsy); if the leaf alone is an error the
// case is skipped. Resolved once per process by initDerivedLeaves.
var derivedLeaves = []string{"(+'0')", "(-'0')", "(+'abc')", "(+'7')", "(-'3')", "(+'')", "toFloat('x')", "toFloat('0')", "toInt('0.4')", "(0 * toFloat('5'))", "len('')", "find('a', 'b') + 1"}

var derivedDone = false

func initDerivedLeaves() {
	if derivedDone {
		return
	}
	derivedDone = true
	var log []string
	data := c06Data(&log)
	for _, src := range derivedLeaves {
		v, err, p, _ := resolveIn(data, "["+src+"]")
		if p || err != nil {
			continue
		}
		arr, _ := v.([]interface{})
		if len(arr) != 1 {
			continue
		}
		// a number in whatever Go representation it reached us: zero and NaN are falsy
		var truthy bool
		switch x := arr[0].(type) {
		case *decimal.Big:
			if x == nil {
				continue
			}
			truthy = !x.IsNaN(0) && x.Sign() != 0
		case int:
			truthy = x != 0
		case int64:
			truthy = x != 0
		case float64:
			truthy = x != 0 && x == x
		default:
			continue
		}
		tLeaves = append(tLeaves, tLeaf{src, truthy, false, true, false})
	}
}

var tLeaves = []tLeaf{
	{"null", false, true, true, false}, {"dnilp", false, true, true, false}, {"dnd", false, true, true, false}, {"fnd()", false, true, true, false}, {"fnp()", false, true, true, false}, {"fnm()", false, true, true, false}, {"dnpm.p", false, true, true, false}, {".5", true, false, true, false}, {".0", false, false, true, false}, {"missing", false, true, true, false}, {"dnil", false, true, true, false},
	{"false", false, false, true, false}, {"true", true, false, true, false},
	{"0", false, false, true, false}, {"(0*-1)", false, false, true, false}, {"0.0", false, false, true, false}, {"0e5", false, false, true, false}, {"dz", false, false, true, false},
	{"df0", false, false, true, false}, {"dnegz", false, false, true, false}, {"dnan", false, false, true, false}, {"(0/0)", false, false, true, false},
	{"dinf", true, false, true, false}, {"dninf", true, false, true, false}, {"1", true, false, true, false}, {"-1", true, false, true, false}, {"0.1", true, false, true, false}, {"1e-30", true, false, true, false},
	{"1.50", true, false, true, false}, {"2", true, false, true, false}, {"di7", true, false, true, false},
	{"1e-400", true, false, true, false}, {"(1e-200*1e-200)", true, false, true, false}, {"(0-1e-400)", true, false, true, false}, {"1e400", true, false, true, false}, {"0.000000000000000000000000000000000001", true, false, true, false},
	{"dtiny", true, false, true, false}, {"dbig", true, false, true, false},
	{"''", false, false, false, false}, {"des", false, false, false, false}, {"'0'", true, false, false, false}, {"'a'", true, false, false, false}, {"' '", true, false, false, false}, {"'false'", true, false, false, false}, {"ds", true, false, false, false},
	{"[]", true, false, false, false}, {"[0]", true, false, false, false}, {"darr", true, false, false, true}, {"dearr", true, false, false, true},
	{"dm", true, false, false, true}, {"dem", true, false, false, true}, {"dt", true, false, false, true}, {"dzt", true, false, false, false}, {"fzt()", true, false, false, false}, {"dnow", true, false, false, true}, {"dems", true, false, false, true}, {"dfn", true, false, false, true}, {"dst", true, false, false, false}, {"dpst", true, false, false, true},
}

type tStruct struct{ A int }

func c06Data(log *[]string) map[string]interface{} {
	return map[string]interface{}{
		"dnilp": (*int)(nil), "dnil": nil, "dnd": (*decimal.Big)(nil), "fnd": func() (*decimal.Big, error) { return nil, nil }, "fnp": func() (*tStruct, error) { return nil, nil }, "fnm": func() (*map[string]interface{}, error) { return nil, nil },
		"dnpm": map[string]interface{}{"p": (*tStruct)(nil)}, "dz": 0, "df0": 0.0, "dnegz": math.Copysign(0, -1), "dnan": math.NaN(), "dinf": math.Inf(1), "dninf": math.Inf(-1),
		"dtiny": decimal.New(1, 500), "dbig": decimal.New(7, -500), "di7": int64(7), "des": "", "ds": "str", "darr": []interface{}{1, "x"}, "dearr": []interface{}{}, "dm": map[string]interface{}{"k": 1}, "dem": map[string]interface{}{},
		"dt": time.Unix(1700000000, 0).UTC(), "dzt": time.Time{}, "dnow": time.Now(), "fzt": func() (time.Time, error) { return time.Time{}, nil }, "dems": []string{}, "dfn": func() (int, error) { return 1, nil }, "dst": tStruct{3}, "dpst": &tStruct{4},
		"rec": func(tag string) (string, error) { *log = append(*log, tag); return tag, nil },
	}
}

// TNode is a selection expression.
type TNode struct {
	K    string   `json:"k"` // leaf not notnot cond and or nn
	I    int      `json:"i,omitempty"`
	Kids []*TNode `json:"kids,omitempty"`
	// Flat (on the root): written with the parentheses the grammar requires and no others, tokens set tightly
	// (`a||b??c`, `c?.5:x`): precedence and associativity decide the grouping
	Flat bool `json:"flat,omitempty"`
}

// refTree builds the reference tree of the expression (leaves are parsed by the reference parser).
func (n *TNode) refTree() *ref.Node {
	switch n.K {
	case "leaf":
		pr := ref.Parse([]byte(tLeaves[n.I].Src))
		if pr.Tree == nil {
			return ref.ID("unparsable_leaf")
		}
		return pr.Tree
	case "not":
		return ref.Pre("!", n.Kids[0].refTree())
	case "notnot":
		return ref.Pre("!!", n.Kids[0].refTree())
	case "cond":
		return ref.Cond(n.Kids[0].refTree(), n.Kids[1].refTree(), n.Kids[2].refTree())
	case "and":
		return ref.Bin("&&", n.Kids[0].refTree(), n.Kids[1].refTree())
	case "or":
		return ref.Bin("||", n.Kids[0].refTree(), n.Kids[1].refTree())
	}
	return ref.Bin("??", n.Kids[0].refTree(), n.Kids[1].refTree())
}

func (n *TNode) Src() string {
	if n.Flat {
		return ref.Print(n.refTree())
	}
	switch n.K {
	case "leaf":
		return tLeaves[n.I].Src
	case "not":
		return "!(" + n.Kids[0].Src() + ")"
	case "notnot":
		return "!!(" + n.Kids[0].Src() + ")"
	case "cond":
		return "((" + n.Kids[0].Src() + ") ? (" + n.Kids[1].Src() + ") : (" + n.Kids[2].Src() + "))"
	case "and":
		return "((" + n.Kids[0].Src() + ") && (" + n.Kids[1].Src() + "))"
	case "or":
		return "((" + n.Kids[0].Src() + ") || (" + n.Kids[1].Src() + "))"
	case "nn":
		return "((" + n.Kids[0].Src() + ") ?? (" + n.Kids[1].Src() + "))"
	}
	return "?"
}

// model value: either a leaf index or a boolean
type tVal struct {
	Leaf  int
	IsB   bool
	B     bool
	Unspe bool
}

func (v tVal) truthy() bool {
	if v.IsB {
		return v.B
	}
	return tLeaves[v.Leaf].Truthy
}
func (v tVal) null() bool { return !v.IsB && tLeaves[v.Leaf].Null }

func (n *TNode) model() tVal {
	switch n.K {
	case "leaf":
		return tVal{Leaf: n.I}
	case "not", "notnot":
		x := n.Kids[0].model()
		if x.Unspe {
			return x
		}
		if n.K == "not" && !x.IsB && !tLeaves[x.Leaf].NotOK {
			return tVal{Unspe: true}
		}
		if n.K == "not" {
			return tVal{IsB: true, B: !x.truthy()}
		}
		return tVal{IsB: true, B: x.truthy()}
	case "cond":
		c := n.Kids[0].model()
		if c.Unspe {
			return c
		}
		if c.truthy() {
			return n.Kids[1].model()
		}
		return n.Kids[2].model()
	default:
		a := n.Kids[0].model()
		if a.Unspe {
			return a
		}
		b := n.Kids[1].model()
		// both operands are evaluated by an eager implementation; an unspecified right operand may error
		if b.Unspe {
			return b
		}
		switch n.K {
		case "and":
			if a.truthy() {
				return b
			}
			return a
		case "or":
			if a.truthy() {
				return a
			}
			return b
		default: // nn
			if a.null() {
				return b
			}
			return a
		}
	}
}

func (n *TNode) ops(f func(string)) {
	if n.K != "leaf" {
		f(n.K)
	}
	for _, k := range n.Kids {
		k.ops(f)
	}
}

func resolveIn(data map[string]interface{}, src string) (interface{}, error, bool, interface{}) {
	sc, err := hostParse([]byte(src), true)
	if err != nil {
		return nil, fmt.Errorf("parse: %w", err), false, nil
	}
	r := formula.NewRunner()
	r.SetThis(data)
	var v interface{}
	var rerr error
	ctx, release := hostCtx(src)
	defer release()
	p, pv := core.Call(func() { v, rerr = r.Resolve(ctx, sc.Expression) })
	if !p && rerr == nil {
		if e2 := secondEvaluationOn(r, sc, src, ctx, data, outcome(v, nil, false, nil)); e2 != nil {
			return nil, e2, false, nil
		}
	}
	return v, rerr, p, pv
}

// resolveInOnce evaluates exactly once (for formulas whose host calls have effects).
func resolveInOnce(data map[string]interface{}, src string) (interface{}, error, bool, interface{}) {
	sc, err := hostParse([]byte(src), true)
	if err != nil {
		return nil, fmt.Errorf("parse: %w", err), false, nil
	}
	r := formula.NewRunner()
	r.SetThis(data)
	var v interface{}
	var rerr error
	ctx, release := hostCtx(src)
	defer release()
	p, pv := core.Call(func() { v, rerr = r.Resolve(ctx, sc.Expression) })
	return v, rerr, p, pv
}

func samePointer(a, b interface{}) bool {
	va, vb := reflect.ValueOf(a), reflect.ValueOf(b)
	if !va.IsValid() || !vb.IsValid() || va.Kind() != vb.Kind() {
		return false
	}
	switch va.Kind() {
	case reflect.Map, reflect.Ptr, reflect.Func:
		return va.Pointer() == vb.Pointer()
	case reflect.Slice:
		return va.Pointer() == vb.Pointer() && va.Len() == vb.Len()
	}
	return reflect.DeepEqual(a, b)
}

var c06Select = core.Mon(c06, "selection", func(w *core.W, n *TNode) {
	initDerivedLeaves()
	w.Eval(1)
	m := n.model()
	src := n.Src()
	if m.Unspe {
		w.Skip("not-on-unspecified-kind")
		return
	}
	var log []string
	data := c06Data(&log)
	v, err, panicked, pv := resolveIn(data, "["+src+"]")
	if panicked || err != nil {
		w.Violation("selection", "C06/error", n, "a value", fmt.Sprint(pv, err), src)
		return
	}
	arr, ok := v.([]interface{})
	if !ok || len(arr) != 1 {
		w.Violation("selection", "C06/shape", n, "one element", show(v), src)
		return
	}
	got := arr[0]
	nonBool := false
	n.ops(func(k string) {
		w.Count("op:" + k)
		if k != "not" && k != "notnot" {
			nonBool = true
		}
	})
	if nonBool || n.K != "leaf" {
		w.Nontrivial(src)
	}
	sig := "C06/" + n.K
	if m.IsB {
		if got != m.B {
			w.Violation("selection", sig, n, m.B, show(got), fmt.Sprintf("%s must be %v", src, m.B))
		}
		return
	}
	leaf := tLeaves[m.Leaf]
	ev, eerr, ep, epv := resolveIn(data, "["+leaf.Src+"]")
	if ep || eerr != nil {
		w.Violation("selection", "C06/leaf-error", n, "a value", fmt.Sprint(epv, eerr), leaf.Src)
		return
	}
	want := ev.([]interface{})[0]
	if orig, fromData := data[leaf.Src]; fromData && leaf.Ident {
		want = orig // the caller's own value (a time with its monotonic reading, a container with its identity)
	}
	if leaf.Ident {
		w.Count("identity_checked")
		if !samePointer(got, want) {
			w.Violation("selection", sig+":identity", n, fmt.Sprintf("the very value of %s", leaf.Src), show(got), fmt.Sprintf("%s must hand back operand %s itself", src, leaf.Src))
		}
		return
	}
	if gs, ws := obs.SnapshotValues(got), obs.SnapshotValues(want); gs != ws {
		w.Violation("selection", sig+":value", n, leaf.Src+" = "+show(want), show(got), fmt.Sprintf("%s must yield operand %s unchanged (representation %s vs %s)", src, leaf.Src, clipS(ws, 200), clipS(gs, 200)))
	}
})

// EffectCase: a conditional tree whose leaves are tagged effects; exactly the selected leaf may leave a trace.
type EffectCase struct {
	Conds  []int  `json:"conds"` // leaf indexes used as conditions, pre-order
	Shape  string `json:"shape"` // "c(L,L)", "c(c(L,L),L)", "c(L,c(L,L))", "c(c(L,L),c(L,L))"
	Effect string `json:"effect"`
	// Pre: every conditional standing as a branch is the last element of a parenthesised sequence whose earlier elements
	// leave traces of their own ("seq": `(rec('p'), $p = 3, c ? a : b)`, "seqp": the conditional parenthesised once more);
	// those traces appear exactly for the conditionals on the selected path
	Pre string `json:"pre,omitempty"`
}

func (c *EffectCase) build() (src string, selected string, all []string) {
	src, sel, all := c.buildPath()
	return src, sel[0], all
}

// buildPath: the source, the tags expected to leave a trace (the selected leaf first, then the prefixes on the selected
// path) and all tags.
func (c *EffectCase) buildPath() (src string, selected []string, all []string) {
	ci := 0
	tag := 0
	pre := 0
	var rec func(shape string, branch bool) (string, []string)
	rec = func(shape string, branch bool) (string, []string) {
		if shape == "L" {
			t := fmt.Sprintf("t%d", tag)
			tag++
			all = append(all, t)
			switch c.Effect {
			case "call":
				return "rec('" + t + "')", []string{t}
			case "assign":
				return "($" + t + " = 1)", []string{t}
			default:
				return "(rec('" + t + "'), $" + t + " = 2)", []string{t}
			}
		}
		// shape = c(X,Y)
		inner := shape[2 : len(shape)-1]
		depth, split := 0, -1
		for i, ch := range inner {
			switch ch {
			case '(':
				depth++
			case ')':
				depth--
			case ',':
				if depth == 0 && split < 0 {
					split = i
				}
			}
		}
		cond := tLeaves[c.Conds[ci%len(c.Conds)]]
		ci++
		var ptag string
		if branch && c.Pre != "" {
			ptag = fmt.Sprintf("p%d", pre)
			pre++
			all = append(all, ptag)
		}
		a, ta := rec(inner[:split], true)
		b, tb := rec(inner[split+1:], true)
		sel := tb
		if cond.Truthy {
			sel = ta
		}
		s := "(" + cond.Src + ") ? " + a + " : " + b
		if ptag != "" {
			if c.Pre == "seqp" {
				s = "(" + s + ")"
			}
			return "(rec('" + ptag + "'), $" + ptag + " = 3, " + s + ")", append(append([]string{}, sel...), ptag)
		}
		return "(" + s + ")", sel
	}
	src, selected = rec(c.Shape, false)
	return
}

var c06Effects = core.Mon(c06, "single-branch", func(w *core.W, c *EffectCase) {
	initDerivedLeaves()
	w.Eval(1)
	src, selPath, all := c.buildPath()
	sel := selPath[0]
	if c.Pre != "" {
		c06EffectsPath(w, c, src, selPath, all)
		return
	}
	var log []string
	data := c06Data(&log)
	_, err, panicked, pv := resolveIn(data, src)
	if panicked || err != nil {
		w.Violation("single-branch", "C06/effect-error", c, "a value", fmt.Sprint(pv, err), src)
		return
	}
	w.Count("branch_effect_cases")
	w.Nontrivial("effect:" + src)
	var traces []string
	traces = append(traces, log...)
	for _, t := range all {
		if _, ok := data["$"+t]; ok {
			traces = append(traces, "$"+t)
		}
	}
	for _, t := range traces {
		if strings.TrimPrefix(t, "$") != sel {
			w.Violation("single-branch", "C06/unselected-branch-evaluated", c, "only branch "+sel+" leaves a trace", traces, src)
			return
		}
	}
	if len(traces) == 0 {
		w.Violation("single-branch", "C06/selected-branch-not-evaluated", c, "branch "+sel+" evaluated", traces, src)
	}
})

// c06EffectsPath: the traces left are exactly those of the selected leaf and of the sequences on the way to it.
func c06EffectsPath(w *core.W, c *EffectCase, src string, selPath, all []string) {
	var log []string
	data := c06Data(&log)
	_, err, panicked, pv := resolveInOnce(data, src)
	if panicked || err != nil {
		w.Violation("single-branch", "C06/effect-error", c, "a value", fmt.Sprint(pv, err), src)
		return
	}
	w.Count("branch_effect_cases")
	w.Count("branch_sequence_cases")
	w.Nontrivial("effect:" + src)
	want := map[string]bool{}
	for _, t := range selPath {
		want[t] = true
	}
	called, bound := map[string]int{}, map[string]bool{}
	for _, t := range log {
		called[t]++
	}
	for _, t := range all {
		if _, ok := data["$"+t]; ok {
			bound[t] = true
		}
	}
	for _, t := range all {
		isPre := strings.HasPrefix(t, "p")
		wantCall := want[t] && (isPre || c.Effect != "assign")
		wantBind := want[t] && (isPre || c.Effect != "call")
		nc := 0
		if wantCall {
			nc = 1
		}
		if called[t] != nc || bound[t] != wantBind {
			what := "C06/unselected-branch-evaluated"
			if want[t] {
				what = "C06/selected-branch-not-evaluated"
			}
			w.Violation("single-branch", what, c, fmt.Sprintf("traces of exactly %v (each once)", selPath), fmt.Sprintf("calls %v, locals bound %v", log, setOf(bound)),
				src+": a selected branch that is a sequence is evaluated element by element, an unselected one not at all")
			return
		}
	}
}

// TwiceCase: the condition and the selected branch are spelled alike but are two evaluations: an impure call standing in
// both places runs twice, and the value of the conditional is what the SECOND run returned.
type TwiceCase struct {
	Src     string `json:"src"`
	WantLog string `json:"want_log"`
	Want    string `json:"want"`
}

var twiceCases = []TwiceCase{
	{"next() ? next() : 0", "", "2"}, {"next() ? next() : next()", "", "2"}, {"rec('c') ? rec('c') : rec('e')", "c c", "\"c\""}, {"(rec('c')) ? rec('c') : 0", "c c", "\"c\""},
	{"[next(), next(), next()]", "", "[1, 2, 3]"}, {"next() + next() * 10", "", "21"}, {"next() == next()", "", "false"}, {"next() ? [next(), next()] : 0", "", "[2, 3]"},
	{"bump(1) ? bump(1) : bump(1)", "", "2"}, {"!next() ? next() : next() + 10", "", "12"}, {"rec('') ? rec('') : rec('e')", " e", "\"e\""}, {"(next(), next()) ? next() : 0", "", "3"},
	{"m.f() ? m.f() : 0", "", "2"}, {"next() ? (next() ? next() : 0) : 0", "", "3"},
	// a selection standing where its value is dropped (a non-last operand of a sequence) still evaluates its selected operand, and only that
	{"(1 ? rec('a') : rec('b')), rec('z')", "a z", "\"z\""}, {"(0 ? rec('a') : rec('b')), rec('z')", "b z", "\"z\""}, {"(1 ? ($x = 5) : ($x = 7)), $x", "", "5"}, {"(0 ? ($x = 5) : ($x = 7)), $x", "", "7"},
	{"(1 && rec('a')), rec('z')", "a z", "\"z\""}, {"(0 || rec('b')), rec('z')", "b z", "\"z\""}, {"(null ?? rec('n')), rec('z')", "n z", "\"z\""},
	{"(1 ? next() : 0), (1 ? next() : 0), next()", "", "3"}, {"(1 ? (1 ? rec('i') : 0) : 0), (0 ? 0 : rec('j')), 9", "i j", "9"},
	{"(1 ? [rec('l')] : 0), 2", "l", "2"}, {"(1 ? -next() : 0), next()", "", "2"}, {"(1 ? typeof rec('q') : 0), 3", "q", "3"},
}

var c06Twice = core.Mon(c06, "evaluated-as-often-as-written", func(w *core.W, c *TwiceCase) {
	var log []string
	data := c06Data(&log)
	n := 0
	counter := func() (int, error) { n++; return n, nil }
	data["next"] = counter
	data["bump"] = func(by int) (int, error) { n += by; return n, nil }
	data["m"] = map[string]interface{}{"f": counter}
	v, err, panicked, pv := resolveInOnce(data, c.Src)
	w.Eval(1)
	w.Count("written_twice_cases")
	w.Nontrivial("twice:" + c.Src)
	if panicked || err != nil {
		w.Violation("evaluated-as-often-as-written", "C06/error", c, c.Want, fmt.Sprint(pv, err), c.Src)
		return
	}
	if got := renderPlain(v); got != c.Want || (c.WantLog != "" && strings.Join(log, " ") != c.WantLog) {
		w.Violation("evaluated-as-often-as-written", "C06/subexpression-not-evaluated-where-written", c, c.Want+" log ["+c.WantLog+"]", got+" log ["+strings.Join(log, " ")+"]",
			c.Src+": every written occurrence of a call is an evaluation of its own; the conditional yields its selected branch's value")
	}
})

// DeadBranchCase: the unselected branch would fail if it were evaluated (or even inspected).
type DeadBranchCase struct {
	Cond int    `json:"cond"` // leaf index
	Live int    `json:"live"` // leaf index of the selected branch
	Dead string `json:"dead"` // source of the unselected branch
}

var deadBranches = []string{"missingfn(1)", "missing.fn(2)", "null!.k", "abs('x')", "abs()", "a = 1", "[1] == [1]", "dm == dm", "left('abc', -1)", "regexp('a', '(')", "dst.Nope", "dfn(1, 2)", "1()", "rec()", "(missingfn(1), 2)", "[missingfn(1)]", "-missingfn(1)", "true ? missingfn(1) : 0"}

var c06Dead = core.Mon(c06, "dead-branch", func(w *core.W, c *DeadBranchCase) {
	initDerivedLeaves()
	w.Eval(1)
	cond, live := tLeaves[c.Cond], tLeaves[c.Live]
	var src string
	if cond.Truthy {
		src = "(" + cond.Src + ") ? (" + live.Src + ") : (" + c.Dead + ")"
	} else {
		src = "(" + cond.Src + ") ? (" + c.Dead + ") : (" + live.Src + ")"
	}
	var log []string
	data := c06Data(&log)
	v, err, panicked, pv := resolveIn(data, "["+src+"]")
	w.Count("dead_branch_cases")
	w.Nontrivial("dead:" + src)
	if panicked || err != nil {
		w.Violation("dead-branch", "C06/unselected-branch-evaluated", c, "the value of the selected branch "+live.Src, fmt.Sprint(pv, err), "only the selected branch may be evaluated: "+src)
		return
	}
	ev, _, _, _ := resolveIn(data, "["+live.Src+"]")
	if obs.SnapshotValues(v) != obs.SnapshotValues(ev) && !live.Ident {
		w.Violation("dead-branch", "C06/cond:value", c, show(ev), show(v), src)
	}
})

// RepeatCase: one parsed formula whose condition is a host call, evaluated several times on ONE runner while
// the call's result changes from evaluation to evaluation.
type RepeatCase struct {
	Form   string `json:"form"`   // cond and or nn not notnot
	Script []int  `json:"script"` // leaf indexes the call returns, one per evaluation
}

var c06Repeat = core.Mon(c06, "same-runner-repeat", func(w *core.W, c *RepeatCase) {
	initDerivedLeaves()
	var log []string
	data := c06Data(&log)
	step := 0
	var vals []interface{}
	for _, li := range c.Script {
		v, err, p, _ := resolveIn(data, "["+tLeaves[li].Src+"]")
		if p || err != nil {
			w.Skip("leaf-not-evaluable")
			return
		}
		vals = append(vals, v.([]interface{})[0])
	}
	data["flag"] = func() (interface{}, error) {
		v := vals[step%len(vals)]
		return v, nil
	}
	src := map[string]string{"cond": "flag() ? 'yes' : 'no'", "and": "flag() && 'rhs'", "or": "flag() || 'rhs'", "nn": "flag() ?? 'rhs'", "not": "!flag()", "notnot": "!!flag()", "condcall": "(flag() ? 1 : 0) + (flag() ? 10 : 20)"}[c.Form]
	sc, err := hostParse([]byte(src), true)
	if err != nil {
		return
	}
	r := formula.NewRunner()
	r.SetThis(data)
	for step = 0; step < len(c.Script); step++ {
		leaf := tLeaves[c.Script[step]]
		var v interface{}
		var rerr error
		w.Eval(1)
		p, pv := core.Call(func() { v, rerr = r.Resolve(context.Background(), sc.Expression) })
		w.Count("same_runner_repeats")
		var want interface{}
		switch c.Form {
		case "cond":
			want = map[bool]string{true: "yes", false: "no"}[leaf.Truthy]
		case "and":
			if leaf.Truthy {
				want = "rhs"
			} else {
				want = nil // the operand itself; compared below
			}
		case "or":
			if !leaf.Truthy {
				want = "rhs"
			}
		case "nn":
			if leaf.Null {
				want = "rhs"
			}
		case "not":
			if !leaf.NotOK {
				continue
			}
			want = !leaf.Truthy
		case "notnot":
			want = leaf.Truthy
		case "condcall":
			want = map[bool]float64{true: 11, false: 20}[leaf.Truthy]
		}
		if p || rerr != nil {
			w.Violation("same-runner-repeat", "C06/repeat-error", c, want, fmt.Sprint(pv, rerr), fmt.Sprintf("evaluation %d of %q on one runner with flag() = %s", step+1, src, leaf.Src))
			return
		}
		if want != nil && v != want {
			w.Violation("same-runner-repeat", "C06/stale-selection", c, want, show(v), fmt.Sprintf("evaluation %d of %q on one runner: flag() now returns %s", step+1, src, leaf.Src))
			return
		}
	}
	w.Nontrivial(fmt.Sprint("repeat", c.Form, c.Script))
})

func randTNode(r *rand.Rand, depth int) *TNode {
	if depth == 0 || r.Intn(4) == 0 {
		return &TNode{K: "leaf", I: r.Intn(len(tLeaves))}
	}
	switch r.Intn(7) {
	case 0:
		return &TNode{K: "not", Kids: []*TNode{randTNode(r, depth-1)}}
	case 1:
		return &TNode{K: "notnot", Kids: []*TNode{randTNode(r, depth-1)}}
	case 2, 3:
		return &TNode{K: "cond", Kids: []*TNode{randTNode(r, depth-1), randTNode(r, depth-1), randTNode(r, depth-1)}}
	case 4:
		return &TNode{K: "and", Kids: []*TNode{randTNode(r, depth-1), randTNode(r, depth-1)}}
	case 5:
		return &TNode{K: "or", Kids: []*TNode{randTNode(r, depth-1), randTNode(r, depth-1)}}
	default:
		return &TNode{K: "nn", Kids: []*TNode{randTNode(r, depth-1), randTNode(r, depth-1)}}
	}
}

func init() { c06.Run = runC06 }

func runC06(w *core.W) {
	for i, n := range hostObjectNames {
		if w.Mine(i) {
			c06HostObj(w, &HostObjCase{Name: n})
		}
	}
	initDerivedLeaves()
	leaf := func(i int) *TNode { return &TNode{K: "leaf", I: i} }
	idx := 0
	// depth 1, exhaustive
	for i := range tLeaves {
		for _, k := range []string{"not", "notnot"} {
			idx++
			if w.Mine(idx) {
				c06Select(w, &TNode{K: k, Kids: []*TNode{leaf(i)}})
			}
		}
		for j := range tLeaves {
			for _, k := range []string{"and", "or", "nn"} {
				idx++
				if w.Mine(idx) {
					n := &TNode{K: k, Kids: []*TNode{leaf(i), leaf(j)}}
					c06Select(w, n)
					if idx%701 == 0 {
						w.Sample("depth1", n.Src())
					}
				}
			}
			// conditional: every condition x every pair of (a, b) with b a rotating other leaf
			idx++
			if w.Mine(idx) {
				c06Select(w, &TNode{K: "cond", Kids: []*TNode{leaf(i), leaf(j), leaf((j + 7) % len(tLeaves))}})
				c06Select(w, &TNode{K: "cond", Kids: []*TNode{leaf(i), leaf((j + 11) % len(tLeaves)), leaf(j)}})
			}
		}
	}
	w.ExhaustivePart(fmt.Sprintf("every operator on every (pair of) the %d operand values at depth 1", len(tLeaves)))
	// every unparenthesised chain of two selection operators over a representative of each truthiness class
	reps := []int{}
	for i, l := range tLeaves {
		switch l.Src {
		case "null", "false", "0", "''", "1", "'a'", "dnan", "true", ".5", "dnilp":
			reps = append(reps, i)
		}
	}
	for _, a := range reps {
		for _, b := range reps {
			for _, c := range reps {
				for _, k1 := range []string{"and", "or", "nn"} {
					for _, k2 := range []string{"and", "or", "nn"} {
						idx++
						if !w.Mine(idx) {
							continue
						}
						// left-nested and right-nested trees print as the same flat text only for the grouping the grammar gives it
						c06Select(w, &TNode{K: k2, Kids: []*TNode{{K: k1, Kids: []*TNode{leaf(a), leaf(b)}}, leaf(c)}, Flat: true})
						c06Select(w, &TNode{K: k1, Kids: []*TNode{leaf(a), {K: k2, Kids: []*TNode{leaf(b), leaf(c)}}}, Flat: true})
						w.Count("flat_cases")
					}
				}
				idx++
				if w.Mine(idx) {
					c06Select(w, &TNode{K: "cond", Kids: []*TNode{leaf(a), leaf(b), leaf(c)}, Flat: true})
					c06Select(w, &TNode{K: "cond", Kids: []*TNode{{K: "or", Kids: []*TNode{leaf(a), leaf(b)}}, leaf(c), {K: "nn", Kids: []*TNode{leaf(b), leaf(a)}}}, Flat: true})
				}
			}
		}
	}
	// nested
	r := w.RNG("nested")
	for i, n := 0, w.Pick(48000, 600000); i < n; i++ {
		t := randTNode(r, 2+r.Intn(2))
		if i%2 == 1 {
			t.Flat = true
			w.Count("flat_cases")
		}
		c06Select(w, t)
		w.Count("nested_cases")
		if i%1501 == 0 {
			w.Sample("nested", t.Src())
		}
	}
	for i := range twiceCases {
		if w.Mine(i) {
			c06Twice(w, &twiceCases[i])
		}
	}
	// the unselected branch may be anything, even something that cannot be evaluated
	for i := range tLeaves {
		for j, d := range deadBranches {
			idx++
			if w.Mine(idx) {
				c06Dead(w, &DeadBranchCase{Cond: i, Live: (i*7 + j) % len(tLeaves), Dead: d})
			}
		}
	}
	// the same parsed formula on one runner while the condition's value changes
	rr := w.RNG("repeat")
	for i, n := 0, w.Pick(3000, 40000); i < n; i++ {
		c := &RepeatCase{Form: []string{"cond", "and", "or", "nn", "not", "notnot", "condcall"}[i%7]}
		for k := 2 + rr.Intn(4); k > 0; k-- {
			c.Script = append(c.Script, rr.Intn(len(tLeaves)))
		}
		c06Repeat(w, c)
	}
	// single-branch evaluation
	shapes := []string{"c(L,L)", "c(c(L,L),L)", "c(L,c(L,L))", "c(c(L,L),c(L,L))"}
	for i := range tLeaves {
		for j := range tLeaves {
			for k := 0; k < 3; k++ {
				idx++
				if !w.Mine(idx) {
					continue
				}
				for _, sh := range shapes {
					for _, eff := range []string{"call", "assign", "both"} {
						c06Effects(w, &EffectCase{Conds: []int{i, j, (i + j + k) % len(tLeaves)}, Shape: sh, Effect: eff})
						if sh != "c(L,L)" && k == 0 {
							c06Effects(w, &EffectCase{Conds: []int{i, j, (i + j + k) % len(tLeaves)}, Shape: sh, Effect: eff, Pre: []string{"seq", "seqp"}[(i+j)%2]})
						}
					}
				}
			}
		}
	}
}

// HostObjCase: host values that are not null, false, a number or text - whatever methods their Go types carry
// (String() returning "", Error(), IsZero(), Len() == 0 ...) - are truthy, and the selections hand them back unchanged.
type HostObjCase struct {
	Name string `json:"name"`
}

type quietStringer struct{ N int }

func (quietStringer) String() string { return "" }

type zeroLen struct{}

func (zeroLen) Len() int      { return 0 }
func (zeroLen) IsZero() bool  { return true }
func (zeroLen) Error() string { return "" }

type falseText struct{}

func (falseText) String() string               { return "false" }
func (falseText) MarshalText() ([]byte, error) { return []byte("0"), nil }

func hostObjects() map[string]interface{} {
	return map[string]interface{}{
		"buf": new(bytes.Buffer), "sb": &strings.Builder{}, "qs": quietStringer{}, "pqs": &quietStringer{}, "zl": zeroLen{}, "pzl": &zeroLen{}, "err0": errors.New(""), "ft": falseText{},
		"dur0": time.Duration(0), "loc": time.UTC, "emptyStruct": struct{}{}, "ch": make(chan int), "month0": time.Month(0), "rat0": new(big.Rat), "bigint0": new(big.Int), "rx": regexp.MustCompile(""),
	}
}

var hostObjectNames = []string{"buf", "sb", "qs", "pqs", "zl", "pzl", "err0", "ft", "loc", "emptyStruct", "ch", "rat0", "bigint0", "rx"}

var c06HostObj = core.Mon(c06, "host-objects-are-truthy", func(w *core.W, c *HostObjCase) {
	data := hostObjects()
	x := c.Name
	w.Count("host_object_cases")
	w.Nontrivial("hostobj:" + x)
	src := "[!!" + x + ", " + x + " ? 'T' : 'F', " + x + " || 'D', " + x + " && 'D', " + x + " ?? 'D', (" + x + " ? " + x + " : 0), !!o." + x + ", o." + x + " ? 'T' : 'F', " + x + " == null, [" + x + "]]"
	data["o"] = map[string]interface{}{x: data[x]}
	v, err, panicked, pv := resolveIn(data, src)
	w.Eval(1)
	if panicked || err != nil {
		w.Violation("host-objects-are-truthy", "C06/error", c, "ten values", fmt.Sprint(pv, err), src)
		return
	}
	arr, _ := v.([]interface{})
	if len(arr) != 10 {
		w.Violation("host-objects-are-truthy", "C06/error", c, "ten values", show(v), src)
		return
	}
	same := func(got interface{}) bool { return obs.Snapshot(got) == obs.Snapshot(data[x]) }
	inner, _ := arr[9].([]interface{})
	ok := arr[0] == true && arr[1] == "T" && same(arr[2]) && arr[3] == "D" && same(arr[4]) && same(arr[5]) && arr[6] == true && arr[7] == "T" && arr[8] == false && len(inner) == 1 && same(inner[0])
	if !ok {
		w.Violation("host-objects-are-truthy", "C06/host-object-not-truthy-or-not-handed-back", c, "[true, T, x, D, x, x, true, T, false, [x]]", clipS(show(v), 300),
			fmt.Sprintf("%s with %s = %T: a value that is not null, false, a number or text is truthy and is handed back unchanged", src, x, data[x]))
	}
})
