package props

import (
	"bytes"
	"fmt"
	"sync"

	"github.com/aundis/formula"

	"verifmon/internal/core"
)

// hostParse parses text the way a host with one long-lived, reused text buffer does: the text
// sits in the middle of a larger buffer with live bytes in front of it and behind it (the slice
// handed to the parser has spare capacity that holds those live bytes). Parsing is an
// observation: it must leave every byte of that buffer as it was - within the text (a second
// parse of the same slice must see the same text) and outside it. With detach the host then
// re-uses the buffer for something else before the tree is evaluated, analysed or dumped: a tree
// stands on its own once ParseSourceCode has returned (only the line/column helpers, which are
// documented to work on SourceCode.Text, are allowed to look at the text again; monitors that
// use them pass detach=false).
//
// A write into the buffer is noted and reported by the PostCase observer as a violation of the
// property whose monitor parsed (the case that parsed replays it).
const hostPre, hostPost = 24, 40

var hostCanary = []byte("9_9e+1\\u0041'\"$q.k)]}\n,/*")

var tamper struct {
	sync.Mutex
	note string
}

func hostParse(text []byte, detach bool) (*formula.SourceCode, error) {
	n := len(text)
	big := make([]byte, hostPre+n+hostPost)
	for i := 0; i < hostPre; i++ {
		big[i] = hostCanary[i%len(hostCanary)]
	}
	for i := 0; i < hostPost; i++ {
		big[hostPre+n+i] = hostCanary[(i+3)%len(hostCanary)]
	}
	copy(big[hostPre:], text)
	buf := big[hostPre : hostPre+n]
	defer func() {
		var what string
		switch {
		case !bytes.Equal(big[hostPre:hostPre+n], text):
			i := 0
			for big[hostPre+i] == text[i] {
				i++
			}
			what = fmt.Sprintf("byte %d of the %d-byte text handed to ParseSourceCode was %q and is %q afterwards (text now %q)", i, n, text[i], big[hostPre+i], clipS(string(big[hostPre:hostPre+n]), 80))
		default:
			for i := 0; i < hostPre && what == ""; i++ {
				if big[i] != hostCanary[i%len(hostCanary)] {
					what = fmt.Sprintf("the byte %d positions in front of the text handed to ParseSourceCode was overwritten", hostPre-i)
				}
			}
			for i := 0; i < hostPost && what == ""; i++ {
				if big[hostPre+n+i] != hostCanary[(i+3)%len(hostCanary)] {
					what = fmt.Sprintf("byte %d behind the end of the text handed to ParseSourceCode (the caller's live data in the slice's spare capacity) was %q and is %q afterwards", i, hostCanary[(i+3)%len(hostCanary)], big[hostPre+n+i])
				}
			}
		}
		if what != "" {
			tamper.Lock()
			if tamper.note == "" {
				tamper.note = what + fmt.Sprintf("; text %q", clipS(string(text), 100))
			}
			tamper.Unlock()
		}
		if detach {
			// the host fills its buffer with the next text
			for i := range buf {
				buf[i] = "zz9 + 'scribble' * "[i%19]
			}
		}
	}()
	return formula.ParseSourceCode(buf)
}

func init() {
	core.PostCase = func(w *core.W, p *core.Prop, monitor string, c interface{}) {
		tamper.Lock()
		note := tamper.note
		tamper.note = ""
		tamper.Unlock()
		if note != "" {
			w.Violation(monitor, p.ID+"/parse-wrote-into-callers-buffer", c, "the caller's bytes unchanged", "changed", note)
		}
	}
}

// hostileLiteralPool: formulas whose literals the scanner has to rewrite while scanning (escapes, digit
// separators) - the places where working in the caller's buffer would be tempting.
var hostileLiteralPool = []string{
	`'it\'s ' + s0`, `'\t'`, `"caf\u00e9 " + s0`, `'a\\b' + 'c'`, `'\x41\x42' + s1`, `"say \"hi\""`, `'x\ny' + "q\rz"`, `len('\u4e2d\u6587') + n0`, `'\0\b\f\v'`,
	`1_000 + n0`, `1e1_0`, `2.2_5 * 4`, `1_0 + 1`, `0.000_1 + n1`, `1_2_3.4_5e0_1`, `[1_000, 'a\'b', 2_0.5]`, `s0 + '\\' + s1 + '\''`, `'\u0041' == 'A' ? 1_0 : 2_0`,
	`m.name + '\n'`, `fcat('\t', s0, "\"")`, `replace(s0, 'a', '\\')`, `split('a\tb', '\t')`,
}
