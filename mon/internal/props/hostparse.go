package props

import (
	"bytes"
	"fmt"
	"sync"

	"github.com/aundis/formula"

	"verifmon/internal/core"
)

// hostParse parses text the way a host with one long-lived, reused text buffer does: the text
// sits in the middle of a larger buffer with live bytes in front of it and behind it (the slice
// handed to the parser has spare capacity that holds those live bytes). Parsing is an
// observation: it must leave every byte of that buffer as it was - within the text (a second
// parse of the same slice must see the same text) and outside it. With detach the host then
// re-uses the buffer for something else before the tree is evaluated, analysed or dumped: a tree
// stands on its own once ParseSourceCode has returned (only the line/column helpers, which are
// documented to work on SourceCode.Text, are allowed to look at the text again; monitors that
// use them pass detach=false).
//
// A write into the buffer is noted and reported by the PostCase observer as a violation of the
// property whose monitor parsed (the case that parsed replays it).
const hostPre, hostPost = 24, 40

var hostCanary = []byte("9_9e+1\\u0041'\"$q.k)]}\n,/*")

var tamper struct {
	sync.Mutex
	note string
}

func hostParse(text []byte, detach bool) (*formula.SourceCode, error) {
	n := len(text)
	big := make([]byte, hostPre+n+hostPost)
	for i := 0; i < hostPre; i++ {
		big[i] = hostCanary[i%len(hostCanary)]
	}
	for i := 0; i < hostPost; i++ {
		big[hostPre+n+i] = hostCanary[(i+3)%len(hostCanary)]
	}
	copy(big[hostPre:], text)
	buf := big[hostPre : hostPre+n]
	defer func() {
		var what string
		switch {
		case !bytes.Equal(big[hostPre:hostPre+n], text):
			i := 0
			for big[hostPre+i] == text[i] {
				i++
			}
			what = fmt.Sprintf("byte %d of the %d-byte text handed to ParseSourceCode was %q and is %q afterwards (text now %q)", i, n, text[i], big[hostPre+i], clipS(string(big[hostPre:hostPre+n]), 80))
		default:
			for i := 0; i < hostPre && what == ""; i++ {
				if big[i] != hostCanary[i%len(hostCanary)] {
					what = fmt.Sprintf("the byte %d positions in front of the text handed to ParseSourceCode was overwritten", hostPre-i)
				}
			}
			for i := 0; i < hostPost && what == ""; i++ {
				if big[hostPre+n+i] != hostCanary[(i+3)%len(hostCanary)] {
					what = fmt.Sprintf("byte %d behind the end of the text handed to ParseSourceCode (the caller's live data in the slice's spare capacity) was %q and is %q afterwards", i, hostCanary[(i+3)%len(hostCanary)], big[hostPre+n+i])
				}
			}
		}
		if what != "" {
			tamper.Lock()
			if tamper.note == "" {
				tamper.note = what + fmt.Sprintf("; text %q", clipS(string(text), 100))
			}
			tamper.Unlock()
		}
		if detach {
			// the host fills its buffer with the next text
			for i := range buf {
				buf[i] = "zz9 + 'scribble' * "[i%19]
			}
		}
	}()
	return formula.ParseSourceCode(buf)
}

func init() {
	core.PostCase = func(w *core.W, p *core.Prop, monitor string, c interface{}) {
		tamper.Lock()
		note := tamper.note
		tamper.note = ""
		tamper.Unlock()
		if note != "" {
			w.Violation(monitor, p.ID+"/parse-wrote-into-callers-buffer", c, "the caller's bytes unchanged", "changed", note)
		}
	}
}
