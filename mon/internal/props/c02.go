package props

import (
	"fmt"
	"strings"

	"github.com/aundis/formula"

	"verifmon/internal/core"
	"verifmon/internal/gen"
	"verifmon/internal/obs"
	"verifmon/internal/ref"
)

var c02 = core.Register(&core.Prop{
	ID:    "C02",
	Title: "The tree follows the grammar",
	Rule: "programs: exhaustive token sequences (43 lexemes, 3 separator policies incl. line breaks), all 19^3 operator triples with decorated operands, prefix x binary x postfix combinations, " +
		"every lexeme pair in every list/paren/branch context, grammar-directed random programs with random layout; non-trivial = contains an operator or bracket; distinct by input bytes",
	Assumptions: []string{
		"the reference grammar is my reading of the statement (DESIGN.md 5/C02); constructs it leaves open ('=' with a non-identifier target, keyword member names, f(...), a line break between '.' and the name) are compared only when the implementation accepts them",
		"literal values are not compared here (C12, C13)",
	},
	Shards: func(tier string) int { return pickTier(tier, 8, 16) },
	Floors: func(c map[string]int64, tier string) []string {
		var out []string
		for _, k := range []string{"agree_accept", "agree_reject", "prog_cases", "triple_cases", "context_cases", "long_flat_cases", "ladder_cases", "chain_cases", "stray_character_cases", "postfix_many_breaks_cases"} {
			if c[k] == 0 {
				out = append(out, "coverage floor: no "+k)
			}
		}
		if c["ref_selfcheck_fail"] > 0 {
			out = append(out, fmt.Sprintf("reference parser disagrees with reference printer on %d generated programs (harness inconsistency)", c["ref_selfcheck_fail"]))
		}
		return out
	},
})

// GrammarCase: an input plus, for generated programs, the tree known by construction.
type GrammarCase struct {
	Src    []byte `json:"src"`
	Gen    string `json:"gen"`
	Expect string `json:"expect,omitempty"` // canonical tree known by construction
}

var c02Tree = core.Mon(c02, "tree-vs-grammar", checkC02)

func init() { c02.Run = runC02 }

func checkC02(w *core.W, c *GrammarCase) {
	w.Eval(1)
	res := ref.Parse(c.Src)
	var sc *formula.SourceCode
	var err error
	panicked, pv := core.Call(func() { sc, err = hostParse(c.Src, true) })
	q := fmt.Sprintf("%q", clipS(string(c.Src), 160))
	if panicked {
		w.Violation("tree-vs-grammar", "C02/escaped-panic", c, res.Describe(), fmt.Sprint(pv), "panic escaped the parser on "+q)
		return
	}
	nontrivial := false
	for _, t := range res.Toks {
		if t.Kind == ref.TPunct {
			nontrivial = true
			break
		}
	}
	if nontrivial {
		w.Nontrivial(string(c.Src))
	}
	got := ""
	if err == nil && sc != nil {
		got = obs.Canon(sc.Expression)
	}
	if c.Expect != "" {
		// by construction (independent of the reference parser)
		if res.Verdict == ref.Accept && res.Tree.Canon() != c.Expect {
			w.Count("ref_selfcheck_fail")
			w.Note("reference self-check: printer/parser disagree on " + q)
			return
		}
		if err != nil {
			w.Violation("tree-vs-grammar", "C02/rejected-derivable", c, c.Expect, err.Error(), "a program printed from a tree is rejected: "+q)
			return
		}
		if got != c.Expect {
			w.Violation("tree-vs-grammar", "C02/wrong-tree", c, c.Expect, got, "tree differs from the one the program was printed from: "+q)
			return
		}
		w.Count("agree_accept")
		return
	}
	switch res.Verdict {
	case ref.Unspecified:
		w.Skip("unclassified-code-point-or-escape")
	case ref.Reject:
		if err == nil {
			w.Violation("tree-vs-grammar", "C02/accepted-underivable", c, res.Describe(), got, "a token sequence the grammar does not derive was accepted: "+q)
			return
		}
		w.Count("agree_reject")
	case ref.Accept:
		if err != nil {
			w.Violation("tree-vs-grammar", "C02/rejected-derivable", c, res.Describe(), err.Error(), "a derivable formula was rejected: "+q)
			return
		}
		if got != res.Tree.Canon() {
			w.Violation("tree-vs-grammar", "C02/wrong-tree", c, res.Tree.Canon(), got, "tree differs from the grammar's: "+q)
			return
		}
		w.Count("agree_accept")
	case ref.AcceptIfAccepted:
		if err != nil {
			w.Skip("open-construct-rejected")
			return
		}
		if got != res.Tree.Canon() {
			w.Violation("tree-vs-grammar", "C02/wrong-tree", c, res.Tree.Canon(), got, "tree of an open construct differs from the grammar's: "+q)
			return
		}
		w.Count("agree_accept_open")
	}
}

func joinPolicy(toks []string, policy int) []byte {
	switch policy {
	case 0:
		return []byte(strings.Join(toks, " "))
	case 1:
		return []byte(ref.JoinLexemes(toks, nil))
	default:
		return []byte(strings.Join(toks, "\n"))
	}
}

var operandDecor = []string{"%s", "-%s", "!%s", "typeof %s", "%s.k", "%s(b)", "%s!.k", "~%s", "!!%s", "+%s", "(%s)", "[%s]", "%s.k(b)", "-%s.k", "!%s(b)"}

func runC02(w *core.W) {
	run := func(genName string, src []byte, expect string, counter string) {
		c := &GrammarCase{Src: src, Gen: genName, Expect: expect}
		c02Tree(w, c)
		w.Count(counter)
		if w.Counter(counter)%1499 == 1 {
			w.Sample(genName, fmt.Sprintf("%q", clipS(string(src), 100)))
		}
	}
	runC02Long(w)
	// 1. exhaustive token sequences x 3 separator policies
	kmax := w.Pick(3, 4)
	idx := 0
	for k := 1; k <= kmax; k++ {
		total := gen.Pow(len(gen.TokAlphabet), k)
		for i := 0; i < total; i++ {
			idx++
			if !w.Mine(idx) {
				continue
			}
			toks := gen.TokSeq(gen.TokAlphabet, k, i)
			for policy := 0; policy < 3; policy++ {
				run(fmt.Sprintf("tok%d/sep%d", k, policy), joinPolicy(toks, policy), "", "tok_exhaustive_cases")
			}
		}
	}
	w.ExhaustivePart(fmt.Sprintf("all sequences of 1..%d lexemes over the 43-lexeme alphabet x {space, minimal, newline} separators", kmax))
	r := w.RNG("tok-sampled")
	for i, n := 0, w.Pick(120000, 1200000); i < n; i++ {
		k := kmax + 1 + r.Intn(4)
		toks := make([]string, k)
		for j := range toks {
			// bias toward operands so that longer sequences have a chance to be derivable
			if r.Intn(3) == 0 {
				toks[j] = gen.TokAlphabet[r.Intn(9)]
			} else {
				toks[j] = gen.TokAlphabet[r.Intn(len(gen.TokAlphabet))]
			}
		}
		run("tok-sampled", joinPolicy(toks, r.Intn(3)), "", "tok_sampled_cases")
	}
	// 2. all operator triples, plain and with decorated operands
	ops := ref.BinOps
	ti := 0
	r = w.RNG("triples")
	for _, o1 := range ops {
		for _, o2 := range ops {
			for _, o3 := range ops {
				ti++
				if !w.Mine(ti) {
					continue
				}
				run("triple", []byte(fmt.Sprintf("a %s b %s c %s d", o1, o2, o3)), "", "triple_cases")
				for v, nv := 0, w.Pick(1, 6); v < nv; v++ {
					opnd := func(name string) string { return fmt.Sprintf(operandDecor[r.Intn(len(operandDecor))], name) }
					run("triple-decorated", []byte(fmt.Sprintf("%s %s %s %s %s %s %s", opnd("a"), o1, opnd("b"), o2, opnd("c"), o3, opnd("d"))), "", "triple_cases")
				}
				// with the two lower layers mixed in
				run("triple-cond", []byte(fmt.Sprintf("a %s b ? c %s d : e %s f", o1, o2, o3)), "", "triple_cases")
				run("triple-assign", []byte(fmt.Sprintf("$x = a %s b %s c , d %s e", o1, o2, o3)), "", "triple_cases")
			}
		}
	}
	w.ExhaustivePart("all 19^3 binary operator triples in 'a op b op c op d'")
	// 2b. long chains: the whole ladder climbed (one operator per level, rising or falling) and then every pair of further
	// operators; random chains of 5-16 operators - however many operators are pending, each binds by the ladder
	levels := [][]string{{"||", "??"}, {"&&"}, {"|"}, {"^"}, {"&"}, {"==", "!=", "===", "!=="}, {"<", ">", "<=", ">="}, {"+", "-"}, {"*", "/", "%"}}
	name := func(i int) string { return string(rune('a'+i%26)) + strings.Repeat("x", i/26) }
	chain := func(opsSeq []string) string {
		var sb strings.Builder
		sb.WriteString(name(0))
		for i, o := range opsSeq {
			sb.WriteString(" " + o + " " + name(i+1))
		}
		return sb.String()
	}
	li := 0
	r = w.RNG("ladders")
	for variant := 0; variant < 6; variant++ {
		var ladder []string
		for _, lv := range levels {
			ladder = append(ladder, lv[(variant+len(ladder))%len(lv)])
		}
		if variant%3 == 2 {
			ladder = ladder[1:] // eight levels
		}
		falling := make([]string, len(ladder))
		for i := range ladder {
			falling[len(ladder)-1-i] = ladder[i]
		}
		for _, o1 := range ops {
			for _, o2 := range ops {
				li++
				if !w.Mine(li) {
					continue
				}
				run("ladder-rising", []byte(chain(append(append([]string{}, ladder...), o1, o2))), "", "ladder_cases")
				run("ladder-falling", []byte(chain(append(append([]string{}, falling...), o1, o2))), "", "ladder_cases")
				run("ladder-twice", []byte(chain(append(append(append([]string{}, ladder...), o1), append(append([]string{}, ladder...), o2)...))), "", "ladder_cases")
			}
		}
	}
	for i, n := 0, w.Pick(20000, 300000); i < n; i++ {
		k := 5 + r.Intn(12)
		seq := make([]string, k)
		lv := r.Intn(len(levels))
		for j := range seq {
			// a random walk over the ladder: mostly one level up or down, sometimes anywhere
			switch r.Intn(4) {
			case 0:
				lv = r.Intn(len(levels))
			case 1:
				if lv > 0 {
					lv--
				}
			default:
				if lv < len(levels)-1 {
					lv++
				}
			}
			seq[j] = levels[lv][r.Intn(len(levels[lv]))]
		}
		run("chain", []byte(chain(seq)), "", "chain_cases")
	}
	// 3. prefix x binary x postfix
	pre := []string{"", "+", "-", "!", "!!", "~", "typeof ", "- -", "! !", "!!!", "-typeof "}
	post := []string{"", ".k", "!.k", "(b)", "()", "(b...)", ".k.j", ".k(b)", "(b)(c)", "(b).k"}
	pi := 0
	for _, p1 := range pre {
		for _, op := range ops {
			for _, q1 := range post {
				for _, p2 := range pre {
					for _, q2 := range post {
						pi++
						if !w.Mine(pi) {
							continue
						}
						run("pre-bin-post", []byte(fmt.Sprintf("%sa%s %s %sc%s", p1, q1, op, p2, q2)), "", "prebinpost_cases")
					}
				}
			}
		}
	}
	w.ExhaustivePart("all prefix x postfix x binary x prefix x postfix combinations (11 x 10 x 19 x 11 x 10)")
	// 4. every lexeme pair in every context
	ctxs := []string{"[%s]", "f(%s)", "(%s)", "%s", "a ? %s : b", "a ? b : %s", "[a, %s]", "f(a, %s)", "[%s, a]", "f(%s...)", "$x = %s", "a, %s", "-%s", "typeof %s", "%s.k", "%s(a)"}
	ci := 0
	for _, t1 := range gen.TokAlphabet {
		for _, t2 := range append([]string{""}, gen.TokAlphabet...) {
			for _, cx := range ctxs {
				ci++
				if !w.Mine(ci) {
					continue
				}
				inner := t1
				if t2 != "" {
					inner = t1 + " " + t2
				}
				run("context", []byte(fmt.Sprintf(cx, inner)), "", "context_cases")
			}
		}
	}
	w.ExhaustivePart("every lexeme and lexeme pair in 16 syntactic contexts (list element, argument, branch, operand, ...)")
	// 5. grammar-directed programs, expected tree known by construction
	cfg := gen.FullSyntax()
	r = w.RNG("prog")
	for i, n := 0, w.Pick(75000, 1200000); i < n; i++ {
		t := ref.Parenthesize(cfg.Node(r, 2+r.Intn(6)))
		f := ref.Flatten(t)
		src := ref.JoinLexemes(f.Lex, gen.Layout(r, f, r.Intn(3)))
		run("prog", []byte(src), t.Canon(), "prog_cases")
	}
	// 5b. one line break placed right before a '.', '!.' or call '(' of a valid program:
	// member access and calls must start on the line of their target
	r = w.RNG("postfix-break")
	for i, n := 0, w.Pick(60000, 900000); i < n; i++ {
		f := ref.Flatten(ref.Parenthesize(cfg.Node(r, 2+r.Intn(5))))
		var at []int
		for j := range f.Lex {
			if f.Postfix[j] {
				at = append(at, j)
			}
		}
		if len(at) == 0 {
			continue
		}
		k := at[r.Intn(len(at))]
		sep := gen.Layout(r, f, 1)
		sep[k] = gen.BreakSeps[r.Intn(len(gen.BreakSeps))]
		run("postfix-on-next-line", []byte(ref.JoinLexemes(f.Lex, sep)), "", "postfix_break_cases")
	}
	// 5c. one character that belongs to no token, set at a token boundary of a valid program in any layout (also with member
	// names on the line after their dot): not derivable, wherever it stands
	r = w.RNG("stray-character")
	strays := []string{"#", "@", "`", "\\", "\x00", "\x7f", "\x1b", "{", "}", ";", "\u00a7", "\u20ac", "\u2022", "\xff", "\xc3"}
	for i, n := 0, w.Pick(40000, 600000); i < n; i++ {
		f := ref.Flatten(ref.Parenthesize(cfg.Node(r, 1+r.Intn(5))))
		sep := gen.Layout(r, f, 1+r.Intn(3))
		var memberOnNextLine []int
		for j := 1; j < len(f.Lex); j++ {
			if f.Lex[j-1] == "." || f.Lex[j-1] == "!." {
				memberOnNextLine = append(memberOnNextLine, j)
			}
		}
		k := r.Intn(len(f.Lex) + 1)
		if len(memberOnNextLine) > 0 && r.Intn(2) == 0 {
			// the member name on its own line, the stray character right behind it
			j := memberOnNextLine[r.Intn(len(memberOnNextLine))]
			sep[j] = gen.BreakSeps[r.Intn(len(gen.BreakSeps))]
			k = j + 1
		}
		st := strays[r.Intn(len(strays))]
		var sb strings.Builder
		for j, l := range f.Lex {
			if j == k {
				sb.WriteString([]string{" ", "", "  "}[r.Intn(3)] + st)
			}
			sb.WriteString(sep[j])
			if j == k && sep[j] == "" {
				sb.WriteString(" ")
			}
			sb.WriteString(l)
		}
		if k == len(f.Lex) {
			sb.WriteString([]string{" ", "", "\n"}[r.Intn(3)] + st)
		}
		run("stray-character", []byte(sb.String()), "", "stray_character_cases")
	}
	// 5d. any NUMBER of line breaks between a target and its postfix: still not on the target's line
	bi := 0
	for _, n := range []int{2, 3, 127, 128, 129, 255, 256, 257, 511, 512, 513, 1024, 4096, 32768, 65536} {
		for _, br := range []string{"\n", "\r\n", "\r", "\u2028", "\u0085", "\n \t", "\n\r"} {
			if n*len(br) > 200000 {
				continue
			}
			for ti, target := range []string{"a", "f(1)", "a.b", "(a)", "[1]", "a!.b", "this"} {
				post := []string{".b", "!.b", "(1)", ".b(2)", "()"}[(ti+bi)%5]
				if bi++; !w.Mine(bi) {
					continue
				}
				gap := strings.Repeat(br, n)
				run("postfix-after-many-line-breaks", []byte(target+gap+post), "", "postfix_many_breaks_cases")
				run("postfix-after-many-line-breaks", []byte("x + "+target+gap+post+" * 2"), "", "postfix_many_breaks_cases")
				// the same gap in front of a token that may start a line: accepted
				run("operator-after-many-line-breaks", []byte(target+gap+"+ 1"), "", "postfix_many_breaks_cases")
			}
		}
	}
	// 6. mutants of valid programs (near-miss inputs on the reject side)
	r = w.RNG("prog-mut")
	for i, n := 0, w.Pick(45000, 900000); i < n; i++ {
		f := ref.Flatten(ref.Parenthesize(cfg.Node(r, 2+r.Intn(4))))
		lex := append([]string(nil), f.Lex...)
		switch r.Intn(4) {
		case 0:
			if len(lex) > 0 {
				j := r.Intn(len(lex))
				lex = append(lex[:j], lex[j+1:]...)
			}
		case 1:
			j := r.Intn(len(lex) + 1)
			lex = append(lex[:j], append([]string{gen.TokAlphabet[r.Intn(len(gen.TokAlphabet))]}, lex[j:]...)...)
		case 2:
			if len(lex) > 0 {
				lex[r.Intn(len(lex))] = gen.TokAlphabet[r.Intn(len(gen.TokAlphabet))]
			}
		case 3:
			if len(lex) > 1 {
				j := r.Intn(len(lex) - 1)
				lex[j], lex[j+1] = lex[j+1], lex[j]
			}
		}
		sep := " "
		if r.Intn(4) == 0 {
			sep = "\n"
		}
		run("prog-mutant", []byte(strings.Join(lex, sep)), "", "progmut_cases")
	}
}
