package props

import (
	"fmt"
	"sort"
	"strings"

	"github.com/aundis/formula"

	"verifmon/internal/core"
	"verifmon/internal/gen"
	"verifmon/internal/ref"
	"verifmon/internal/val"
)

var c10 = core.Register(&core.Prop{
	ID:    "C10",
	Title: "Referenced-field analysis is exact and sufficient",
	Rule: "grammar-directed formulas over identifiers, dotted paths of depth 1-4 (with '.' and '!.') and long paths of 5-300 segments, calls (callee a name or a path, spread arguments), assignments, conditionals, arrays, typeof, prefix operators and parentheses, every node kind nested in every other; " +
		"expected sets computed from an independently parsed reference tree; sufficiency by evaluating against the full data map and against the map restricted to the reported top-level names plus callee names; " +
		"non-trivial = at least two distinct reads or a path or a call; distinct by formula (and data for sufficiency)",
	Assumptions: []string{
		"an assignment target that is never read may or may not be reported (reported must contain every read and nothing but reads and assignment targets)",
		"reported fields are a set: order is not compared",
		"sufficiency is checked on formulas without this, now, toDay",
	},
	Shards: func(tier string) int { return pickTier(tier, 8, 16) },
	Floors: func(c map[string]int64, tier string) []string {
		var out []string
		for _, k := range []string{"analyses", "paths_expected", "refusals_expected", "callee_excluded", "locals_filtered", "sufficiency_pairs", "sufficiency_restricted_smaller", "in:typeof", "in:cond", "in:arr", "in:call", "in:pre", "in:paren", "in:bin", "repeated_mention_cases", "computed_callee_cases", "many_names_cases", "sufficiency_dollar_twins"} {
			if c[k] == 0 {
				out = append(out, "coverage floor: no "+k)
			}
		}
		return out
	},
})

type fieldModel struct {
	Reads   map[string]bool
	Targets map[string]bool
	Callees map[string]bool // top-level names of callees
	Refuse  bool
	Kinds   map[string]bool
	Clock   bool
	This    bool
}

func selPath(n *ref.Node) ([]string, bool) {
	switch n.K {
	case "id":
		return []string{n.S}, true
	case "sel":
		p, ok := selPath(n.Kids[0])
		if !ok {
			return nil, false
		}
		return append(p, n.S), true
	}
	return nil, false
}

func (m *fieldModel) walk(n *ref.Node, target bool) {
	switch n.K {
	case "id":
		if target {
			m.Targets[n.S] = true
		} else {
			m.Reads[n.S] = true
		}
		if n.S == "now" || n.S == "toDay" {
			m.Clock = true
		}
	case "kw":
		if n.S == "this" {
			m.This = true
		}
	case "sel":
		p, ok := selPath(n)
		if !ok {
			m.Refuse = true
			// whatever lies below is still walked by nobody: the analysis stops with an error
			return
		}
		if target {
			m.Targets[strings.Join(p, ".")] = true
		} else {
			m.Reads[strings.Join(p, ".")] = true
		}
	case "call":
		m.Kinds["call"] = true
		if p, ok := selPath(n.Kids[0]); ok {
			m.Callees[p[0]] = true
			if p[0] == "now" || p[0] == "toDay" {
				m.Clock = true
			}
		}
		for _, a := range n.Kids[1:] {
			m.walk(a, false)
		}
	case "bin":
		m.Kinds["bin"] = true
		m.walk(n.Kids[0], n.Op == "=")
		m.walk(n.Kids[1], false)
	default:
		if n.K != "num" && n.K != "str" {
			m.Kinds[n.K] = true
		}
		for _, k := range n.Kids {
			m.walk(k, false)
		}
	}
}

func modelFields(t *ref.Node) *fieldModel {
	m := &fieldModel{Reads: map[string]bool{}, Targets: map[string]bool{}, Callees: map[string]bool{}, Kinds: map[string]bool{}}
	m.walk(t, false)
	return m
}

func setOf(m map[string]bool) string {
	var k []string
	for s := range m {
		k = append(k, s)
	}
	sort.Strings(k)
	return "{" + strings.Join(k, ", ") + "}"
}

// FieldCase: a formula; Data present = also check sufficiency.
type FieldCase struct {
	Src  string `json:"src"`
	Data *val.V `json:"data,omitempty"`
	// ErrClass: two failing evaluations count as the same result whatever their messages (computed callees: the
	// pinned evaluator refuses them, at different points depending on what the callee expression finds)
	ErrClass bool `json:"err_class,omitempty"`
}

var c10Fields = core.Mon(c10, "fields", func(w *core.W, c *FieldCase) {
	w.Eval(1)
	pr := ref.Parse([]byte(c.Src))
	if pr.Verdict != ref.Accept {
		w.Skip("not-plainly-derivable")
		return
	}
	sc, err := hostParse([]byte(c.Src), true)
	if err != nil {
		w.Violation("fields", "C10/unparsable", c, "parses", err.Error(), c.Src)
		return
	}
	m := modelFields(pr.Tree)
	var all, nl []string
	var e1, e2 error
	panicked, pv := core.Call(func() {
		all, e1 = formula.ResolveReferenceFields(sc)
		nl, e2 = formula.ResolveReferenceFieldsNotLocal(sc)
	})
	q := fmt.Sprintf("%q", clipS(c.Src, 160))
	if panicked {
		w.Violation("fields", "C10/escaped-panic", c, nil, fmt.Sprint(pv), q)
		return
	}
	w.Count("analyses")
	for k := range m.Kinds {
		w.Count("in:" + k)
	}
	if m.Refuse {
		w.Count("refusals_expected")
		if e1 == nil || e2 == nil {
			w.Violation("fields", "C10/member-of-non-path-not-refused", c, "an error", fmt.Sprint(all), "member access on something other than a name or path must be refused: "+q)
		}
		return
	}
	if e1 != nil || e2 != nil {
		w.Violation("fields", "C10/unexpected-error", c, setOf(m.Reads), fmt.Sprint(e1, e2), q)
		return
	}
	if len(m.Reads) >= 2 || len(m.Callees) > 0 || strings.Contains(setOf(m.Reads), ".") {
		w.Nontrivial(c.Src)
	}
	got := map[string]bool{}
	for _, f := range all {
		if got[f] {
			w.Violation("fields", "C10/duplicate", c, "no duplicates", all, q)
			return
		}
		got[f] = true
	}
	for rd := range m.Reads {
		if strings.Contains(rd, ".") {
			w.Count("paths_expected")
		}
		if !got[rd] {
			w.Violation("fields", "C10/read-not-reported", c, setOf(m.Reads), setOf(got), fmt.Sprintf("%s is read by %s but not reported", rd, q))
			return
		}
	}
	for f := range got {
		if !m.Reads[f] && !m.Targets[f] {
			sig := "C10/reported-but-not-read"
			if m.Callees[strings.SplitN(f, ".", 2)[0]] {
				sig = "C10/callee-reported"
			}
			w.Violation("fields", sig, c, setOf(m.Reads), setOf(got), fmt.Sprintf("%s is reported for %s but is neither read as a value nor assigned", f, q))
			return
		}
	}
	if len(m.Callees) > 0 {
		w.Count("callee_excluded")
	}
	// the non-local variant
	wantNL := map[string]bool{}
	for f := range got {
		if !strings.HasPrefix(f, "$") {
			wantNL[f] = true
		} else {
			w.Count("locals_filtered")
		}
	}
	gotNL := map[string]bool{}
	for _, f := range nl {
		if gotNL[f] {
			w.Violation("fields", "C10/duplicate", c, "no duplicates", nl, q)
			return
		}
		gotNL[f] = true
	}
	if setOf(gotNL) != setOf(wantNL) {
		w.Violation("fields", "C10/not-local-variant", c, setOf(wantNL), setOf(gotNL), "the non-local variant must be the reported set without $-prefixed entries: "+q)
		return
	}
	// sufficiency
	if c.Data == nil || m.This || m.Clock {
		return
	}
	keep := map[string]bool{}
	for f := range got {
		keep[strings.SplitN(f, ".", 2)[0]] = true
	}
	for f := range m.Callees {
		keep[f] = true
	}
	// (both evaluations run over the same nested objects: one build, two top-level maps)
	fullM := shallowCopy(builtFor(*c.Data))
	restrM := map[string]interface{}{}
	for k, v := range fullM {
		if keep[k] {
			restrM[k] = v
		}
	}
	// entries the formula does not name but whose names are one `$` away from names it does (the field a local "shadows",
	// the local a field could be mistaken for): only the full map has them
	for k := range keep {
		twin := "$" + k
		if strings.HasPrefix(k, "$") {
			twin = k[1:]
		}
		if _, present := fullM[twin]; !present && !keep[twin] && twin != "" {
			fullM[twin] = 977
			w.Count("sufficiency_dollar_twins")
		}
	}
	w.Count("sufficiency_pairs")
	if len(restrM) < len(fullM) {
		w.Count("sufficiency_restricted_smaller")
	}
	_, full := evalOnMap(sc, fullM)
	_, restr := evalOnMap(sc, restrM)
	if c.ErrClass && strings.HasPrefix(full, "ERROR") && strings.HasPrefix(restr, "ERROR") {
		return
	}
	if full != restr && addressSensitiveForSure(sc, *c.Data) {
		w.Skip("address-dependent-output")
		return
	}
	if full != restr {
		w.Violation("fields", "C10/not-sufficient", c, clipS(full, 300), clipS(restr, 300),
			fmt.Sprintf("%s evaluates differently on the data restricted to the reported names %s plus callees %s", q, setOf(keep), setOf(m.Callees)))
	}
})

func c10Cfg() *gen.ProgCfg {
	cfg := fixNums(EvalSyntax())
	cfg.Idents = []string{"n0", "n1", "s0", "s1", "b0", "z", "m", "tm", "arr", "st", "pst", "nilp", "nd", "x0", "x1", "undefinedname", "$v", "$w", "abs", "N0", "S0", "$V", "M", "__u", "_u"}
	cfg.Kws = []string{"null", "true", "false"}
	cfg.WSel = 22
	cfg.WTypeof = 6
	cfg.WAssign = 6
	cfg.AssignTargets = []string{"$v", "$w"}
	return cfg
}

func init() { c10.Run = runC10 }

func runC10(w *core.W) {
	// 1. evaluable formulas with sufficiency
	cfg := c10Cfg()
	r := w.RNG("suff")
	var data val.V
	for i, n := 0, w.Pick(60000, 900000); i < n; i++ {
		if i%32 == 0 {
			data = StdData(r)
		}
		src := ref.Print(cfg.Node(r, 1+r.Intn(5)))
		d := data
		c10Fields(w, &FieldCase{Src: src, Data: &d})
		if i%2503 == 0 {
			w.Sample("sufficiency", fmt.Sprintf("%q", clipS(src, 120)))
		}
	}
	// 1b. computed callees (a call result, a parenthesised or conditional expression, called): whatever the evaluator makes of
	// them, the names read inside the callee expression are read - the restricted data must lead to the same outcome
	data = StdData(r)
	for ci, src := range []string{"fcurry(n0)(n1)", "fcurry(n0)(n1) + n1", "(b0 ? fid : fcurry)(n0)", "(fid)(n0)", "(z ?? fid)(s0)", "fcurry(m.k)(st.A)", "[fcurry(n0)(s0), n1]", "fid(fcurry(n0))(n1)", "(m.f)(n0)", "fcurry(fcurry(n0)(n1))(s0)",
		"(0, fid)(n0)", "($v = fid)(n0)", "(b0 && fid)(n1)", "fcurry(n0)(n1)(s0)"} {
		if w.Mine(ci) {
			d := data
			c10Fields(w, &FieldCase{Src: src, Data: &d, ErrClass: true})
			w.Count("computed_callee_cases")
		}
	}
	// 2. syntax-only formulas: every construct, any callee, member access on non-paths (refusal)
	full := gen.FullSyntax()
	full.Kws = []string{"null", "true", "false", "this"}
	r = w.RNG("syntax")
	for i, n := 0, w.Pick(90000, 1200000); i < n; i++ {
		src := ref.Print(full.Node(r, 1+r.Intn(6)))
		c10Fields(w, &FieldCase{Src: src})
		if i%5003 == 0 {
			w.Sample("syntax", fmt.Sprintf("%q", clipS(src, 120)))
		}
	}
	// 3. each node kind nested directly in each other, around a path and a name
	wrap := []string{"%s", "-%s", "!%s", "typeof %s", "(%s)", "[%s]", "[1, %s]", "f(%s)", "f(1, %s)", "f(%s...)", "g.h(%s)", "%s + 1", "1 + %s", "%s ? 1 : 2", "1 ? %s : 2", "1 ? 2 : %s", "$v = %s", "1, %s", "%s, 1", "%s == q", "!!%s", "~%s", "%s ?? 1", "%s && %s"}
	inner := []string{"a", "a.b", "a.b.c.d", "a!.b", "$l", "$l.k", "f(a)", "a.f(b.c)", "(a).b", "f().b", "this.a", "[a].b", "'s'.b", "a.b(c).d", "x.y.z(p.q, r)"}
	idx := 0
	for _, w1 := range wrap {
		for _, w2 := range wrap {
			for _, in := range inner {
				idx++
				if !w.Mine(idx) {
					continue
				}
				s2 := strings.ReplaceAll(w2, "%s", in)
				src := strings.ReplaceAll(w1, "%s", s2)
				c10Fields(w, &FieldCase{Src: src})
			}
		}
	}
	w.ExhaustivePart("every pair of 24 wrapping constructs around 15 inner expressions (names, paths, calls, member access on non-paths)")
	// 3b. many distinct names, then early ones again (sizes around the powers of two): each still exactly once
	for zi, n := range []int{2, 7, 8, 9, 15, 16, 17, 18, 31, 32, 33, 63, 64, 65, 127, 128, 129, 300} {
		if !w.Mine(zi) {
			continue
		}
		var parts []string
		for k := 1; k <= n; k++ {
			parts = append(parts, fmt.Sprintf("q%d", k))
		}
		sum := strings.Join(parts, " + ")
		for _, tail := range []string{"q1", "q1 + q2 + q" + fmt.Sprint(n), "row.weight + q1 + row.weight", "f(q2, q1, q" + fmt.Sprint(n) + ") + q" + fmt.Sprint((n+1)/2), sum} {
			c10Fields(w, &FieldCase{Src: "(" + sum + ") / (" + tail + ")"})
			c10Fields(w, &FieldCase{Src: "[" + strings.Join(parts, ", ") + ", " + tail + "]"})
			w.Count("many_names_cases")
		}
	}
	// 3c. long dotted paths (segment counts around the powers of two, with '.' and '!.'): the entry is the whole path
	for zi, n := range []int{5, 7, 8, 9, 10, 15, 16, 17, 31, 32, 33, 40, 64, 65, 129, 300} {
		if !w.Mine(zi) {
			continue
		}
		for variant := 0; variant < 3; variant++ {
			var sb strings.Builder
			for k := 0; k < n; k++ {
				if k > 0 {
					if variant == 1 && k%3 == 0 || variant == 2 {
						sb.WriteString("!.")
					} else {
						sb.WriteString(".")
					}
				}
				fmt.Fprintf(&sb, "s%d", k)
			}
			path := sb.String()
			for _, t := range []string{"%p", "%p + 1", "f(%p, s0)", "[%p, %p]", "%p.f(x) + %p", "%p ?? s0.s1", "-%p"} {
				c10Fields(w, &FieldCase{Src: strings.ReplaceAll(t, "%p", path)})
				w.Count("long_path_cases")
			}
		}
	}
	// 3d. pairs of names that collide under the usual 32-bit string hashes (FNV-1a, FNV-1, djb2, sdbm, Java's, CRC-32, Adler-32,
	// MurmurHash3): distinct names stay distinct and each is still reported exactly once, however often it is read
	collide := [][2]string{{"costarring", "liquid"}, {"declinate", "macallums"}, {"altarage", "zinke"}, {"Aa", "BB"}, {"AaAa", "BBBB"}, {"hetairas", "mentioner"}, {"heliotropes", "neurospora"},
		{"depravement", "serafins"}, {"stylist", "subgenera"}, {"joyful", "synaphea"}, {"redescribed", "urites"}, {"dram", "vivency"}, {"plumless", "buckeroo"}, {"codding", "gnu"},
		{"xomiimhi", "bataorsojo"}, {"ortaminofu", "yuyukuyu"}, {"fudiwius", "dielriba"}, {"kuorcojo", "ankuelqumi"}, {"hiyuririga", "mipaimvejo"}, {"pacozehi", "norilepael"},
		{"gasokudiyu", "gasoimkupa"}, {"hisoququdi", "fufusoxoze"}, {"talemiwipa", "vecozexoan"}, {"anwiimdi", "panoanta"}, {"elpaelno", "dihiorel"}, {"dihiorel", "paelelno"}}
	for pi, pr := range collide {
		if !w.Mine(pi) {
			continue
		}
		for _, xy := range [][2]string{pr, {pr[1], pr[0]}} {
			for _, t := range []string{"%x > 0 ? %y * rate : %y", "[%x, %y, %y]", "%x + %y + %y + %x + %y", "f(%y, %x, %y, %y)", "%x.k + %y.k + %y.k", "o.%x + o.%y + o.%y", "$l = %x, %y + %y + $l"} {
				c10Fields(w, &FieldCase{Src: strings.NewReplacer("%x", xy[0], "%y", xy[1]).Replace(t)})
				w.Count("hash_collision_name_cases")
			}
		}
	}
	// 4. repeated mentions: names and paths that differ only in letter case, in a prefix, or not at all, in every order
	// (the reported fields are the DISTINCT reads: each exactly once, whatever the order of mention)
	names := []string{"a", "A", "a.b", "A.b", "a.B", "$l", "$L", "aa", "Aa", "a.b.c", "ab", longKeyA, longKeyB, "m." + longKeyA, "__t", "___t", "_t", "__t.__u"}
	for _, x := range names {
		for _, y := range names {
			for _, z := range names {
				for _, t := range []string{"f(%x, %y, %z)", "%x > 0 ? %y : %z", "[%x, %y, %z, %x]", "%x + %y + %z + %y", "%x(%y, %z, %y)"} {
					idx++
					if !w.Mine(idx) {
						continue
					}
					src := strings.NewReplacer("%x", x, "%y", y, "%z", z).Replace(t)
					c10Fields(w, &FieldCase{Src: src})
					w.Count("repeated_mention_cases")
				}
			}
		}
	}
}
