package props

import (
	"context"
	"errors"
	"fmt"
	"math"
	"math/big"
	"math/rand"
	"reflect"
	"strconv"
	"strings"
	"time"

	"github.com/aundis/formula"
	"github.com/ericlagergren/decimal"

	"verifmon/internal/core"
	"verifmon/internal/obs"
)

// PreserveCase: a number handed to a parameter of some kind is converted for the callee, not in place: the same
// number object (held in a local, or supplied by the caller as a *decimal.Big) is handed to the same function
// again and to an interface{} parameter afterwards, and read back.
type PreserveCase struct {
	Kind string `json:"kind"`
	Num  string `json:"num"`
	Via  string `json:"via"` // local | data
	Var  bool   `json:"variadic,omitempty"`
}

var c11Preserve = core.Mon(c11, "argument-preserved", func(w *core.W, c *PreserveCase) {
	arg := ArgSpec{K: "num", Num: c.Num}
	exp, st := convModel(arg, c.Kind)
	if st != "ok" {
		w.Skip("preserve-not-convertible")
		return
	}
	var log, logAny []invocation
	dx, _ := decimal.WithContext(decimal.Context128).SetString(c.Num)
	if dx == nil {
		w.Skip("preserve-unreadable-number")
		return
	}
	data := map[string]interface{}{
		"hostfn": buildSig(SigSpec{Params: []string{c.Kind}, Variadic: c.Var, Ret: "int"}, &log),
		"anyfn":  buildSig(SigSpec{Params: []string{"any"}, Ret: "int"}, &logAny),
		"dx":     dx,
	}
	before := obs.Snapshot(dx)
	lit := arg.src()
	var src string
	if c.Via == "local" {
		src = "$n = " + lit + ", [hostfn($n), anyfn($n), hostfn($n), anyfn($n), $n, " + lit + "]"
	} else {
		src = "[hostfn(dx), anyfn(dx), hostfn(dx), anyfn(dx), dx, " + lit + "]"
	}
	v, err, panicked, pv := resolveIn(data, src)
	w.Eval(1)
	w.Count("preserve_cases")
	w.Nontrivial("preserve:" + core.HashStr(c))
	if panicked || err != nil {
		w.Violation("argument-preserved", "C11/preserve-error", c, "a value", fmt.Sprint(pv, err), src)
		return
	}
	if len(log) != 2 || len(logAny) != 2 || len(log[0].Args) != 1 || len(log[1].Args) != 1 {
		w.Violation("argument-preserved", "C11/invocation-count", c, "two invocations of each function", fmt.Sprint(len(log), len(logAny)), src)
		return
	}
	for k := 0; k < 2; k++ {
		if !exp.matches(log[k].Args[0]) {
			w.Violation("argument-preserved", "C11/conversion-of-a-reused-number:"+c.Kind, c, exp.String(), show(log[k].Args[0]), fmt.Sprintf("call %d of hostfn in %s", k+1, src))
			return
		}
	}
	arr, _ := v.([]interface{})
	if len(arr) != 6 {
		return
	}
	want := obs.SnapshotValues(arr[5])
	if c.Via == "data" {
		want = obs.SnapshotValues(dx)
		if after := obs.Snapshot(dx); after != before {
			w.Violation("argument-preserved", "C11/callers-number-modified:"+c.Kind, c, before, after, "the *decimal.Big supplied by the caller changed while being converted for a "+c.Kind+" parameter: "+src)
			return
		}
	}
	for k := 0; k < 2; k++ {
		if got := obs.SnapshotValues(logAny[k].Args[0]); got != want {
			w.Violation("argument-preserved", "C11/argument-consumed:"+c.Kind, c, show(arr[5]), show(logAny[k].Args[0]),
				fmt.Sprintf("after being handed to a %s parameter the same number arrives differently at an interface{} parameter (call %d of anyfn in %s)", c.Kind, k+1, src))
			return
		}
	}
	if got := obs.SnapshotValues(arr[4]); got != want {
		w.Violation("argument-preserved", "C11/argument-consumed:"+c.Kind, c, show(arr[5]), show(arr[4]), "the number read back after the calls in "+src)
	}
})

// RetErrCase: whatever error a host function returns, evaluation fails with an error naming that function.
type RetErrCase struct {
	Err  string `json:"err"`  // which kind of error the called function returns
	Wrap string `json:"wrap"` // the formula around the call
}

type asAnything struct{ msg string }

func (e *asAnything) Error() string { return e.msg }

// As claims to be any error type asked for (errors.As(err, &x) succeeds whatever x is, when it can be set).
func (e *asAnything) As(target interface{}) bool { return false }
func (e *asAnything) Is(error) bool              { return true }

type valueErr struct{ code int }

func (e valueErr) Error() string { return fmt.Sprintf("code %d", e.code) }

var retErrKinds = []string{"plain", "wrapped", "nested", "nested-wrapped", "nested-twice", "joined", "is-anything", "value-type", "empty-message", "names-other-function", "nested-parse"}

var c11RetErr = core.Mon(c11, "returned-error", func(w *core.W, c *RetErrCase) {
	calls := map[string]int{}
	var runner *formula.Runner
	nested := func(ctx context.Context, src string) (interface{}, error) {
		sc, err := hostParse([]byte(src), true)
		if err != nil {
			return nil, err
		}
		r := formula.RunnerFromCtx(ctx)
		if r == nil {
			r = runner
		}
		return r.Resolve(ctx, sc.Expression)
	}
	data := map[string]interface{}{
		"inner": func() (interface{}, error) { calls["inner"]++; return nil, errors.New("boom") },
		"mid": func(ctx context.Context) (interface{}, error) {
			calls["mid"]++
			return nested(ctx, "inner()")
		},
		"fid":   func(x interface{}) (interface{}, error) { return x, nil },
		"two":   func(a, b interface{}) (interface{}, error) { calls["two"]++; return "two", nil },
		"three": func(a, b, c interface{}) (interface{}, error) { calls["three"]++; return "three", nil },
		"after": func() (interface{}, error) { calls["after"]++; return 1, nil },
		"outer": func(ctx context.Context) (interface{}, error) {
			calls["outer"]++
			switch c.Err {
			case "plain":
				return nil, errors.New("plain failure")
			case "wrapped":
				return nil, fmt.Errorf("while doing it: %w", errors.New("plain failure"))
			case "nested":
				return nested(ctx, "inner()")
			case "nested-wrapped":
				_, err := nested(ctx, "inner()")
				return nil, fmt.Errorf("row 7: %w", err)
			case "nested-twice":
				return nested(ctx, "mid()")
			case "joined":
				_, err := nested(ctx, "inner()")
				return nil, errors.Join(errors.New("first"), err)
			case "is-anything":
				return nil, &asAnything{"odd error"}
			case "value-type":
				return nil, valueErr{3}
			case "empty-message":
				return nil, errors.New("")
			case "names-other-function":
				return nil, errors.New("call function 'inner' error: forged")
			case "nested-parse":
				return nested(ctx, "1 +")
			}
			return nil, errors.New("?")
		},
	}
	runner = formula.NewRunner()
	runner.SetThis(data)
	ctx := context.WithValue(context.Background(), "formulaRunner", runner) //nolint (the documented key is a plain string)
	src := strings.ReplaceAll(c.Wrap, "%s", "outer()")
	sc, err := hostParse([]byte(src), true)
	if err != nil {
		w.Skip("unparsable")
		return
	}
	var v interface{}
	var rerr error
	w.Eval(1)
	w.Count("returned_error_cases")
	w.Nontrivial("reterr:" + c.Err + "|" + c.Wrap)
	panicked, pv := core.Call(func() { v, rerr = runner.Resolve(ctx, sc.Expression) })
	if panicked {
		w.Violation("returned-error", "C11/escaped-panic", c, nil, fmt.Sprint(pv), src)
		return
	}
	if calls["two"]+calls["three"]+calls["after"] != 0 {
		w.Violation("returned-error", "C11/evaluation-continued-after-a-returned-error", c, "a returned error aborts the evaluation: nothing further is called", fmt.Sprint(calls, " result ", show(v), " err ", rerr),
			src+" where outer returns a "+c.Err+" error")
		return
	}
	if calls["outer"] != 1 {
		w.Violation("returned-error", "C11/invocation-count", c, "outer called once", fmt.Sprint(calls), src)
		return
	}
	if rerr == nil {
		w.Violation("returned-error", "C11/returned-error-swallowed", c, "an error naming outer", show(v), src+" where outer returns a "+c.Err+" error")
		return
	}
	if !strings.Contains(rerr.Error(), "'outer'") && !strings.Contains(rerr.Error(), "outer") {
		w.Violation("returned-error", "C11/returned-error-does-not-name-the-function", c, "an error naming outer (the function that was called and returned the error)", rerr.Error(),
			src+" where outer returns a "+c.Err+" error")
	}
})

// RetNumCase: a returned Go int, int32, int64, float32 or float64 becomes the formula number with that value
// (integers exactly; floats as the decimal they print as, the convention C04 checks for data values).
type RetNumCase struct {
	Kind string `json:"kind"`
	Int  int64  `json:"int,omitempty"`
	Exp2 int    `json:"exp2,omitempty"` // floats: Int * 2^Exp2
}

var c11RetNum = core.Mon(c11, "returned-number", func(w *core.W, c *RetNumCase) {
	var fn interface{}
	exact := new(big.Rat).SetInt64(c.Int)
	switch c.Kind {
	case "int":
		fn = func() (int, error) { return int(c.Int), nil }
	case "int32":
		if c.Int != int64(int32(c.Int)) {
			w.Skip("retnum-out-of-range")
			return
		}
		fn = func() (int32, error) { return int32(c.Int), nil }
	case "int64":
		fn = func() (int64, error) { return c.Int, nil }
	case "float64", "float32":
		f := math.Ldexp(float64(c.Int), c.Exp2)
		if math.IsInf(f, 0) || (c.Kind == "float32" && float64(float32(f)) != f) {
			w.Skip("retnum-not-representable")
			return
		}
		exact.SetFloat64(f)
		if c.Kind == "float32" {
			fn = func() (float32, error) { return float32(f), nil }
		} else {
			fn = func() (float64, error) { return f, nil }
		}
	}
	lit := exact.FloatString(0)
	if c.Kind == "float64" || c.Kind == "float32" {
		// a float enters as the decimal it prints as (shortest text that reads back to the same float64), as for data (C04)
		f, _ := exact.Float64()
		lit = strconv.FormatFloat(f, 'f', -1, 64)
	}
	if len(lit) > 400 {
		w.Skip("retnum-long-expansion")
		return
	}
	plit := lit
	if strings.HasPrefix(lit, "-") {
		plit = "(" + lit + ")"
	}
	data := map[string]interface{}{"ret": fn, "see": func(x interface{}) (interface{}, error) { return x, nil }}
	src := "[ret() === " + plit + ", ret() - " + plit + " === 0, (ret() > 0) === (" + plit + " > 0), (ret() < 0) === (" + plit + " < 0), typeof ret(), see(ret()) === " + plit + ", $r = ret(), $r === " + plit + "]"
	v, err, panicked, pv := resolveIn(data, src)
	w.Eval(1)
	w.Count("returned_number_cases")
	w.Nontrivial("retnum:" + core.HashStr(c))
	if panicked || err != nil {
		w.Violation("returned-number", "C11/returned-number-error:"+c.Kind, c, "a value", fmt.Sprint(pv, err), src)
		return
	}
	arr, _ := v.([]interface{})
	if len(arr) != 8 {
		return
	}
	for i, e := range arr {
		if i == 4 || i == 6 {
			continue
		}
		if e != true {
			w.Violation("returned-number", "C11/returned-number-value:"+c.Kind, c, "the formula number "+lit, show(v), fmt.Sprintf("a Go %s with value %s returned by a host function: check %d of %s is not true", c.Kind, lit, i, src))
			return
		}
	}
	if arr[4] != "number" {
		w.Violation("returned-number", "C11/returned-number-kind:"+c.Kind, c, "number", show(arr[4]), src)
	}
})

// CtxLookCase: only a parameter of type context.Context itself receives the caller's context; a first parameter that
// merely implements the interface (a request type embedding a context, a wider interface) is an ordinary parameter.
type CtxLookCase struct {
	Fn   string `json:"fn"`
	Args string `json:"args"`
	Want string `json:"want"` // "call:<what it must receive>" or "reject"
}

type request struct {
	context.Context
	ID string
}

type widerCtx interface {
	context.Context
	Tenant() string
}

type tenantCtx struct {
	context.Context
	tenant string
}

func (t tenantCtx) Tenant() string { return t.tenant }

var ctxLookCases = []CtxLookCase{
	{"greet", "req, 'hello'", "call:req-7/hello"}, {"greet", "'hello'", "reject"}, {"greet", "req", "reject"}, {"greet", "", "reject"},
	{"wide", "tc, 'x'", "call:acme/x"}, {"wide", "'x'", "reject"},
	{"plain", "'hello'", "call:ctx/hello"}, {"plain", "req, 'hello'", "reject"},
	{"reqval", "rv, 'v'", "call:req-9/v"}, {"reqval", "'v'", "reject"},
	{"anyfirst", "req, 'z'", "call:any/z"}, {"anyfirst", "'z'", "reject"},
}

var c11CtxLook = core.Mon(c11, "context-lookalike", func(w *core.W, c *CtxLookCase) {
	var got []string
	token := new(int)
	ctx := context.WithValue(context.Background(), ctxKey{}, token)
	data := map[string]interface{}{
		"req": &request{Context: context.Background(), ID: "req-7"}, "rv": request{Context: context.Background(), ID: "req-9"}, "tc": tenantCtx{context.Background(), "acme"},
		"greet":    func(r *request, s string) (string, error) { got = append(got, r.ID+"/"+s); return "ok", nil },
		"reqval":   func(r request, s string) (string, error) { got = append(got, r.ID+"/"+s); return "ok", nil },
		"wide":     func(t widerCtx, s string) (string, error) { got = append(got, t.Tenant()+"/"+s); return "ok", nil },
		"anyfirst": func(a interface{}, s string) (string, error) { got = append(got, "any/"+s); return "ok", nil },
		"plain": func(cx context.Context, s string) (string, error) {
			if cx.Value(ctxKey{}) == token {
				got = append(got, "ctx/"+s)
			} else {
				got = append(got, "other-context/"+s)
			}
			return "ok", nil
		},
	}
	src := c.Fn + "(" + c.Args + ")"
	sc, err := hostParse([]byte(src), true)
	if err != nil {
		return
	}
	r := formula.NewRunner()
	r.SetThis(data)
	var v interface{}
	var rerr error
	w.Eval(1)
	w.Count("context_lookalike_cases")
	w.Nontrivial("ctxlook:" + src)
	if p, pv := core.Call(func() { v, rerr = r.Resolve(ctx, sc.Expression) }); p {
		w.Violation("context-lookalike", "C11/escaped-panic", c, c.Want, fmt.Sprint(pv), src)
		return
	}
	if c.Want == "reject" {
		if len(got) != 0 || rerr == nil {
			w.Violation("context-lookalike", "C11/called-despite-mismatch", c, "not called, an error", fmt.Sprint(got, " ", show(v), " ", rerr), src+": the argument count does not fit the declared parameters")
		}
		return
	}
	if rerr != nil || len(got) != 1 || "call:"+got[0] != c.Want {
		w.Violation("context-lookalike", "C11/declared-parameters", c, c.Want, fmt.Sprint(got, " ", rerr), src+": every declared parameter other than context.Context itself is supplied by the formula")
	}
})

func runC11b(w *core.W) {
	for i := range ctxLookCases {
		if w.Mine(i) {
			c11CtxLook(w, &ctxLookCases[i])
		}
	}
	ri := 0
	ints := []int64{0, 1, -1, 7, 255, 256, -128, 65535, 1 << 31, -(1 << 31), 1<<31 - 1, 1 << 32, 1<<53 - 1, 1 << 53, 1<<53 + 1, 1 << 62, math.MaxInt64, math.MinInt64, math.MaxInt64 - 1, 999999999999999999, -999999999999999999, 1000000000000000000}
	for _, k := range []string{"int", "int32", "int64"} {
		for _, i := range ints {
			ri++
			if w.Mine(ri) {
				c11RetNum(w, &RetNumCase{Kind: k, Int: i})
			}
		}
	}
	for _, k := range []string{"float64", "float32"} {
		for _, m := range []int64{0, 1, -1, 3, -3, 5, 1<<24 - 1, 1<<53 - 1, -(1<<53 - 1)} {
			for _, e := range []int{0, 1, -1, -2, -10, 10, 23, 24, 31, 32, 52, 53, 62, 63, 64, 65, 100, 127, -126, -149, 1000, -1074} {
				ri++
				if w.Mine(ri) {
					c11RetNum(w, &RetNumCase{Kind: k, Int: m, Exp2: e})
				}
			}
		}
	}
	idx := 0
	nums := []string{"2.75", "-7.5", "0.5", "-0.5", "3", "300.25", "99999999999.9", "1e3", "1.5e1", "12345678901234567890.5", "0.1", "7.000", "-2.7", "1e-20", "123456789.000000000000000000001"}
	for _, k := range paramKinds {
		for _, n := range nums {
			for _, via := range []string{"local", "data"} {
				for _, variadic := range []bool{false, true} {
					idx++
					if w.Mine(idx) {
						c11Preserve(w, &PreserveCase{Kind: k, Num: n, Via: via, Var: variadic})
					}
				}
			}
		}
	}
	for _, e := range retErrKinds {
		for _, wr := range []string{"%s", "1 + %s", "[%s]", "fid(%s)", "true ? %s : 0", "$v = %s", "(%s)", "%s, 1", "0 || %s",
			"two(%s, 1)", "two(%s, after())", "three(1, %s, after())", "[%s, 1]", "[1, %s, after()]", "fid(two(%s, 2))", "two(%s, 1) + 1", "[two(%s, 1), 2]"} {
			idx++
			if w.Mine(idx) {
				c11RetErr(w, &RetErrCase{Err: e, Wrap: wr})
			}
		}
	}
}

// PathArgCase: the same caller value reaches a parameter by its name, through a nested map, through a struct field and
// through a local. Where a value sits in the data does not change what it is: the call behaves the same on every route
// (the same error class, or the same argument received, compared by deep snapshot).
type PathArgCase struct {
	Val   string `json:"val"`   // index into pathArgValues (by name)
	Param string `json:"param"` // parameter kind of the host function
	Var   bool   `json:"variadic,omitempty"`
}

type pathHolder struct {
	V interface{}
	S []string
	A []interface{}
	M map[string]interface{}
	I []int
}

func pathArgValue(name string) (interface{}, bool) {
	switch name {
	case "nilstrs":
		return []string(nil), true
	case "nilanys":
		return []interface{}(nil), true
	case "nilints":
		return []int(nil), true
	case "nilmap":
		return map[string]interface{}(nil), true
	case "emptystrs":
		return []string{}, true
	case "emptyanys":
		return []interface{}{}, true
	case "emptymap":
		return map[string]interface{}{}, true
	case "strs":
		return []string{"a", "b"}, true
	case "anys":
		return []interface{}{1, "x", nil}, true
	case "ints":
		return []int{3, 4}, true
	case "map":
		return map[string]interface{}{"k": 1}, true
	case "int":
		return 7, true
	case "zero":
		return 0, true
	case "f64":
		return 2.5, true
	case "str":
		return "s", true
	case "emptystr":
		return "", true
	case "false":
		return false, true
	case "true":
		return true, true
	case "nil":
		return nil, true
	case "nilptr":
		return (*int)(nil), true
	case "time":
		return c11Time, true
	case "zerotime":
		return time.Time{}, true
	case "dec":
		return decimal.New(1250, 2), true
	case "nested":
		return []interface{}{[]interface{}{1, 2}, []string{"q"}}, true
	case "i32s":
		return []int32{1, -2}, true
	case "bytes":
		return []byte("hi"), true
	case "f64s":
		return []float64{0.5, 1e3}, true
	}
	return nil, false
}

var pathArgValues = []string{"nilstrs", "nilanys", "nilints", "nilmap", "emptystrs", "emptyanys", "emptymap", "strs", "anys", "ints", "map", "int", "zero", "f64", "str", "emptystr", "false", "true", "nil", "time", "zerotime", "dec", "nested", "i32s", "bytes", "f64s"}

// (typed nil pointers are left out: by name the caller's typed nil arrives, through a member the untyped nil - both are
// null to the statement, and the bridge monitor covers them)
var pathArgParams = []string{"any", "string", "strs", "anys", "ints", "int", "float64", "bool", "dec", "mapany", "f64s", "time"}

var c11PathArg = core.Mon(c11, "argument-by-path", func(w *core.W, c *PathArgCase) {
	v, ok := pathArgValue(c.Val)
	if !ok {
		w.Skip("unknown-value")
		return
	}
	w.Count("path_argument_cases")
	w.Nontrivial("patharg:" + core.HashStr(c))
	var log []invocation
	h := pathHolder{V: v}
	routes := []string{"hostfn(v)", "hostfn(o.v)", "hostfn(o.in.v)", "hostfn(h.V)", "hostfn(ph.V)", "hostfn(this.v)", "($l = v, hostfn($l))", "hostfn(o!.v)", "hostfn(tm.v)"}
	data := map[string]interface{}{
		"hostfn": buildSig(SigSpec{Params: []string{c.Param}, Variadic: c.Var, Ret: "int"}, &log),
		"v":      v, "o": map[string]interface{}{"v": v, "in": map[string]interface{}{"v": v}}, "h": h, "ph": &h,
	}
	// a map typed by the value's own type, and the typed struct fields
	switch x := v.(type) {
	case []string:
		data["tm"] = map[string][]string{"v": x}
		data["hs"] = pathHolder{S: x}
		routes = append(routes, "hostfn(hs.S)")
	case []interface{}:
		data["tm"] = map[string][]interface{}{"v": x}
		data["hs"] = pathHolder{A: x}
		routes = append(routes, "hostfn(hs.A)")
	case map[string]interface{}:
		data["tm"] = map[string]map[string]interface{}{"v": x}
		data["hs"] = pathHolder{M: x}
		routes = append(routes, "hostfn(hs.M)")
	case []int:
		data["tm"] = map[string][]int{"v": x}
		data["hs"] = pathHolder{I: x}
		routes = append(routes, "hostfn(hs.I)")
	case int:
		data["tm"] = map[string]int{"v": x}
	case string:
		data["tm"] = map[string]string{"v": x}
	case bool:
		data["tm"] = map[string]bool{"v": x}
	case float64:
		data["tm"] = map[string]float64{"v": x}
	case time.Time:
		data["tm"] = map[string]time.Time{"v": x}
	default:
		data["tm"] = map[string]interface{}{"v": v}
	}
	var first string
	for i, src := range routes {
		if src == "hostfn(ph.V)" {
			continue // (members read through a pointer to a struct are null on the pinned tree: not the same route)
		}
		log = log[:0]
		_, err, panicked, pv := resolveInOnce(data, src)
		w.Eval(1)
		var got string
		switch {
		case panicked:
			got = "PANIC " + fmt.Sprint(pv)
		case err != nil:
			got = "ERROR"
		case len(log) != 1:
			got = fmt.Sprintf("CALLS %d", len(log))
		default:
			got = "CALLED " + obs.SnapshotValues(log[0].Args)
		}
		if i == 0 {
			first = got
			if strings.HasPrefix(got, "CALLED") {
				w.Count("path_argument_calls")
			} else {
				w.Count("path_argument_refusals")
			}
			continue
		}
		if got != first {
			w.Violation("argument-by-path", "C11/argument-depends-on-where-the-value-sits", c, clipS(first, 200), clipS(got, 200),
				fmt.Sprintf("%s against %s with v = %s (%T) and a parameter of kind %s (variadic %v)", src, routes[0], c.Val, v, c.Param, c.Var))
			return
		}
	}
})

func runC11PathArgs(w *core.W) {
	i := 0
	for _, v := range pathArgValues {
		for _, p := range pathArgParams {
			for _, variadic := range []bool{false, true} {
				if i++; w.Mine(i) {
					c11PathArg(w, &PathArgCase{Val: v, Param: p, Var: variadic})
				}
			}
		}
	}
}

// ErrSigCase: a host function of some signature returns an error. Whatever its parameter and result types are, evaluation
// fails with an error that names the function and carries the returned error's text.
type ErrSigCase struct {
	Params []string `json:"params"`
	Var    bool     `json:"variadic,omitempty"`
	Ctx    bool     `json:"ctx,omitempty"`
	Ret    string   `json:"ret"`
	Member bool     `json:"member,omitempty"` // called as o.half(...)
}

var errSigArg = map[string]string{"any": "6", "dec": "6", "string": "'x'", "int": "6", "int64": "6", "float64": "6.5", "bool": "true", "strs": "['a']", "anys": "[1]", "time": "t0", "f64s": "[1.5]", "mapany": "mm"}

var c11ErrSig = core.Mon(c11, "returned-error-any-signature", func(w *core.W, c *ErrSigCase) {
	w.Count("error_signature_cases")
	w.Nontrivial("errsig:" + core.HashStr(c))
	var in []reflect.Type
	if c.Ctx {
		in = append(in, ctxType)
	}
	for i, p := range c.Params {
		t := kindType[p]
		if c.Var && i == len(c.Params)-1 {
			t = reflect.SliceOf(t)
		}
		in = append(in, t)
	}
	retT := kindType[c.Ret]
	calls := 0
	fn := reflect.MakeFunc(reflect.FuncOf(in, []reflect.Type{retT, errorType}, c.Var), func(args []reflect.Value) []reflect.Value {
		calls++
		return []reflect.Value{reflect.Zero(retT), reflect.ValueOf(errors.New("boom-7f3a")).Convert(errorType)}
	}).Interface()
	var args []string
	for _, p := range c.Params {
		args = append(args, errSigArg[p])
	}
	data := map[string]interface{}{"half": fn, "o": map[string]interface{}{"half": fn}, "t0": c11Time, "mm": map[string]interface{}{"k": 1}}
	src := "half(" + strings.Join(args, ", ") + ")"
	if c.Member {
		src = "1 + o." + src
	}
	v, err, panicked, pv := resolveInOnce(data, src)
	w.Eval(1)
	if panicked {
		w.Violation("returned-error-any-signature", "C11/escaped-panic", c, "an error naming half", fmt.Sprint(pv), src)
		return
	}
	if calls != 1 {
		w.Violation("returned-error-any-signature", "C11/invocation-count", c, "1 call", fmt.Sprint(calls, " calls, ", err), src)
		return
	}
	if err == nil {
		w.Violation("returned-error-any-signature", "C11/returned-error-swallowed", c, "an error naming half", show(v), src)
		return
	}
	if msg := err.Error(); !strings.Contains(msg, "half") || !strings.Contains(msg, "boom-7f3a") {
		w.Violation("returned-error-any-signature", "C11/returned-error-does-not-name-the-function", c, "an error naming half and carrying boom-7f3a", msg,
			fmt.Sprintf("%s where half is %s", src, reflect.TypeOf(fn)))
	}
})

func runC11ErrSigs(w *core.W) {
	i := 0
	paramSets := [][]string{{}, {"any"}, {"dec"}, {"string"}, {"int"}, {"float64"}, {"dec", "dec"}, {"strs"}, {"anys"}, {"time"}, {"bool"}, {"int64"}, {"dec", "string"}, {"mapany"}, {"f64s"}}
	for _, ps := range paramSets {
		for _, ret := range []string{"any", "dec", "int", "float64", "string", "bool", "int64", "time", "strs"} {
			for mode := 0; mode < 4; mode++ {
				c := &ErrSigCase{Params: ps, Ret: ret, Ctx: mode&1 == 1, Member: mode&2 == 2}
				if i++; w.Mine(i) {
					c11ErrSig(w, c)
				}
				if len(ps) > 0 && mode == 0 {
					vc := *c
					vc.Var = true
					if i++; w.Mine(i) {
						c11ErrSig(w, &vc)
					}
				}
			}
		}
	}
}

// FloatSweepCase: many short decimals handed to float64 and float32 parameters (fixed, variadic, slice element): each arrives
// as the nearest float to the number written - decided by strconv on the literal's text, not by any shortcut.
type FloatSweepCase struct {
	Seed int64 `json:"seed"`
	N    int   `json:"n"`
}

var c11FloatSweep = core.Mon(c11, "float-parameter-sweep", func(w *core.W, c *FloatSweepCase) {
	r := rand.New(rand.NewSource(c.Seed))
	var got64 []float64
	var got32 []float32
	data := map[string]interface{}{
		"f64": func(x float64) (int, error) { got64 = append(got64, x); return 0, nil },
		"f32": func(x float32) (int, error) { got32 = append(got32, x); return 0, nil },
		"v64": func(xs ...float64) (int, error) { got64 = append(got64, xs...); return 0, nil },
		"s64": func(xs []float64) (int, error) { got64 = append(got64, xs...); return 0, nil },
	}
	const batch = 48
	for done := 0; done < c.N; done += batch {
		var lits []string
		for i := 0; i < batch; i++ {
			nd := 4 + r.Intn(5)
			d := digits(r, nd)
			for d[0] == '0' {
				d = digits(r, nd)
			}
			e := -(r.Intn(12)) - nd + r.Intn(4)
			lits = append(lits, d+"e"+strconv.Itoa(e))
		}
		got64, got32 = got64[:0], got32[:0]
		var parts []string
		for i, l := range lits {
			switch i % 4 {
			case 0, 1:
				parts = append(parts, "f64("+l+")")
			case 2:
				parts = append(parts, "v64("+l+")")
			default:
				parts = append(parts, "s64(["+l+"])")
			}
		}
		for _, l := range lits[:8] {
			parts = append(parts, "f32("+l+")")
		}
		src := "[" + strings.Join(parts, ", ") + "]"
		_, err, panicked, pv := resolveInOnce(data, src)
		w.Eval(1)
		w.CountN("float_parameters_checked", int64(len(lits)+8))
		if panicked || err != nil {
			w.Violation("float-parameter-sweep", "C11/float-sweep-error", c, "values", fmt.Sprint(pv, err), clipS(src, 200))
			return
		}
		if len(got64) != len(lits) || len(got32) != 8 {
			w.Violation("float-parameter-sweep", "C11/invocation-count", c, fmt.Sprint(len(lits), "+8 calls"), fmt.Sprint(len(got64), "+", len(got32)), clipS(src, 200))
			return
		}
		for i, l := range lits {
			want, _ := strconv.ParseFloat(l, 64)
			if got64[i] != want {
				w.Violation("float-parameter-sweep", "C11/conversion:float64", c, strconv.FormatFloat(want, 'g', -1, 64), strconv.FormatFloat(got64[i], 'g', -1, 64),
					fmt.Sprintf("the literal %s handed to a float64 parameter (form %d) is not the nearest float64", l, i%4))
				return
			}
		}
		for i, l := range lits[:8] {
			want, _ := strconv.ParseFloat(l, 32)
			via64, _ := strconv.ParseFloat(l, 64)
			// (the nearest float32, or the nearest float32 of the nearest float64: they differ for about one decimal in 2^29,
			// and the statement's "nearest value" is not read as forbidding the route through float64)
			if got32[i] != float32(want) && got32[i] != float32(via64) {
				w.Violation("float-parameter-sweep", "C11/conversion:float32", c, strconv.FormatFloat(want, 'g', -1, 32), strconv.FormatFloat(float64(got32[i]), 'g', -1, 32),
					fmt.Sprintf("the literal %s handed to a float32 parameter is not the nearest float32", l))
				return
			}
		}
	}
	w.Nontrivial(fmt.Sprintf("floatsweep|%d|%d", c.Seed, c.N))
})
