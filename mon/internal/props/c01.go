package props

import (
	"fmt"
	"runtime"
	"strings"

	"github.com/aundis/formula"

	"verifmon/internal/core"
	"verifmon/internal/gen"
	"verifmon/internal/obs"
	"verifmon/internal/ref"
)

// ParseCase is one input to the parser.
type ParseCase struct {
	Src []byte `json:"src"`
	Gen string `json:"gen"`
}

func (c ParseCase) Quoted() string { return fmt.Sprintf("%q", clipS(string(c.Src), 120)) }

func clipS(s string, n int) string {
	if len(s) > n {
		return s[:n] + fmt.Sprintf("...(+%d)", len(s)-n)
	}
	return s
}

// c01K is the step bound: hook ticks per (len+1) input bytes. Calibrated on the
// unchanged tree: the largest ratio observed over all generators is < 14 (reported
// as maxima.ticks_per_byte in the evidence); the bound is ~8x that. A quadratic
// scanner or parser loop exceeds it by orders of magnitude at 64 KiB.
const c01K = 120

var c01 = core.Register(&core.Prop{
	ID:    "C01",
	Title: "Parsing is total",
	Rule: "inputs: exhaustive token sequences (TOK-k over 43 lexemes x 2 separator policies), random sequences over a 150-lexeme pool, random/UTF-8-biased bytes, " +
		"byte mutants of a corpus, 40 pathological shapes x 10 sizes up to 64 KiB; non-trivial = at least 2 reference tokens, or a lexical error after the first byte, or a shape case; distinct by input bytes",
	Assumptions: []string{
		"an error return demands nothing of the returned (partial) tree; 'exactly one of' is read as: an error, or else a complete tree",
		"time proportional to length is decided on hook ticks (every loop body and recursive entry of scanner/parser), wall clock only in the watchdog",
	},
	Shards:           func(tier string) int { return pickTier(tier, 8, 16) },
	CrashIsViolation: true,
	Floors: func(c map[string]int64, tier string) []string {
		var out []string
		for _, k := range []string{"accepted", "rejected", "shape_cases", "tok_exhaustive_cases", "bytes_cases", "mutant_cases", "reparse_checks"} {
			if c[k] == 0 {
				out = append(out, "coverage floor: no "+k+" observed")
			}
		}
		if obs.HookAvailable() && c["ticks_measured"] == 0 {
			out = append(out, "coverage floor: hook never ticked")
		}
		return out
	},
})

func pickTier(tier string, q, t int) int {
	if tier == "thorough" {
		return t
	}
	return q
}

// c01AllocPerByte bounds what one parse may allocate per input byte (observed maximum on the pinned tree: see the
// evidence counter alloc_bytes_per_input_byte; about 260 in the quick tier; the bound leaves a factor of about eight).
const c01AllocPerByte = 2000

var c01Parse = core.Mon(c01, "parse-total", checkC01)

func init() { c01.Run = runC01 }

func checkC01(w *core.W, c *ParseCase) {
	src := c.Src
	if len(src) >= 512 || w.Replay || c.Gen == "extreme-literal" {
		w.Cur("parse-total", c)
	}
	// memory is part of "time roughly proportional to the input length": what a parse allocates is bounded by a constant
	// per input byte (measured on large inputs only; reading the counters stops the world)
	measureAlloc := len(src) >= 16384
	var m0 runtime.MemStats
	if measureAlloc {
		runtime.ReadMemStats(&m0)
	}
	w.Eval(1)
	var tc obs.TickCounter
	limit := int64(64 * c01K * (len(src) + 1))
	tc.Reset(limit)
	if obs.HookAvailable() {
		obs.SetHook(tc.Hook)
	}
	var sc *formula.SourceCode
	var err error
	panicked, pv := core.Call(func() { sc, err = hostParse(src, true) })
	obs.SetHook(nil)
	viol := func(sig string, exp, got interface{}, detail string) {
		w.Violation("parse-total", "C01/"+sig, c, exp, got, detail+" input="+c.Quoted())
	}
	if measureAlloc {
		var m1 runtime.MemStats
		runtime.ReadMemStats(&m1)
		perByte := float64(m1.TotalAlloc-m0.TotalAlloc) / float64(len(src))
		w.Max("alloc_bytes_per_input_byte", perByte)
		w.Count("alloc_measured")
		if perByte > c01AllocPerByte {
			viol("allocation-bound", fmt.Sprintf("<= %d bytes allocated per input byte", c01AllocPerByte), fmt.Sprintf("%.0f", perByte), "memory allocated by one parse is not proportional to the input length")
			return
		}
	}
	if panicked {
		if _, ok := pv.(obs.Runaway); ok {
			viol("step-bound-runaway", fmt.Sprintf("<= %d ticks", limit/64), tc.Parse, "parse aborted by the step budget (64x the linear bound)")
			return
		}
		viol("escaped-panic", "error or tree", fmt.Sprint(pv), "panic escaped ParseSourceCode")
		return
	}
	if obs.HookAvailable() {
		w.Count("ticks_measured")
		ratio := float64(tc.Parse) / float64(len(src)+1)
		w.Max("ticks_per_byte", ratio)
		if tc.Parse > limit {
			viol("step-bound-runaway", fmt.Sprintf("<= %d ticks", limit/64), tc.Parse, "parse exceeded 64x the linear step bound")
			return
		}
		if tc.Parse > int64(c01K*(len(src)+1)) {
			viol("step-bound", fmt.Sprintf("<= %d ticks for %d bytes", c01K*(len(src)+1), len(src)), tc.Parse, "steps not proportional to input length")
		}
	} else {
		w.Skip("no-hook:step-bound")
	}
	// non-triviality by the reference tokenizer
	lr := ref.Lex(src)
	if len(lr.Toks) >= 3 || (lr.Err != nil && lr.Err.Pos > 0) || strings.HasPrefix(c.Gen, "shape") {
		w.Nontrivial(string(src))
	}
	if err != nil {
		w.Count("rejected")
		if strings.Contains(err.Error(), "runtime error") || strings.Contains(err.Error(), "out of range") || strings.Contains(err.Error(), "nil pointer") {
			w.Count("rejected_via_recovered_panic")
		}
		return
	}
	w.Count("accepted")
	if sc == nil {
		viol("nil-nil", "tree or error", "(nil, nil)", "neither a tree nor an error")
		return
	}
	if len(sc.Diagnostics) > 0 {
		viol("diagnostics-without-error", "no diagnostics", len(sc.Diagnostics), "tree returned without error but with diagnostics")
		return
	}
	if obs.IsNil(sc.Expression) {
		viol("nil-expression", "expression", "nil", "error-free result without expression")
		return
	}
	if sc.EndOfFileToken == nil || sc.EndOfFileToken.Token != formula.SK_EndOfFile || sc.EndOfFileToken.End() != len(src) {
		got := "nil"
		if sc.EndOfFileToken != nil {
			got = fmt.Sprintf("kind=%s end=%d len=%d", obs.TokText(sc.EndOfFileToken.Token), sc.EndOfFileToken.End(), len(src))
		}
		viol("input-not-consumed", "EOF token ending at len(text)", got, "error-free tree but the input was not consumed to its end")
		return
	}
	if bad := incomplete(sc.Expression); bad != "" {
		viol("incomplete-tree:"+strings.SplitN(bad, " ", 2)[0], "complete tree", bad, "error-free tree is incomplete")
		return
	}
	// "the whole input was consumed": every token of the text has its place in the tree (names and literals one each,
	// brackets two, lists their commas, operators one, ?: two, a member access its dot and its name). A token that was
	// skipped on the way leaves the count short.
	if lr.Err == nil && !lr.Open && len(src) <= 4096 {
		inText := len(lr.Toks)
		if inText > 0 && lr.Toks[inText-1].Kind == ref.TEOF {
			inText--
		}
		if inTree := tokensAccountedFor(sc.Expression); inTree != inText {
			viol("tokens-not-in-tree", fmt.Sprintf("%d tokens accounted for", inText), inTree, "error-free tree does not account for every token of the text")
		}
		w.Count("token_accounting_checked")
	}
}

// tokensAccountedFor counts the tokens a tree stands for.
func tokensAccountedFor(e formula.Expression) int {
	n := 0
	obs.Walk(e, func(x formula.Expression) {
		switch t := x.(type) {
		case *formula.Identifier, *formula.LiteralExpression, *formula.PrefixUnaryExpression, *formula.TypeOfExpression, *formula.BinaryExpression:
			n++
		case *formula.ParenthesizedExpression, *formula.ConditionalExpression, *formula.SelectorExpression:
			n += 2
		case *formula.ArrayLiteralExpression:
			n += 2
			if t.Elements != nil && t.Elements.Len() > 1 {
				n += t.Elements.Len() - 1
			}
		case *formula.CallExpression:
			n += 2
			if t.Arguments != nil && t.Arguments.Len() > 1 {
				n += t.Arguments.Len() - 1
			}
			if t.DotDotDotToken != nil {
				n++
			}
		}
	})
	return n
}

// incomplete walks an error-free tree and reports the first missing piece.
func incomplete(e formula.Expression) string {
	var bad string
	var walk func(e formula.Expression, role string)
	checkTok := func(t *formula.TokenNode, role string, kinds ...formula.SyntaxKind) {
		if bad != "" {
			return
		}
		if t == nil {
			bad = "missing-token " + role
			return
		}
		ok := len(kinds) == 0
		for _, k := range kinds {
			if t.Token == k {
				ok = true
			}
		}
		if !ok {
			bad = fmt.Sprintf("wrong-token %s is %s", role, obs.TokText(t.Token))
			return
		}
		if t.Pos() >= t.End() {
			bad = fmt.Sprintf("zero-width-token %s at %d", role, t.Pos())
		}
	}
	walk = func(e formula.Expression, role string) {
		if bad != "" {
			return
		}
		if obs.IsNil(e) {
			bad = "missing-operand " + role
			return
		}
		if e.Pos() >= e.End() {
			bad = fmt.Sprintf("zero-width-node %s (%T) at %d", role, e, e.Pos())
			return
		}
		switch n := e.(type) {
		case *formula.Identifier:
			if n.Value == "" {
				bad = "empty-name " + role
			}
		case *formula.LiteralExpression:
			switch n.Token {
			case formula.SK_NumberLiteral, formula.SK_StringLiteral, formula.SK_NullKeyword, formula.SK_TrueKeyword, formula.SK_FalseKeyword, formula.SK_ThisKeyword, formula.SK_CtxKeyword:
			default:
				bad = "wrong-literal-kind " + obs.TokText(n.Token)
			}
			if n.Token == formula.SK_NumberLiteral && n.Value == "" {
				bad = "empty-number-literal " + role
			}
		case *formula.PrefixUnaryExpression:
			checkTok(n.Operator, "prefix operator", formula.SK_Plus, formula.SK_Minus, formula.SK_Exclamation, formula.SK_ExclamationExclamation, formula.SK_Tilde)
			walk(n.Operand, "prefix operand")
		case *formula.TypeOfExpression:
			walk(n.Expression, "typeof operand")
		case *formula.BinaryExpression:
			if n.Operator != nil && !(n.Operator.Token.IsBinaryOperator() || n.Operator.Token == formula.SK_Equals || n.Operator.Token == formula.SK_Comma) {
				bad = "wrong-token binary operator is " + obs.TokText(n.Operator.Token)
				return
			}
			checkTok(n.Operator, "binary operator")
			walk(n.Left, "left operand")
			walk(n.Right, "right operand")
		case *formula.ConditionalExpression:
			checkTok(n.QuestionTok, "question token", formula.SK_Question)
			checkTok(n.ColonTok, "colon token", formula.SK_Colon)
			walk(n.Condition, "condition")
			walk(n.WhenTrue, "whenTrue")
			walk(n.WhenFalse, "whenFalse")
		case *formula.SelectorExpression:
			walk(n.Expression, "selector base")
			if bad != "" {
				return
			}
			if n.Name == nil {
				bad = "missing-operand selector name"
			} else if n.Name.Value == "" {
				bad = "empty-name selector name"
			}
		case *formula.CallExpression:
			walk(n.Expression, "callee")
			if bad != "" {
				return
			}
			if n.Arguments == nil {
				bad = "missing-list arguments"
				return
			}
			for i := 0; i < n.Arguments.Len(); i++ {
				walk(n.Arguments.At(i), "argument")
			}
			if n.DotDotDotToken != nil {
				checkTok(n.DotDotDotToken, "spread token", formula.SK_DotDotDot)
			}
		case *formula.ArrayLiteralExpression:
			if n.Elements == nil {
				bad = "missing-list elements"
				return
			}
			for i := 0; i < n.Elements.Len(); i++ {
				walk(n.Elements.At(i), "element")
			}
		case *formula.ParenthesizedExpression:
			walk(n.Expression, "parenthesized expression")
		default:
			bad = fmt.Sprintf("unknown-node %T", e)
		}
	}
	walk(e, "root")
	return bad
}

// StableCase: an input and the outcome of its first parse in this process.
type StableCase struct {
	Src   []byte `json:"src"`
	First string `json:"first"`
}

func parseOutcome(src []byte) string {
	var sc *formula.SourceCode
	var err error
	panicked, pv := core.Call(func() { sc, err = hostParse(src, true) })
	switch {
	case panicked:
		return "PANIC " + fmt.Sprint(pv)
	case err != nil:
		return "ERROR " + err.Error()
	case sc == nil:
		return "NIL"
	}
	return "TREE " + obs.Canon(sc.Expression)
}

var c01Stable = core.Mon(c01, "reparse-stability", func(w *core.W, c *StableCase) {
	w.Eval(1)
	w.Count("reparse_checks")
	if w.Replay {
		c.First = parseOutcome(c.Src)
	}
	if again := parseOutcome(c.Src); again != c.First {
		w.Violation("reparse-stability", "C01/parse-depends-on-history", c, clipS(c.First, 300), clipS(again, 300),
			fmt.Sprintf("parsing %q again later in the same process gives a different outcome", clipS(string(c.Src), 120)))
	}
})

func joinToks(toks []string, policy int) []byte {
	if policy == 0 {
		return []byte(strings.Join(toks, " "))
	}
	return []byte(ref.JoinLexemes(toks, nil))
}

func runC01(w *core.W) {
	var remembered []*StableCase
	seen := 0
	defer func() {
		// every remembered input once more, now that thousands of other inputs went through the parser
		for _, c := range remembered {
			c01Stable(w, c)
		}
	}()
	run := func(genName string, src []byte, counter string) {
		if len(src) > 65536 {
			src = src[:65536]
		}
		c := &ParseCase{Src: src, Gen: genName}
		seen++
		c01Parse(w, c) // (first: it leaves the breadcrumb that attributes a hang or crash to this input)
		if (seen < 3000 || seen%37 == 0) && len(src) <= 4096 && len(remembered) < 40000 {
			remembered = append(remembered, &StableCase{Src: src, First: parseOutcome(src)})
			if len(remembered)%16 == 0 {
				// and an early repeat right away, interleaved with other inputs
				c01Stable(w, remembered[len(remembered)-8])
			}
		}
		w.Count(counter)
		if w.Counter(counter)%997 == 1 {
			w.Sample(genName, c.Quoted())
		}
	}
	// 0. literals at the extremes of what can be written down in a few bytes (the parser does not do arithmetic on them)
	for i, lit := range []string{"18446744073709551615e999999999", "99999999999999999999e99999999", "1e999999999", "123456789012345678901234567890e2147483647", "1e-999999999", ".1e4294967296", "1e9223372036854775807",
		"1e18446744073709551616", "9e-2147483649", "0e999999999999", "1_0e1_000_000_000", "184467440737095516150000000000e999999999", "1e99999999999999999999999999999", "4294967296e4294967296"} {
		if w.Mine(i) {
			for _, emb := range []string{"%s", "[%s]", "f(%s, 1)", "%s + 1", "a ? %s : 2"} {
				run("extreme-literal", []byte(strings.ReplaceAll(emb, "%s", lit)), "extreme_literals")
			}
		}
	}
	// 1. exhaustive token sequences
	kmax := w.Pick(3, 4)
	idx := 0
	for k := 0; k <= kmax; k++ {
		total := gen.Pow(len(gen.TokAlphabet), k)
		for i := 0; i < total; i++ {
			idx++
			if !w.Mine(idx) {
				continue
			}
			toks := gen.TokSeq(gen.TokAlphabet, k, i)
			for policy := 0; policy < 2; policy++ {
				run(fmt.Sprintf("tok%d/sep%d", k, policy), joinToks(toks, policy), "tok_exhaustive_cases")
			}
		}
	}
	w.ExhaustivePart(fmt.Sprintf("all sequences of <= %d lexemes over the 43-lexeme alphabet, joined by single spaces and minimally", kmax))
	// 2. sampled longer sequences over the alphabet
	r := w.RNG("tok-sampled")
	for i, n := 0, w.Pick(48000, 450000); i < n; i++ {
		k := kmax + 1 + r.Intn(3)
		toks := make([]string, k)
		for j := range toks {
			toks[j] = gen.TokAlphabet[r.Intn(len(gen.TokAlphabet))]
		}
		run("tok-sampled", joinToks(toks, r.Intn(2)), "tok_sampled_cases")
	}
	// 3. random sequences over the wide pool
	r = w.RNG("pool")
	for i, n := 0, w.Pick(40000, 450000); i < n; i++ {
		run("pool", gen.RandTokens(r, gen.LexPool, 40), "pool_cases")
	}
	// 4. random bytes
	r = w.RNG("bytes")
	for i, n := 0, w.Pick(48000, 600000); i < n; i++ {
		run("bytes", gen.RandBytes(r, 200), "bytes_cases")
	}
	for i, n := 0, w.Pick(2, 12); i < n; i++ {
		size := 4096
		if i%2 == 1 {
			size = 65536
		}
		b := gen.RandBytes(r, size)
		for len(b) < size/2 {
			b = append(b, gen.RandBytes(r, size)...)
		}
		run("bytes-large", b, "bytes_cases")
	}
	// 5. mutants of the corpus and of generated programs
	r = w.RNG("mut")
	corpus := gen.CorpusBytes()
	cfg := gen.FullSyntax()
	for i := 0; i < 200; i++ {
		corpus = append(corpus, []byte(ref.Print(cfg.Node(r, 5))))
	}
	for i, n := 0, w.Pick(48000, 600000); i < n; i++ {
		run("mutant", gen.Mutate(r, corpus[r.Intn(len(corpus))], corpus), "mutant_cases")
	}
	// 6. pathological shapes
	si := 0
	for _, sh := range gen.Shapes {
		for _, n := range gen.ShapeSizes {
			si++
			if !w.Mine(si) {
				continue
			}
			run("shape:"+sh.Name, gen.ShapeBytes(sh, n), "shape_cases")
		}
	}
	// 7. valid programs with random layout (the accept side)
	r = w.RNG("prog")
	for i, n := 0, w.Pick(16000, 180000); i < n; i++ {
		t := ref.Parenthesize(cfg.Node(r, 6))
		f := ref.Flatten(t)
		run("prog", []byte(ref.JoinLexemes(f.Lex, gen.Layout(r, f, r.Intn(4)))), "prog_cases")
	}
}
