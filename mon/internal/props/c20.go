package props

import (
	"context"
	"fmt"
	"reflect"
	"sort"
	"strings"

	"github.com/aundis/formula"

	"verifmon/internal/core"
	"verifmon/internal/gen"
	"verifmon/internal/obs"
	"verifmon/internal/ref"
)

var c20 = core.Register(&core.Prop{
	ID:    "C20",
	Title: "A runner behaves like a plain map of data plus a separate key-value store",
	Rule: "operation histories over one runner: SetThis (fresh / shared / nil maps, with and without $ entries), SetThisValue, Resolve of formulas that read and assign locals and fields and read this.k, Set, Get; " +
		"all histories up to length n over 16 operation instances (exhaustive) and random histories up to length 40 with generated formulas; every result, every Get and every caller-held map compared with a model after each operation; " +
		"non-trivial = history of >= 2 operations containing a Resolve; distinct by history",
	Assumptions: []string{
		"a runner is used by one goroutine (as the statement's 'sequence of operations' implies)",
		"the model: data map aliased to the caller's map; locals are $-keys of that map; SetThis replaces it; SetThisValue or an assignment on a runner without a map creates one; the auxiliary store is separate",
	},
	Shards: func(tier string) int { return pickTier(tier, 8, 16) },
	Floors: func(c map[string]int64, tier string) []string {
		var out []string
		for _, k := range []string{"histories", "op:setthis", "op:setthis-nil", "op:setvalue", "op:resolve", "op:set", "op:get", "resolve_on_unset_map", "caller_map_comparisons", "locals_survived_evaluations", "locals_dropped_by_setthis", "untouched_entries_compared", "storm_comparisons", "stability_cases", "self_binding_histories", "opaque_bindings", "opaque_later_reads"} {
			if c[k] == 0 {
				out = append(out, "coverage floor: no "+k)
			}
		}
		return out
	},
})

// HOp is one operation of a history.
type HOp struct {
	Op  string `json:"op"`            // setthis setvalue resolve set get
	Map int    `json:"map,omitempty"` // setthis: pool index, -1 = nil map
	Key string `json:"key,omitempty"`
	Val *MV    `json:"val,omitempty"`
	Src string `json:"src,omitempty"`
}

type HistCase struct {
	Ops []HOp `json:"ops"`
}

func (h *HistCase) String() string {
	var p []string
	for _, o := range h.Ops {
		switch o.Op {
		case "setthis":
			p = append(p, fmt.Sprintf("SetThis(M%d)", o.Map))
		case "setvalue":
			p = append(p, fmt.Sprintf("SetThisValue(%q,%s)", o.Key, o.Val))
		case "resolve":
			p = append(p, fmt.Sprintf("Resolve(%q)", o.Src))
		case "set":
			p = append(p, fmt.Sprintf("Set(%q,%s)", o.Key, o.Val))
		case "get":
			p = append(p, fmt.Sprintf("Get(%q)", o.Key))
		}
	}
	return strings.Join(p, "; ")
}

// the pool of caller-held maps every history starts from
func c20Pool() ([]map[string]interface{}, []map[string]MV) {
	specs := []map[string]MV{
		{"x": mvInt(1), "y": mvInt(2)},
		{"x": mvInt(5), "$a": mvInt(7), "s": {K: "str", S: "t"}},
		{},
		{"x": mvInt(8), "$b": mvInt(4), "$i": mvInt(1)},
	}
	var goMaps []map[string]interface{}
	var models []map[string]MV
	for _, sp := range specs {
		g := map[string]interface{}{}
		m := map[string]MV{}
		for k, v := range sp {
			g[k] = mvGo(v)
			m[k] = v
		}
		goMaps = append(goMaps, g)
		models = append(models, m)
	}
	return goMaps, models
}

func cloneStore(m map[string]MV) map[string]MV {
	out := make(map[string]MV, len(m))
	for k, v := range m {
		out[k] = v
	}
	return out
}

var c20Hist = core.Mon(c20, "history-replay", func(w *core.W, h *HistCase) {
	goMaps, models := c20Pool()
	r := formula.NewRunner()
	cur := -2 // -2 unset, -1 created by the runner, >= 0 pool index
	var created map[string]MV
	aux := map[string]MV{}
	w.Count("histories")
	hasResolve := false
	bad := func(i int, sig string, exp, got interface{}, what string) {
		w.Violation("history-replay", "C20/"+sig, h, exp, got, fmt.Sprintf("operation %d of [%s]: %s", i, h.String(), what))
	}
	curStore := func() map[string]MV {
		switch {
		case cur >= 0:
			return models[cur]
		case cur == -1:
			return created
		}
		return nil
	}
	// exact rendering (decimals in their internal representation) of every entry of every caller-held map after the
	// previous operation: an entry that the current operation neither sets nor assigns is still exactly what it was
	prints := make([]map[string]string, len(goMaps))
	takePrints := func() {
		for mi, g := range goMaps {
			prints[mi] = map[string]string{}
			for k, v := range g {
				prints[mi][k] = obs.SnapshotValues(v)
			}
		}
	}
	takePrints()
	for i, o := range h.Ops {
		w.Eval(1)
		touched := map[string]bool{}
		// the host-facing operations must not panic either
		if o.Op != "resolve" {
			var opPanic interface{}
			func() {
				defer func() { opPanic = recover() }()
				switch o.Op {
				case "setthis":
					if o.Map < 0 {
						r.SetThis(nil)
					} else {
						r.SetThis(goMaps[o.Map])
					}
				case "setvalue":
					r.SetThisValue(o.Key, mvGo(*o.Val))
				case "set":
					r.Set(o.Key, mvGo(*o.Val))
				case "get":
					_ = r.Get(o.Key)
				}
			}()
			if opPanic != nil {
				bad(i, "panic:"+o.Op, "no panic", fmt.Sprint(opPanic), "a runner operation panicked")
				return
			}
		}
		switch o.Op {
		case "setthis":
			if o.Map < 0 {
				cur = -2
				w.Count("op:setthis-nil")
			} else {
				if st := curStore(); st != nil {
					for k := range st {
						if strings.HasPrefix(k, "$") {
							if _, carried := models[o.Map][k]; !carried {
								w.Count("locals_dropped_by_setthis")
							}
							break
						}
					}
				}
				cur = o.Map
				w.Count("op:setthis")
			}
		case "setvalue":
			w.Count("op:setvalue")
			if cur == -2 {
				created = map[string]MV{}
				cur = -1
			}
			curStore()[o.Key] = *o.Val
			touched[o.Key] = true
		case "set":
			w.Count("op:set")
			aux[o.Key] = *o.Val
		case "get":
			w.Count("op:get")
			got := r.Get(o.Key)
			want, ok := aux[o.Key]
			if !ok {
				want = mvNull
			}
			if !mvMatches(want, got) {
				bad(i, "get", want.String(), show(got), "Get("+o.Key+") differs from the model store")
				return
			}
		case "resolve":
			w.Count("op:resolve")
			hasResolve = true
			pr := ref.Parse([]byte(o.Src))
			if pr.Verdict != ref.Accept && pr.Verdict != ref.AcceptIfAccepted {
				w.Skip("formula-not-derivable")
				return
			}
			sc, err := hostParse([]byte(o.Src), true)
			if err != nil {
				bad(i, "unparsable", "parses", err.Error(), o.Src)
				return
			}
			st := curStore()
			unset := st == nil
			if unset {
				st = map[string]MV{}
				w.Count("resolve_on_unset_map")
			}
			hadLocal := false
			for k := range st {
				if strings.HasPrefix(k, "$") {
					hadLocal = true
				}
			}
			ev := &refEval{Store: st, Assigned: touched, Self: true, ThisNull: unset}
			mv, merr := ev.eval(pr.Tree)
			if merr == errUnspec {
				w.Skip("outside-sub-language")
				return
			}
			if unset && len(st) > 0 {
				created = st
				cur = -1
			}
			if hadLocal && strings.Contains(o.Src, "$") {
				w.Count("locals_survived_evaluations")
			}
			var v interface{}
			var rerr error
			panicked, pv := core.Call(func() { v, rerr = r.Resolve(context.Background(), sc.Expression) })
			if panicked {
				bad(i, "escaped-panic", mv.String(), fmt.Sprint(pv), o.Src)
				return
			}
			if merr != nil {
				if rerr == nil {
					bad(i, "missing-error", "an error", show(v), o.Src)
					return
				}
			} else {
				if rerr != nil {
					bad(i, "unexpected-error", mv.String(), rerr.Error(), o.Src)
					return
				}
				if !mvMatches(mv, v) {
					bad(i, "resolve-result", mv.String(), show(v), "Resolve("+o.Src+") differs from the model")
					return
				}
			}
		}
		// every caller-held map equals the model's view of it
		for mi := range goMaps {
			w.Count("caller_map_comparisons")
			if d := diffStore(models[mi], goMaps[mi]); d != "" {
				bad(i, "caller-map", "map M"+fmt.Sprint(mi)+" as in the model", d, "a caller-held map differs from the model after this operation")
				return
			}
		}
		// entries not written by this operation are bit for bit what they were (a number held in the map is a value:
		// nobody reduces, rescales or truncates it in place)
		for mi, g := range goMaps {
			for k, v := range g {
				old, had := prints[mi][k]
				if !had || touched[k] {
					continue
				}
				if gm, isMap := v.(map[string]interface{}); isMap && reflect.ValueOf(gm).Pointer() == reflect.ValueOf(g).Pointer() {
					continue // the map bound to a local of itself renders whatever the map holds now
				}
				w.Count("untouched_entries_compared")
				if now := obs.SnapshotValues(v); now != old {
					bad(i, "stored-value-changed-in-place", clipS(old, 200), clipS(now, 200), fmt.Sprintf("entry %q of caller-held map M%d was neither set nor assigned by this operation, yet its exact representation changed", k, mi))
					return
				}
			}
		}
		takePrints()
		// the auxiliary store is unaffected by formulas
		for k, mvv := range aux {
			if !mvMatches(mvv, r.Get(k)) {
				bad(i, "aux-store", k+"="+mvv.String(), show(r.Get(k)), "the auxiliary store changed without a Set")
				return
			}
		}
	}
	if len(h.Ops) >= 2 && hasResolve {
		w.Nontrivial(h.String())
	}
})

func diffStore(model map[string]MV, got map[string]interface{}) string {
	var keys []string
	for k := range model {
		keys = append(keys, k)
	}
	for k := range got {
		if _, ok := model[k]; !ok {
			keys = append(keys, k)
		}
	}
	sort.Strings(keys)
	for _, k := range keys {
		mv, inModel := model[k]
		gv, inGot := got[k]
		switch {
		case !inModel:
			return fmt.Sprintf("unexpected key %q = %s", k, show(gv))
		case !inGot:
			return fmt.Sprintf("missing key %q (model: %s)", k, mv)
		case mv.K == "self":
			// the entry is the data map itself (after `$s = this`): the very same map, not a copy
			if gm, ok := gv.(map[string]interface{}); !ok || reflect.ValueOf(gm).Pointer() != reflect.ValueOf(got).Pointer() {
				return fmt.Sprintf("key %q should be the data map itself (bound by `%s = this`), it is %s", k, k, clipS(show(gv), 80))
			}
		case !mvMatches(mv, gv):
			return fmt.Sprintf("key %q = %s, model says %s", k, show(gv), mv)
		}
	}
	return ""
}

func mvp(v MV) *MV { return &v }

// the 16 operation instances of the exhaustive part
var c20Ops = []HOp{
	{Op: "setthis", Map: 0}, {Op: "setthis", Map: 1}, {Op: "setthis", Map: -1},
	{Op: "setvalue", Key: "x", Val: mvp(mvInt(2))}, {Op: "setvalue", Key: "$a", Val: mvp(mvInt(3))},
	{Op: "resolve", Src: "$a = x + 1"}, {Op: "resolve", Src: "$a"}, {Op: "resolve", Src: "[x, this.x, $a, this.$a, u]"}, {Op: "resolve", Src: "$a = $a + 1, $b = $a"}, {Op: "resolve", Src: "$b"},
	{Op: "resolve", Src: "$a = $a + nofn()"}, {Op: "resolve", Src: "$a = $a + null!.k"},
	{Op: "set", Key: "u", Val: mvp(mvInt(9))}, {Op: "get", Key: "u"}, {Op: "set", Key: "x", Val: mvp(mvInt(100))}, {Op: "get", Key: "x"},
}

func init() { c20.Run = runC20 }

func runC20(w *core.W) {
	runStability(w, c20Stable)
	runStorm(w)
	runC20Opaque(w)
	for i, f := range hostMutFormulas {
		if w.Mine(i) {
			c20HostMut(w, &HostMutCase{Src: f})
		}
	}
	nmax := w.Pick(4, 6)
	idx := 0
	for n := 1; n <= nmax; n++ {
		total := gen.Pow(len(c20Ops), n)
		for i := 0; i < total; i++ {
			idx++
			if !w.Mine(idx) {
				continue
			}
			h := &HistCase{Ops: make([]HOp, n)}
			k := i
			for j := n - 1; j >= 0; j-- {
				h.Ops[j] = c20Ops[k%len(c20Ops)]
				k /= len(c20Ops)
			}
			c20Hist(w, h)
			if idx%20011 == 0 {
				w.Sample("exhaustive", h.String())
			}
		}
	}
	w.ExhaustivePart(fmt.Sprintf("all histories of 1..%d operations over 16 operation instances", nmax))
	// the data map bound to a local of itself: reads through the local follow every later change of the map
	selfOps := []HOp{
		{Op: "setthis", Map: 0}, {Op: "setthis", Map: 1}, {Op: "setthis", Map: -1}, {Op: "setvalue", Key: "x", Val: mvp(mvInt(2))},
		{Op: "resolve", Src: "($s = this, 1)"}, {Op: "resolve", Src: "[$s.x, $s.$a, $s.$s.x, $s.nothere]"}, {Op: "resolve", Src: "$a = x + 1"}, {Op: "resolve", Src: "$s = 5"}, {Op: "resolve", Src: "[$s!.x]"},
		// entries whose key contains a dot are entries, not paths
		{Op: "setvalue", Key: "u.k", Val: mvp(mvInt(5))}, {Op: "resolve", Src: "[u.k, nope.x, this.x, $s.x]"},
	}
	smax := w.Pick(4, 5)
	for n := 2; n <= smax; n++ {
		total := gen.Pow(len(selfOps), n)
		for i := 0; i < total; i++ {
			idx++
			if !w.Mine(idx) {
				continue
			}
			h := &HistCase{Ops: make([]HOp, n)}
			k := i
			hasSelf := false
			for j := n - 1; j >= 0; j-- {
				h.Ops[j] = selfOps[k%len(selfOps)]
				hasSelf = hasSelf || k%len(selfOps) == 4 || k%len(selfOps) == 9
				k /= len(selfOps)
			}
			if hasSelf {
				c20Hist(w, h)
				w.Count("self_binding_histories")
			}
		}
	}
	r := w.RNG("random")
	g := &subGen{r: r, IntLocals: []string{"$i", "$a", "$b"}, AnyLocals: []string{"$p"}, IntNames: []string{"x", "y", "u"}, AnyNames: []string{"s", "y"}, ThisKeys: []string{"x", "$a", "$i", "u", "s"}, NoSpread: true}
	keys := []string{"x", "y", "$a", "$i", "$p", "u", "s"}
	randValFor := func(key string) *MV {
		if key == "s" || key == "$p" {
			if r.Intn(2) == 0 {
				return mvp(MV{K: "str", S: []string{"", "a", "t"}[r.Intn(3)]})
			}
			return mvp(MV{K: "arr", A: []MV{mvInt(int64(r.Intn(5)))}})
		}
		return mvp(mvInt(int64(r.Intn(50))))
	}
	for i, n := 0, w.Pick(45000, 900000); i < n; i++ {
		h := &HistCase{}
		for j, m := 0, 2+r.Intn(39); j < m; j++ {
			switch r.Intn(10) {
			case 0:
				h.Ops = append(h.Ops, HOp{Op: "setthis", Map: r.Intn(5) - 1})
			case 1, 2:
				k := keys[r.Intn(len(keys))]
				h.Ops = append(h.Ops, HOp{Op: "setvalue", Key: k, Val: randValFor(k)})
			case 3:
				k := keys[r.Intn(len(keys))]
				h.Ops = append(h.Ops, HOp{Op: "set", Key: k, Val: randValFor(keys[r.Intn(len(keys))])})
			case 4:
				h.Ops = append(h.Ops, HOp{Op: "get", Key: keys[r.Intn(len(keys))]})
			default:
				var t *ref.Node
				if r.Intn(3) == 0 {
					t = g.anyExpr(1 + r.Intn(3))
				} else {
					t = g.intExpr(1 + r.Intn(3))
				}
				src := ref.Print(t)
				if strings.Contains(src, "rec(") {
					src = strings.ReplaceAll(src, "rec(", "(")
				}
				h.Ops = append(h.Ops, HOp{Op: "resolve", Src: src})
			}
		}
		c20Hist(w, h)
		if i%3001 == 0 {
			w.Sample("random", clipS(h.String(), 300))
		}
	}
}
