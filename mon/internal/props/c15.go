package props

import (
	"bytes"
	"fmt"
	"strings"
	"unicode/utf8"

	"github.com/aundis/formula"

	"verifmon/internal/core"
	"verifmon/internal/gen"
	"verifmon/internal/obs"
	"verifmon/internal/ref"
)

var c15 = core.Register(&core.Prop{
	ID:    "C15",
	Title: "Source ranges nest and re-parse; errors point at the right line and column",
	Rule: "accepted inputs: every node of every tree (range bounds, nesting, order, sub-text re-parse); rejected inputs: every diagnostic and the error string vs a direct line/column count; " +
		"line table: all texts of <= k symbols over {a, e-acute, LF, CR, U+2028, U+2029, U+0085} and random longer ones, every offset 0..len; non-trivial = tree with >= 2 nodes / rejected input with a diagnostic / text with a line break; distinct by input bytes",
	Assumptions: []string{
		"a line break unit counts for an offset when it ends at or before that offset (so an offset between CR and LF is still on the CR's line)",
		"member names are not re-parsed as expressions (a.true is a name, not the literal)",
	},
	Shards: func(tier string) int { return pickTier(tier, 8, 16) },
	Floors: func(c map[string]int64, tier string) []string {
		var out []string
		for _, k := range []string{"nodes_checked", "reparsed_nodes", "error_strings_checked", "linetable_offsets", "crlf_at_end_texts", "buffer_reuse_texts", "trees_rechecked_after_analysis"} {
			if c[k] == 0 {
				out = append(out, "coverage floor: no "+k)
			}
		}
		return out
	},
})

// directLineCol is the specification: count complete line-break units before off.
func directLineCol(text []byte, off int) (line, col int) {
	start := 0
	p := 0
	for p < len(text) {
		r, sz := utf8.DecodeRune(text[p:])
		e := 0
		switch {
		case r == '\r':
			e = p + 1
			if e < len(text) && text[e] == '\n' {
				e++
			}
		case r == '\n' || r == 0x2028 || r == 0x2029 || r == 0x85:
			e = p + sz
		default:
			p += sz
			continue
		}
		if e > off {
			break
		}
		line++
		start = e
		p = e
	}
	return line, off - start
}

type rng struct {
	what     string
	pos, end int
}

// checkRanges verifies bounds, nesting and order for the subtree at e; calls visit for every expression node.
func checkRanges(e formula.Expression, n int, visit func(formula.Expression)) string {
	var bad string
	var walk func(e formula.Expression)
	inRange := func(what string, pos, end int) bool {
		if pos < 0 || end > n || pos > end {
			bad = fmt.Sprintf("%s has range [%d,%d) outside 0..%d or inverted", what, pos, end, n)
			return false
		}
		return true
	}
	walk = func(e formula.Expression) {
		if bad != "" || obs.IsNil(e) {
			return
		}
		if !inRange(fmt.Sprintf("%T", e), e.Pos(), e.End()) {
			return
		}
		visit(e)
		var parts []rng
		for _, c := range obs.Children(e) {
			if c.List != nil && !obs.IsNil(c.List) {
				parts = append(parts, rng{c.Role, c.List.Pos(), c.List.End()})
				if !inRange(c.Role+" list", c.List.Pos(), c.List.End()) {
					return
				}
				prev := c.List.Pos()
				for i := 0; i < c.List.Len(); i++ {
					m := c.List.NodeAt(i)
					if obs.IsNil(m) {
						continue
					}
					if m.Pos() < prev || m.End() > c.List.End() {
						bad = fmt.Sprintf("%s member %d [%d,%d) not inside its list [%d,%d) after the previous member (ending %d)", c.Role, i, m.Pos(), m.End(), c.List.Pos(), c.List.End(), prev)
						return
					}
					prev = m.End()
					if x, ok := m.(formula.Expression); ok {
						walk(x)
					}
				}
				continue
			}
			if obs.IsNil(c.Node) {
				continue
			}
			parts = append(parts, rng{c.Role, c.Node.Pos(), c.Node.End()})
			if !inRange(c.Role, c.Node.Pos(), c.Node.End()) {
				return
			}
			if x, ok := c.Node.(formula.Expression); ok && c.Role != "name" {
				walk(x)
			}
			if bad != "" {
				return
			}
		}
		prev := e.Pos()
		for _, p := range parts {
			if p.pos < prev || p.end > e.End() {
				bad = fmt.Sprintf("child %s [%d,%d) of %T [%d,%d) is outside its parent or overlaps the previous child (ending %d)", p.what, p.pos, p.end, e, e.Pos(), e.End(), prev)
				return
			}
			prev = p.end
		}
	}
	walk(e)
	return bad
}

var c15Ranges = core.Mon(c15, "ranges-and-reparse", func(w *core.W, c *ParseCase) {
	w.Eval(1)
	var sc *formula.SourceCode
	var err error
	panicked, pv := core.Call(func() { sc, err = hostParse(c.Src, false) })
	if panicked {
		w.Violation("ranges-and-reparse", "C15/escaped-panic", c, nil, fmt.Sprint(pv), c.Quoted())
		return
	}
	if err != nil {
		checkErrorReport(w, c, sc, err)
		return
	}
	if sc == nil || obs.IsNil(sc.Expression) {
		return // C01's business
	}
	w.Count("accepted_inputs")
	nodes := 0
	var exprs []formula.Expression
	if bad := checkRanges(sc.Expression, len(c.Src), func(e formula.Expression) { nodes++; exprs = append(exprs, e) }); bad != "" {
		w.Violation("ranges-and-reparse", "C15/range", c, "ranges within the text, nested, in source order", bad, "input "+c.Quoted())
		return
	}
	// every identifier and member name covers exactly its own text (after leading trivia)
	for _, e := range exprs {
		var ids []*formula.Identifier
		switch n := e.(type) {
		case *formula.Identifier:
			ids = append(ids, n)
		case *formula.SelectorExpression:
			if n.Name != nil {
				ids = append(ids, n.Name)
			}
		}
		for _, id := range ids {
			p := id.Pos()
			if p < 0 || id.End() < p || id.End() > len(c.Src) {
				w.Violation("ranges-and-reparse", "C15/range", c, "a name's range within the text", fmt.Sprintf("[%d,%d) of %d bytes", id.Pos(), id.End(), len(c.Src)), "name "+id.Value+" in "+c.Quoted())
				return
			}
			for p < id.End() {
				r, sz := utf8.DecodeRune(c.Src[p:])
				if !(ref.IsSpace(r) || ref.IsLineBreak(r) || ref.IsSpaceOpen(r)) {
					break
				}
				p += sz
			}
			w.Count("identifier_texts_checked")
			// (trailing trivia inside the range would still satisfy the statement)
			q := id.End()
			if p > q {
				p = q // a multi-byte blank straddling the end of a (wrong) range
			}
			for q > p {
				r, sz := utf8.DecodeLastRune(c.Src[p:q])
				if !(ref.IsSpace(r) || ref.IsLineBreak(r) || ref.IsSpaceOpen(r)) {
					break
				}
				q -= sz
			}
			if string(c.Src[p:q]) != id.Value {
				w.Violation("ranges-and-reparse", "C15/identifier-range", c, id.Value, fmt.Sprintf("[%d,%d) = %q", id.Pos(), id.End(), clipS(string(c.Src[id.Pos():id.End()]), 60)),
					"the range of a name does not cover its text in "+c.Quoted())
				return
			}
		}
	}
	w.CountN("nodes_checked", int64(nodes))
	if nodes >= 2 {
		w.Nontrivial(string(c.Src))
	}
	if sc.Pos() != 0 || sc.End() != len(c.Src) || sc.Expression.Pos() != 0 {
		w.Violation("ranges-and-reparse", "C15/root-range", c, fmt.Sprintf("source [0,%d), expression from 0", len(c.Src)), fmt.Sprintf("source [%d,%d), expression [%d,%d)", sc.Pos(), sc.End(), sc.Expression.Pos(), sc.Expression.End()), c.Quoted())
		return
	}
	// re-parse every expression node's own text (bounded per input to keep the cost linear-ish)
	limit := 64
	step := 1
	if len(exprs) > limit {
		step = len(exprs) / limit
	}
	for i := 0; i < len(exprs); i += step {
		e := exprs[i]
		sub := c.Src[e.Pos():e.End()]
		var sc2 *formula.SourceCode
		var err2 error
		p2, pv2 := core.Call(func() { sc2, err2 = hostParse(sub, false) })
		w.Count("reparsed_nodes")
		if p2 {
			w.Violation("ranges-and-reparse", "C15/reparse-panic", c, nil, fmt.Sprint(pv2), fmt.Sprintf("sub-text %q", clipS(string(sub), 100)))
			return
		}
		if err2 != nil {
			w.Violation("ranges-and-reparse", "C15/reparse-rejected", c, obs.Canon(e), err2.Error(), fmt.Sprintf("text of node %T [%d,%d) = %q of %s does not parse on its own", e, e.Pos(), e.End(), clipS(string(sub), 100), c.Quoted()))
			return
		}
		if g, x := obs.CanonValues(sc2.Expression), obs.CanonValues(e); g != x {
			w.Violation("ranges-and-reparse", "C15/reparse-differs", c, x, g, fmt.Sprintf("text of node %T [%d,%d) = %q re-parses to a different tree", e, e.Pos(), e.End(), clipS(string(sub), 100)))
			return
		}
	}
	// the tree keeps describing its text while the library's own read-only consumers walk it: after the two field
	// analyses the root (whose text has just been re-parsed to this very tree) still is that tree
	if len(c.Src) <= 8192 {
		before := obs.CanonValues(sc.Expression)
		core.Call(func() { formula.ResolveReferenceFields(sc) })
		core.Call(func() { formula.ResolveReferenceFieldsNotLocal(sc) })
		w.Count("trees_rechecked_after_analysis")
		if after := obs.CanonValues(sc.Expression); after != before {
			w.Violation("ranges-and-reparse", "C15/reparse-differs-after-analysis", c, clipS(before, 300), clipS(after, 300),
				"after ResolveReferenceFields / ResolveReferenceFieldsNotLocal the tree is no longer what its own text parses to: "+c.Quoted())
		}
	}
})

func checkErrorReport(w *core.W, c *ParseCase, sc *formula.SourceCode, err error) {
	w.Count("rejected_inputs")
	msg := err.Error()
	var l, col, code int
	var rest string
	nscan, _ := fmt.Sscanf(msg, "pos(%d, %d) error(%d)", &l, &col, &code)
	if nscan != 3 {
		w.Violation("ranges-and-reparse", "C15/error-format", c, "pos(line, column) error(code) message", msg, "syntax error not in the promised form for "+c.Quoted())
		return
	}
	prefix := fmt.Sprintf("pos(%d, %d) error(%d) ", l, col, code)
	if !strings.HasPrefix(msg, prefix) || len(msg) == len(prefix) {
		w.Violation("ranges-and-reparse", "C15/error-format", c, "pos(line, column) error(code) message", msg, "syntax error not in the promised form for "+c.Quoted())
		return
	}
	rest = msg[len(prefix):]
	if sc == nil {
		w.Skip("error-without-source-object")
		return
	}
	if len(sc.Diagnostics) == 0 {
		w.Violation("ranges-and-reparse", "C15/error-without-diagnostic", c, ">= 1 diagnostic", msg, c.Quoted())
		return
	}
	for i, d := range sc.Diagnostics {
		if d.Start < 0 || d.Length < 0 || d.Start+d.Length > len(c.Src) {
			w.Violation("ranges-and-reparse", "C15/diagnostic-range", c, fmt.Sprintf("within 0..%d", len(c.Src)), fmt.Sprintf("diagnostic %d: start %d length %d", i, d.Start, d.Length), c.Quoted())
			return
		}
		w.Count(fmt.Sprintf("diag_code_%d", d.Code))
	}
	d := sc.Diagnostics[0]
	el, ec := directLineCol(c.Src, d.Start)
	w.Count("error_strings_checked")
	if el > 0 {
		w.Count("errors_beyond_first_line")
	}
	w.Nontrivial(string(c.Src))
	if l != el || col != ec || code != d.Code || rest != d.MessageText {
		w.Violation("ranges-and-reparse", "C15/error-position", c,
			fmt.Sprintf("pos(%d, %d) error(%d) %s", el, ec, d.Code, d.MessageText), msg,
			fmt.Sprintf("first diagnostic at offset %d of %s", d.Start, c.Quoted()))
	}
}

// LineCase: a text whose every offset is checked.
type LineCase struct {
	Text []byte `json:"text"`
}

var c15Lines = core.Mon(c15, "line-table", func(w *core.W, c *LineCase) {
	w.Eval(1)
	text := c.Text
	var starts []int
	panicked, pv := core.Call(func() { starts = formula.ComputeLineStarts(text) })
	if panicked {
		w.Violation("line-table", "C15/linetable-panic", c, nil, fmt.Sprint(pv), fmt.Sprintf("%q", clipS(string(text), 80)))
		return
	}
	hasBreak := false
	for off := 0; off <= len(text); off++ {
		el, ec := directLineCol(text, off)
		if el > 0 {
			hasBreak = true
		}
		var p1, p2 formula.Position
		panicked, pv := core.Call(func() {
			p1 = formula.GetLineAndCharacterOfPosition(text, starts, off)
			p2 = formula.PositionToLineAndCharacter(text, off)
		})
		w.Count("linetable_offsets")
		if panicked {
			w.Violation("line-table", "C15/linetable-panic", c, fmt.Sprintf("(%d,%d)", el, ec), fmt.Sprint(pv), fmt.Sprintf("offset %d of %q", off, clipS(string(text), 80)))
			return
		}
		if p1.Line != el || p1.Column != ec || p2.Line != el || p2.Column != ec {
			w.Violation("line-table", "C15/linetable", c, fmt.Sprintf("(%d,%d)", el, ec), fmt.Sprintf("table:(%d,%d) direct:(%d,%d)", p1.Line, p1.Column, p2.Line, p2.Column),
				fmt.Sprintf("offset %d of %q", off, clipS(string(text), 80)))
			return
		}
	}
	if hasBreak {
		w.Nontrivial(string(text))
	}
	if strings.HasSuffix(string(text), "\r\n") {
		w.Count("crlf_at_end_texts")
	}
	// the same through the source object a parse hands back - whether the text was accepted or rejected, and whatever
	// part of it the parser got to see before it gave up
	var sc *formula.SourceCode
	var perr error
	if p, _ := core.Call(func() { sc, perr = hostParse(text, false) }); p || sc == nil {
		return
	}
	if perr != nil {
		w.Count("linetable_on_rejected_source")
	} else {
		w.Count("linetable_on_accepted_source")
	}
	for _, off := range sampleOffsets(len(text)) {
		el, ec := directLineCol(text, off)
		var p3 formula.Position
		panicked, pv := core.Call(func() { p3 = formula.GetFileLineAndCharacterFromPosition(sc, off) })
		if panicked || p3.Line != el || p3.Column != ec {
			w.Violation("line-table", "C15/linetable-of-source", c, fmt.Sprintf("(%d,%d)", el, ec), fmt.Sprint(p3, pv),
				fmt.Sprintf("offset %d through the SourceCode returned by ParseSourceCode (error: %v) for %q", off, perr, clipS(string(text), 80)))
			return
		}
	}
	if got, want := fmt.Sprint(formula.GetLineStarts(sc)), fmt.Sprint(formula.ComputeLineStarts(text)); got != want {
		w.Violation("line-table", "C15/linestarts-of-source", c, want, got, fmt.Sprintf("GetLineStarts of the SourceCode returned for %q (error: %v)", clipS(string(text), 80), perr))
	}
})

// sampleOffsets: every offset of short texts; first, last and a spread of offsets of long ones.
func sampleOffsets(n int) []int {
	var out []int
	if n <= 256 {
		for i := 0; i <= n; i++ {
			out = append(out, i)
		}
		return out
	}
	for i := 0; i <= 64; i++ {
		out = append(out, i, n-i, i*(n/64))
	}
	return out
}

// ReuseCase: texts of equal length written one after the other into ONE buffer.
type ReuseCase struct {
	Texts [][]byte `json:"texts"`
}

var c15Reuse = core.Mon(c15, "buffer-reuse", func(w *core.W, c *ReuseCase) {
	if len(c.Texts) == 0 {
		return
	}
	buf := make([]byte, len(c.Texts[0]))
	for ti, t := range c.Texts {
		if len(t) != len(buf) {
			continue
		}
		copy(buf, t) // same backing array, new contents
		w.Eval(1)
		w.Count("buffer_reuse_texts")
		for off := 0; off <= len(buf); off++ {
			el, ec := directLineCol(buf, off)
			var p2 formula.Position
			panicked, pv := core.Call(func() { p2 = formula.PositionToLineAndCharacter(buf, off) })
			if panicked || p2.Line != el || p2.Column != ec {
				w.Violation("buffer-reuse", "C15/linetable-depends-on-earlier-text", c, fmt.Sprintf("(%d,%d)", el, ec), fmt.Sprint(p2, pv),
					fmt.Sprintf("offset %d of text %d %q written into a buffer that held other texts before", off, ti, clipS(string(buf), 60)))
				return
			}
		}
		sc, err := hostParse(buf, false)
		if err != nil && sc != nil && len(sc.Diagnostics) > 0 {
			el, ec := directLineCol(buf, sc.Diagnostics[0].Start)
			if !strings.HasPrefix(err.Error(), fmt.Sprintf("pos(%d, %d) ", el, ec)) {
				w.Violation("buffer-reuse", "C15/error-position-depends-on-earlier-text", c, fmt.Sprintf("pos(%d, %d) ...", el, ec), err.Error(),
					fmt.Sprintf("text %d %q parsed from a reused buffer", ti, clipS(string(buf), 60)))
				return
			}
		}
	}
	w.Nontrivial("reuse:" + string(bytes.Join(c.Texts, []byte{0})))
})

var lineSyms = []string{"a", "\n", "\r", "\u2028", "\u2029", "\u0085", "\u00e9"}

func init() { c15.Run = runC15 }

func runC15(w *core.W) {
	run := func(genName string, src []byte) {
		if len(src) > 65536 {
			src = src[:65536]
		}
		c := &ParseCase{Src: src, Gen: genName}
		c15Ranges(w, c)
		w.Count("parse_cases")
		if w.Counter("parse_cases")%6 == 0 && len(src) < 60000 {
			// the same text behind a byte order mark (white space like any other: every offset counts from the first byte)
			pre := []string{"\ufeff", "\ufeff\n", " \ufeff", "\ufeff\ufeff\t"}[w.Counter("parse_cases")/6%4]
			c15Ranges(w, &ParseCase{Src: append([]byte(pre), src...), Gen: genName + "+bom"})
			w.Count("bom_prefixed_cases")
		}
		if w.Counter("parse_cases")%2999 == 1 {
			w.Sample(genName, c.Quoted())
		}
	}
	// escapes where a name is being read: whatever the scanner makes of them, a rejection is reported in the promised form
	eiN := 0
	for _, pre := range []string{"a", "true", "x +\nname", "$v", "\u540d", "f(a", "a.b", "'s' + q", "typeof t", "1 ? n", ""} {
		for _, esc := range []string{"\\u0062", "\\u0041", "\\u00e9", "\\u0020", "\\u{62}", "\\u{1F600}", "\\u", "\\u00", "\\x41", "\\", "\\u0030", "\\u005f", "\\u200d", "\\uD83D", "\\u{110000}", "\\u4e2d\\u6587"} {
			for _, suf := range []string{"", " + 1", ")", ".k", "c", "\n+ 2", "(1)"} {
				if eiN++; w.Mine(eiN) {
					run("escape-in-name", []byte(pre+esc+suf))
					w.Count("escape_in_name_cases")
				}
			}
		}
	}
	// operators glued to what follows them, and operator pairs with nothing in between: accepted or not, ranges and reports hold
	for gi, g := range []string{"!.5", "x == !.5", "f(!.5)", "!.5 + 1", "[!.5, !.25e1]", "a ?: b", "a ? : b", "f(x) ?: 0", "a ?: b ?: c", "-.5", "~.5", "!!.5", "a!.5", "a !.5", "a ?? .5", "a ?.5 : 1", "a ? .5:.5", "typeof.5", "$v=.5", "a.b!.c!.5",
		"a ?. b", "a ?? ?? b", "a ! . b", "a !.\nb", "!.b", "?.b", "a ?:", "?: a"} {
		if w.Mine(gi) {
			run("glued-operators", []byte(g))
			w.Count("glued_operator_cases")
		}
	}
	// accepted side: programs with random layout (line breaks included), corpus, token sequences
	cfg := gen.FullSyntax()
	r := w.RNG("prog")
	for i, n := 0, w.Pick(36000, 600000); i < n; i++ {
		f := ref.Flatten(ref.Parenthesize(cfg.Node(r, 2+r.Intn(6))))
		run("prog", []byte(ref.JoinLexemes(f.Lex, gen.Layout(r, f, r.Intn(4)))))
	}
	for i, s := range gen.Corpus {
		if w.Mine(i) {
			run("corpus", []byte(s))
		}
	}
	kmax := w.Pick(3, 4)
	idx := 0
	for k := 1; k <= kmax; k++ {
		total := gen.Pow(len(gen.TokAlphabet), k)
		for i := 0; i < total; i++ {
			idx++
			if !w.Mine(idx) {
				continue
			}
			toks := gen.TokSeq(gen.TokAlphabet, k, i)
			run(fmt.Sprintf("tok%d", k), joinPolicy(toks, idx%3))
		}
	}
	w.ExhaustivePart(fmt.Sprintf("all sequences of 1..%d lexemes over the 43-lexeme alphabet (separator policy rotating)", kmax))
	// rejected side with line breaks in front of and inside the error
	r = w.RNG("reject")
	corpus := gen.CorpusBytes()
	for i, n := 0, w.Pick(45000, 750000); i < n; i++ {
		switch i % 3 {
		case 0:
			run("mutant", gen.Mutate(r, corpus[r.Intn(len(corpus))], corpus))
		case 1:
			run("pool", gen.RandTokens(r, gen.LexPool, 30))
		default:
			// a valid program with line breaks, then broken at a random place
			f := ref.Flatten(ref.Parenthesize(cfg.Node(r, 2+r.Intn(4))))
			src := []byte(ref.JoinLexemes(f.Lex, gen.Layout(r, f, 2)))
			br := gen.BreakSeps[r.Intn(len(gen.BreakSeps))]
			junk := []string{")", "]", "#", "'", "1a", "..", ",", "? :", "\"x", "1__2"}[r.Intn(10)]
			at := r.Intn(len(src) + 1)
			out := append([]byte{}, src[:at]...)
			out = append(out, br...)
			out = append(out, junk...)
			if r.Intn(2) == 0 {
				out = append(out, br...)
			}
			out = append(out, src[at:]...)
			run("broken-prog", out)
		}
	}
	// line-break forms right before an error at the very end
	ei := 0
	for _, a := range lineSyms {
		for _, b := range lineSyms {
			for _, c := range lineSyms {
				for _, tail := range []string{")", "(1", "'x", "1 2", "#", "[1,"} {
					ei++
					if w.Mine(ei) {
						run("break-then-error", []byte("(1"+a+b+c+tail))
						run("error-then-break", []byte(tail+a+b+c))
					}
				}
			}
		}
	}
	si := 0
	for _, sh := range gen.Shapes {
		for _, n := range gen.ShapeSizes {
			si++
			if w.Mine(si) && n <= 4096 {
				run("shape:"+sh.Name, gen.ShapeBytes(sh, n))
			}
		}
	}
	// one buffer reused for several texts of the same length (line breaks in different places)
	rb := w.RNG("reuse")
	for i, n := 0, w.Pick(4000, 60000); i < n; i++ {
		l := 4 + rb.Intn(14)
		c := &ReuseCase{}
		for k := 0; k < 2+rb.Intn(3); k++ {
			t := make([]byte, 0, l)
			for len(t) < l {
				switch rb.Intn(6) {
				case 0:
					t = append(t, '\n')
				case 1:
					t = append(t, '\r')
				case 2:
					t = append(t, " +"[rb.Intn(2)])
				default:
					t = append(t, "ab1()'"[rb.Intn(6)])
				}
			}
			c.Texts = append(c.Texts, t)
		}
		c15Reuse(w, c)
	}
	// line table: exhaustive short texts, every offset
	lmax := w.Pick(5, 8)
	li := 0
	for k := 0; k <= lmax; k++ {
		total := gen.Pow(len(lineSyms), k)
		for i := 0; i < total; i++ {
			li++
			if !w.Mine(li) {
				continue
			}
			c15Lines(w, &LineCase{Text: []byte(strings.Join(gen.TokSeq(lineSyms, k, i), ""))})
			w.Count("linetable_texts")
		}
	}
	w.ExhaustivePart(fmt.Sprintf("line table: all texts of <= %d symbols over {a, e-acute, LF, CR, U+2028, U+2029, U+0085}, every offset", lmax))
	r = w.RNG("lines")
	for i, n := 0, w.Pick(9000, 120000); i < n; i++ {
		var sb strings.Builder
		for j, m := 0, r.Intn(60); j < m; j++ {
			if r.Intn(3) == 0 {
				sb.WriteString(lineSyms[r.Intn(len(lineSyms))])
			} else {
				sb.Write(gen.RandBytes(r, 3))
			}
		}
		c := &LineCase{Text: []byte(sb.String())}
		c15Lines(w, c)
		w.Count("linetable_texts")
		if i%997 == 0 {
			w.Sample("line-table", fmt.Sprintf("%q", clipS(string(c.Text), 80)))
		}
	}
}
