package props

import (
	"fmt"
	"math"
	"math/big"
	"math/rand"
	"strconv"
	"strings"

	"github.com/ericlagergren/decimal"

	"verifmon/internal/core"
	"verifmon/internal/obs"
	"verifmon/internal/ref"
)

var c18 = core.Register(&core.Prop{
	ID:    "C18",
	Title: "Numeric builtins and bit operators compute what their names say",
	Rule: "decimal arguments with up to 15 significant digits and exponents within +-15 (ties of both parities and signs, integers, near-integers, zero, -0), argument lists of length 1-6 for max/min, integer pairs below 2^53 for & | ^ ~, numeric and non-numeric strings for toFloat/toInt/finite; " +
		"exact functions against the big-integer decimal model, sqrt/exp/ln/log against 320-bit series evaluations and through their inverse laws; non-trivial = non-integer or negative or multi-argument input; distinct by (function, arguments)",
	Assumptions: []string{
		"'agree to 15 significant digits' is decided as relative error <= 5e-15 against the high-precision reference, for results within 10^+-377 (exp arguments up to +-870: well inside the statement's arguments and inside what the pinned tree computes), logarithms near 1 included",
		"inverse laws are checked with a tolerance scaled by the condition number of the outer function",
		"toFloat: text is 'numeric' when it matches [+-]digits[.digits][e[+-]digits]; text containing a character outside 0-9+-.eE (and not an inf/nan spelling) must give NaN; anything in between is unspecified",
	},
	Shards: func(tier string) int { return pickTier(tier, 8, 16) },
	Floors: func(c map[string]int64, tier string) []string {
		var out []string
		for _, b := range []string{"abs", "ceil", "floor", "round", "roundBank", "max", "min", "sqrt", "exp", "ln", "log", "toInt", "toFloat", "toString", "finite", "&", "|", "^", "~"} {
			if c["fn:"+b] == 0 {
				out = append(out, "coverage floor: "+b+" never checked")
			}
		}
		for _, k := range []string{"ties", "negative_ties", "law:sqrt-square", "law:exp-ln", "law:ln-exp", "law:log-pow10", "tofloat_nan_cases", "through_locals", "bitop_exponent_spellings", "tofloat_long_texts", "maxmin_wide_neighbours", "zero_cases", "zeros_with_sign"} {
			if c[k] == 0 {
				out = append(out, "coverage floor: no "+k)
			}
		}
		return out
	},
})

// NumFnCase: one function on concrete decimal arguments (texts).
type NumFnCase struct {
	Fn   string   `json:"fn"`
	Args []string `json:"args"`
	Str  bool     `json:"str,omitempty"` // pass the first argument as a string
}

func (c *NumFnCase) argSrc(i int) string {
	a := c.Args[i]
	if strings.HasPrefix(a, "-") {
		return "(" + a + ")"
	}
	return a
}

func decElem(w *core.W, c *NumFnCase, src string, data map[string]interface{}) (ref.Dec, *decimal.Big, bool) {
	v, err, panicked, pv := resolveIn(data, "["+src+"]")
	w.Eval(1)
	if panicked || err != nil {
		w.Violation("numeric-builtins", "C18/error:"+c.Fn, c, "a number", fmt.Sprint(pv, err), src)
		return ref.Dec{}, nil, false
	}
	d, ok := elem0(v)
	if !ok {
		w.Violation("numeric-builtins", "C18/not-a-number:"+c.Fn, c, "a number", show(v), src)
		return ref.Dec{}, nil, false
	}
	if data == nil && !c.Str && core.Hash64(src)%3 == 0 && !throughLocals(w, c, src, d) {
		return ref.Dec{}, nil, false
	}
	if !c.Str && core.Hash64(src)%150 == 1 && !substitutionCheck(w, "numeric-builtins", "C18", c, src, d, data) {
		return ref.Dec{}, nil, false
	}
	return obs.DecOf(d), d, true
}

// replaceOperand replaces the occurrences of operand text a in src that stand alone (delimited by
// the start/end, parentheses, commas, blanks or a prefix operator) by with.
func replaceOperand(src, a, with string) string {
	var sb strings.Builder
	for i := 0; i < len(src); {
		if strings.HasPrefix(src[i:], a) && (i == 0 || strings.IndexByte("( ,~", src[i-1]) >= 0) && (i+len(a) == len(src) || strings.IndexByte(") ,", src[i+len(a)]) >= 0) {
			sb.WriteString(with)
			i += len(a)
			continue
		}
		sb.WriteByte(src[i])
		i++
	}
	return sb.String()
}

// throughLocals evaluates the same expression with its operands held in locals, twice in one formula, and
// reads the locals afterwards: a function or operator computes on its operands, it does not consume them -
// the second application gives the same number and the operands are still exactly what was bound.
func throughLocals(w *core.W, c *NumFnCase, src string, direct *decimal.Big) bool {
	body := src
	var binds, reads, lits []string
	for i := range c.Args {
		l := fmt.Sprintf("$a%d", i)
		nb := replaceOperand(body, c.argSrc(i), l)
		if nb == body {
			continue
		}
		body = nb
		binds = append(binds, l+" = "+c.argSrc(i))
		reads = append(reads, l)
		lits = append(lits, c.argSrc(i))
	}
	if len(binds) == 0 {
		return true
	}
	w.Count("through_locals")
	full := strings.Join(binds, ", ") + ", [" + body + ", " + body + ", " + strings.Join(reads, ", ") + ", " + strings.Join(lits, ", ") + "]"
	v, err, panicked, pv := resolveIn(nil, full)
	w.Eval(1)
	if panicked || err != nil {
		w.Violation("numeric-builtins", "C18/error-through-locals:"+c.Fn, c, "as for "+src, fmt.Sprint(pv, err), full)
		return false
	}
	arr, _ := v.([]interface{})
	if len(arr) != 2+2*len(reads) {
		return true
	}
	want := obs.SnapshotValues(direct)
	for k := 0; k < 2; k++ {
		if got := obs.SnapshotValues(arr[k]); got != want {
			w.Violation("numeric-builtins", "C18/operand-in-local:"+c.Fn, c, show(direct), show(arr[k]), fmt.Sprintf("application %d of %s with the operands held in locals (%s) differs from %s", k+1, body, full, src))
			return false
		}
	}
	for k := range reads {
		if a, b := obs.SnapshotValues(arr[2+k]), obs.SnapshotValues(arr[2+len(reads)+k]); a != b {
			w.Violation("numeric-builtins", "C18/operand-consumed:"+c.Fn, c, show(arr[2+len(reads)+k]), show(arr[2+k]), fmt.Sprintf("after %s the local %s no longer holds the number it was bound to (%s)", body, reads[k], full))
			return false
		}
	}
	return true
}

const c18Tol = 5e-15

var c18Check = core.Mon(c18, "numeric-builtins", func(w *core.W, c *NumFnCase) {
	w.Count("fn:" + c.Fn)
	var args []ref.Dec
	for _, a := range c.Args {
		d, ok := ref.ParseDec(a)
		if !ok && !c.Str {
			d, ok = ref.ParseDec(strings.ReplaceAll(a, "_", "")) // a literal with digit separators
		}
		if !ok && !c.Str {
			w.Skip("unreadable-argument")
			return
		}
		args = append(args, d)
	}
	key := c.Fn + "|" + strings.Join(c.Args, ",")
	if len(c.Args) > 1 || strings.ContainsAny(c.Args[0], "-.") {
		w.Nontrivial(key)
	}
	bad := func(sig string, want, got interface{}, src string) {
		w.Violation("numeric-builtins", "C18/"+sig, c, want, got, fmt.Sprintf("%s with %v", src, c.Args))
	}
	switch c.Fn {
	case "abs", "ceil", "floor", "round", "roundBank", "toInt":
		x := args[0]
		src := c.Fn + "(" + c.argSrc(0) + ")"
		var sdata map[string]interface{}
		if c.Str {
			// the number as text (a column read from a file): truncated like the number it spells
			if !isNumericText(c.Args[0]) || c.Fn != "toInt" {
				w.Skip("text-argument-outside-the-statement")
				return
			}
			src, sdata = c.Fn+"(s)", map[string]interface{}{"s": c.Args[0]}
			w.Count("toint_of_numeric_text")
		}
		got, _, ok := decElem(w, c, src, sdata)
		if !ok {
			return
		}
		if !got.Finite() {
			bad(c.Fn, "finite", got.String(), src)
			return
		}
		frac := ref.Sub(x, x.TruncToInt())
		isTie := frac.Abs().Equal(ref.Dec{Coef: big.NewInt(5), Exp: -1})
		if isTie {
			w.Count("ties")
			if x.Neg {
				w.Count("negative_ties")
			}
		}
		switch c.Fn {
		case "abs":
			if !got.Equal(x.Abs()) {
				bad("abs", x.Abs().String(), got.String(), src)
			}
		case "ceil":
			if !got.Equal(x.Ceil()) {
				bad("ceil", x.Ceil().String(), got.String(), src)
			}
		case "floor":
			if !got.Equal(x.Floor()) {
				bad("floor", x.Floor().String(), got.String(), src)
			}
		case "toInt":
			if !got.Equal(x.TruncToInt()) {
				bad("toInt", x.TruncToInt().String(), got.String(), src)
			}
		case "round":
			diff := ref.Sub(got, x).Abs()
			if !got.IsInt() || diff.Cmp(ref.Dec{Coef: big.NewInt(5), Exp: -1}) > 0 {
				bad("round", "an integer within 1/2 of "+x.String(), got.String(), src)
			}
		case "roundBank":
			if want := x.RoundHalfEvenInt(); !got.Equal(want) {
				bad("roundBank", want.String(), got.String(), src)
			}
		}
	case "max", "min":
		var parts []string
		for i := range c.Args {
			parts = append(parts, c.argSrc(i))
		}
		src := c.Fn + "(" + strings.Join(parts, ", ") + ")"
		got, _, ok := decElem(w, c, src, nil)
		if !ok {
			return
		}
		isArg, bounds := false, true
		for _, a := range args {
			if got.Finite() && got.Equal(a) {
				isArg = true
			}
			if got.Finite() {
				if c.Fn == "max" && got.Cmp(a) < 0 {
					bounds = false
				}
				if c.Fn == "min" && got.Cmp(a) > 0 {
					bounds = false
				}
			}
		}
		if !isArg || !bounds {
			bad(c.Fn, "an argument bounding all others", got.String(), src)
			return
		}
		// the same arguments handed over as a list (spread, directly and through a local, after a written argument)
		if core.Hash64(src)%4 == 0 {
			w.Count("maxmin_spread_lists")
			forms := []string{c.Fn + "([" + strings.Join(parts, ", ") + "]...)", "$l = [" + strings.Join(parts, ", ") + "], " + c.Fn + "($l...)"}
			for _, f := range forms {
				v2, err2, p2, pv2 := resolveIn(nil, "[("+f+")]")
				w.Eval(1)
				d2, isDec := elem0(v2)
				if p2 || err2 != nil || !isDec || d2 == nil {
					bad(c.Fn+"-spread", got.String(), fmt.Sprint(show(v2), " ", err2, pv2), f)
					return
				}
				g2 := obs.DecOf(d2)
				okBound := false
				for _, a := range args {
					if g2.Finite() && g2.Cmp(a) == 0 {
						okBound = true
					}
				}
				if !okBound || g2.Cmp(got) != 0 {
					bad(c.Fn+"-spread", got.String(), g2.String(), f+": the same arguments as a spread list")
					return
				}
			}
		}
	case "sqrt", "exp", "ln", "log":
		x := args[0]
		src := c.Fn + "(" + c.argSrc(0) + ")"
		if (c.Fn != "exp" && x.Neg && !x.IsZero()) || (c.Fn != "exp" && c.Fn != "sqrt" && x.IsZero()) {
			w.Skip("outside-real-domain")
			return
		}
		var want *big.Float
		bx := ref.BigOf(x)
		switch c.Fn {
		case "sqrt":
			want = ref.Sqrt(bx)
		case "exp":
			if f, _ := bx.Float64(); f > 870 || f < -870 {
				w.Skip("result-beyond-1e377")
				return
			}
			want = ref.Exp(bx)
		case "ln":
			want = ref.Ln(bx)
		case "log":
			want = ref.Log10(bx)
		}
		got, gd, ok := decElem(w, c, src, nil)
		if !ok {
			return
		}
		if !got.Finite() {
			bad(c.Fn, "finite", gd.String(), src)
			return
		}
		if want.Sign() == 0 {
			if !got.IsZero() {
				// results that should be exactly zero: allow tiny absolute error
				f, _ := ref.BigOf(got).Float64()
				if f > 1e-15 || f < -1e-15 {
					bad(c.Fn, "0", gd.String(), src)
				}
			}
			return
		}
		rel := ref.RelErr(ref.BigOf(got), want)
		// near a zero of the function the relative error is governed by the argument's own spacing
		tol := c18Tol
		if c.Fn == "ln" || c.Fn == "log" {
			wf, _ := want.Float64()
			if wf < 0 {
				wf = -wf
			}
			if wf < 1 {
				w.Count("log_near_one")
			}
		}
		w.Max("relerr:"+c.Fn, rel)
		if rel > tol {
			bad(c.Fn+"-accuracy", want.Text('g', 20), gd.String(), fmt.Sprintf("%s: relative error %.3g > %.3g", src, rel, tol))
			return
		}
		// inverse laws
		switch c.Fn {
		case "sqrt":
			w.Count("law:sqrt-square")
			sq, sqd, ok := decElem(w, c, "sqrt("+c.argSrc(0)+") * sqrt("+c.argSrc(0)+")", nil)
			if ok && !x.IsZero() {
				if r := ref.RelErr(ref.BigOf(sq), bx); r > 4*c18Tol {
					bad("law:sqrt-square", x.String(), sqd.String(), fmt.Sprintf("sqrt(x)^2 relative error %.3g", r))
				}
			}
		case "ln":
			w.Count("law:exp-ln")
			wf, _ := want.Float64()
			if wf < 0 {
				wf = -wf
			}
			if wf < 600 {
				e, ed, ok := decElem(w, c, "exp(ln("+c.argSrc(0)+"))", nil)
				if ok {
					// d(exp(y)) = exp(y) dy: a relative error eps in ln x of magnitude |ln x| gives relative error |ln x| * eps
					if r := ref.RelErr(ref.BigOf(e), bx); r > (2+wf)*2*c18Tol {
						bad("law:exp-ln", x.String(), ed.String(), fmt.Sprintf("exp(ln x) relative error %.3g", r))
					}
				}
			}
		case "exp":
			w.Count("law:ln-exp")
			xf, _ := bx.Float64()
			if xf != 0 {
				l, ld, ok := decElem(w, c, "ln(exp("+c.argSrc(0)+"))", nil)
				if ok {
					ax := xf
					if ax < 0 {
						ax = -ax
					}
					// ln(y(1+eps)) = ln y + eps: absolute error eps on a value of size |x|
					if r := ref.RelErr(ref.BigOf(l), bx); r > 2*c18Tol+2*c18Tol/ax {
						bad("law:ln-exp", x.String(), ld.String(), fmt.Sprintf("ln(exp x) relative error %.3g", r))
					}
				}
			}
		}
	case "logpow10":
		k, _ := strconv.Atoi(c.Args[0])
		w.Count("law:log-pow10")
		src := "log(1e" + c.Args[0] + ")"
		got, gd, ok := decElem(w, c, src, nil)
		if !ok {
			return
		}
		want := ref.DecInt(int64(k))
		if k == 0 {
			if !got.IsZero() {
				bad("law:log-pow10", "0", gd.String(), src)
			}
			return
		}
		if r := ref.RelErr(ref.BigOf(got), ref.BigOf(want)); r > c18Tol {
			bad("law:log-pow10", k, gd.String(), src)
		}
	case "toString":
		x := args[0]
		v, err, panicked, pv := resolveIn(nil, "toString("+c.argSrc(0)+")")
		w.Eval(1)
		if panicked || err != nil {
			bad("toString", "a string", fmt.Sprint(pv, err), "toString")
			return
		}
		s, ok := v.(string)
		back, ok2 := ref.ParseDec(s)
		if !ok || !ok2 || !back.Finite() || !back.Equal(x) {
			bad("toString", "text that parses back to "+x.String(), show(v), "toString("+c.argSrc(0)+")")
		}
	case "toFloat", "finite":
		data := map[string]interface{}{"s": c.Args[0]}
		src := c.Fn + "(s)"
		if !c.Str {
			src = c.Fn + "(" + c.argSrc(0) + ")"
		}
		got, gd, ok := decElem(w, c, src, data)
		if !ok {
			return
		}
		x, numeric := args[0], false
		if c.Str {
			numeric = isNumericText(c.Args[0])
			x, _ = ref.ParseDec(c.Args[0])
		} else {
			numeric = true
		}
		if c.Fn == "finite" {
			if c.Str {
				// a string is not a number: finite maps non-numeric values to 0
				if !got.IsZero() {
					bad("finite", "0 for a non-number", gd.String(), src)
				}
				return
			}
			if !got.Equal(x) {
				bad("finite", x.String(), gd.String(), src)
			}
			return
		}
		switch {
		case numeric:
			if !got.Finite() || !got.Equal(x) {
				bad("toFloat", x.String(), gd.String(), src+" with s="+strconv.Quote(c.Args[0]))
			}
		case clearlyNotNumeric(c.Args[0]):
			w.Count("tofloat_nan_cases")
			if !got.IsNaN() {
				bad("toFloat-nan", "NaN", gd.String(), src+" with s="+strconv.Quote(c.Args[0]))
			}
		default:
			w.Skip("tofloat-unspecified-text")
		}
	case "&", "|", "^":
		a, _ := args[0].Int64()
		b, _ := args[1].Int64()
		var want int64
		switch c.Fn {
		case "&":
			want = a & b
		case "|":
			want = a | b
		default:
			want = a ^ b
		}
		src := c.argSrc(0) + " " + c.Fn + " " + c.argSrc(1)
		got, gd, ok := decElem(w, c, src, nil)
		if ok && !got.Equal(ref.DecInt(want)) {
			bad("bitop:"+c.Fn, want, gd.String(), src)
		}
	case "~":
		a, _ := args[0].Int64()
		src := "~" + c.argSrc(0)
		got, gd, ok := decElem(w, c, src, nil)
		if ok && !got.Equal(ref.DecInt(^a)) {
			bad("bitop:~", ^a, gd.String(), src)
		}
	}
})

func isNumericText(s string) bool {
	t := strings.TrimLeft(s, "+-")
	if len(t) != len(s) && len(s)-len(t) > 1 {
		return false
	}
	if t == "" || strings.ContainsAny(t, "_ ") {
		return false
	}
	mant := t
	if i := strings.IndexAny(t, "eE"); i >= 0 {
		mant = t[:i]
		e := strings.TrimLeft(t[i+1:], "+-")
		if len(t[i+1:])-len(e) > 1 || e == "" || strings.Trim(e, "0123456789") != "" || len(e) > 3 {
			return false
		}
	}
	parts := strings.SplitN(mant, ".", 2)
	if parts[0] == "" {
		return false
	}
	for _, p := range parts {
		if strings.Trim(p, "0123456789") != "" {
			return false
		}
	}
	if len(parts) == 2 && parts[1] == "" {
		return false
	}
	return true
}

func clearlyNotNumeric(s string) bool {
	if s == "" {
		return true // text without a single digit is not a numeric string
	}
	l := strings.ToLower(strings.TrimLeft(s, "+-"))
	if strings.HasPrefix(l, "inf") || strings.HasPrefix(l, "nan") || strings.HasPrefix(l, "snan") || strings.HasPrefix(l, "qnan") {
		return false
	}
	for _, r := range s {
		if !strings.ContainsRune("0123456789+-.eE", r) {
			return true
		}
	}
	return false
}

// arg15 draws a decimal with <= 15 significant digits and exponent within +-15.
func arg15(r *rand.Rand) string {
	n := 1 + r.Intn(15)
	dig := digits(r, n)
	exp := r.Intn(31) - 15
	switch r.Intn(10) {
	case 0: // tie x.5
		dig = digits(r, 1+r.Intn(8)) + "5"
		exp = -1
	case 1: // integer
		exp = r.Intn(4)
	case 2: // near-integer
		dig = digits(r, 1+r.Intn(5)) + strings.Repeat("9", 1+r.Intn(6))
		exp = -(1 + r.Intn(6))
	case 3:
		dig, exp = "0", r.Intn(5)-2
	case 4: // moderate magnitude
		exp = -r.Intn(n + 1)
	case 5: // even/odd ties
		dig = strconv.Itoa(r.Intn(12)) + "5"
		exp = -1
	case 6: // many digits far below one, or far above the digits a float64 holds
		if n < 10 {
			dig = digits(r, 10+r.Intn(6))
		}
		exp = -(16 + r.Intn(30))
		if r.Intn(4) == 0 {
			exp = 16 + r.Intn(30)
		}
	}
	return spell(r, r.Intn(2) == 0, dig, exp)
}

// decPlain writes a non-negative Dec as coefficient and exponent text.
func decPlain(d ref.Dec) string {
	if d.Exp == 0 {
		return d.Coef.String()
	}
	return d.Coef.String() + "e" + strconv.Itoa(d.Exp)
}

func spellExp(dig string, e int) string {
	if e == 0 {
		return dig
	}
	return dig + "e" + strconv.Itoa(e)
}

// ZeroCase: a function applied to an expression whose value is zero (possibly a zero that carries a sign: the
// result of rounding a small negative number, of 0 times a negative number, a float64 -0.0 in the data).
type ZeroCase struct {
	Fn   string `json:"fn"`
	Zero string `json:"zero"`
}

var c18ZeroData = map[string]interface{}{"nz": math.Copysign(0, -1), "nz32": float32(math.Copysign(0, -1)), "qty": 0, "dx": -3.25}

// a zero is zero: a function of it is the function of the literal 0, whatever computation produced it
var c18Zero = core.Mon(c18, "zero-is-zero", func(w *core.W, c *ZeroCase) {
	w.Count("zero_cases")
	w.Nontrivial(c.Fn + "|" + c.Zero)
	src := "[" + c.Zero + ", " + c.Fn + "(" + c.Zero + "), " + c.Fn + "(0)]"
	if c.Fn == "~" || c.Fn == "-" {
		src = "[" + c.Zero + ", " + c.Fn + "(" + c.Zero + "), " + c.Fn + "0]"
	}
	v, err, panicked, pv := resolveIn(c18ZeroData, src)
	w.Eval(1)
	if panicked || err != nil {
		w.Violation("zero-is-zero", "C18/zero-error:"+c.Fn, c, "three values", fmt.Sprint(pv, err), src)
		return
	}
	arr, _ := v.([]interface{})
	if len(arr) != 3 {
		w.Violation("zero-is-zero", "C18/zero-shape:"+c.Fn, c, "three values", show(v), src)
		return
	}
	z, ok := arr[0].(*decimal.Big)
	if !ok || z == nil || z.Sign() != 0 || !z.IsFinite() {
		w.Violation("zero-is-zero", "C18/not-zero", c, "0", show(arr[0]), c.Zero+" is zero")
		return
	}
	if z.Signbit() {
		w.Count("zeros_with_sign")
	}
	a, oka := arr[1].(*decimal.Big)
	b, okb := arr[2].(*decimal.Big)
	if oka != okb {
		w.Violation("zero-is-zero", "C18/zero-differs:"+c.Fn, c, show(arr[2]), show(arr[1]), src)
		return
	}
	if !oka {
		sa, sb := fmt.Sprint(arr[1]), fmt.Sprint(arr[2])
		da, pa := ref.ParseDec(sa)
		db, pb := ref.ParseDec(sb)
		if pa && pb && sameNumber(da, db) {
			return // toString of a zero reads back as zero, whatever its exponent
		}
		if strings.TrimPrefix(sa, "-") != strings.TrimPrefix(sb, "-") {
			w.Violation("zero-is-zero", "C18/zero-differs:"+c.Fn, c, show(arr[2]), show(arr[1]), src)
		}
		return
	}
	if !sameNumber(obs.DecOf(a), obs.DecOf(b)) {
		w.Violation("zero-is-zero", "C18/zero-differs:"+c.Fn, c, show(b), show(a), fmt.Sprintf("%s: %s is zero, yet %s of it is not %s of 0", src, c.Zero, c.Fn, c.Fn))
	}
})

func init() { c18.Run = runC18 }

func runC18(w *core.W) {
	r := w.RNG("args")
	idx := 0
	run := func(c *NumFnCase) {
		c18Check(w, c)
		idx++
		if idx%2503 == 0 {
			w.Sample(c.Fn, c.Fn+"("+strings.Join(c.Args, ", ")+")")
		}
	}
	zi := 0
	for _, z := range []string{"0", "-0", "0.0", "-0.0", "0e5", "round(-0.4)", "roundBank(-0.5)", "toInt(-0.5)", "toInt('-0.9')", "ceil(-0.3)", "0 * -3", "-3 * 0", "qty * dx", "0 / -7", "nz", "nz32", "-nz", "nz * 5", "nz + nz", "toFloat('-0')", "toFloat('-0.000')", "min(0, nz)", "max(nz, -0)", "-(1 - 1)", "abs(nz)", "0 % -5", "-5 % 5"} {
		for _, fn := range []string{"abs", "ceil", "floor", "round", "roundBank", "sqrt", "exp", "ln", "log", "toInt", "toFloat", "toString", "finite", "~", "-", "max", "min"} {
			if zi++; w.Mine(zi) {
				c18Zero(w, &ZeroCase{Fn: fn, Zero: z})
			}
		}
	}
	// fixed edge cases for the rounding family
	edges := []string{"0", "-0", "0.5", "-0.5", "1.5", "-1.5", "2.5", "-2.5", "3.5", "0.49", "0.51", "-0.49", "-0.51", "2.4", "2.6", "1e15", "-1e15", "123456789012345e15", "999999999999999.5", "1e-15", "-1e-15", "0.50000000000001", "2.49999999999999", "1", "-1", "10", "99.5", "100.5", "-99.5", "1e30"}
	for i, e := range edges {
		if !w.Mine(i) {
			continue
		}
		for _, fn := range []string{"abs", "ceil", "floor", "round", "roundBank", "toInt", "toString", "finite", "toFloat"} {
			run(&NumFnCase{Fn: fn, Args: []string{e}})
		}
	}
	for k := -15; k <= 30; k++ {
		if w.Mine(k + 15) {
			run(&NumFnCase{Fn: "logpow10", Args: []string{strconv.Itoa(k)}})
		}
	}
	// exp beyond what a float64 can hold (the statement's arguments reach far further than 709.78), ln just below and above 1
	for i, x := range []string{"690", "700", "705", "709", "709.78", "709.79", "710", "720", "750", "800", "850", "869", "-690", "-709.78", "-710", "-745", "-750", "-800", "-869", "1e2", "5e2", "0.7e3"} {
		if w.Mine(i) {
			run(&NumFnCase{Fn: "exp", Args: []string{x}})
		}
	}
	for i, d := range []string{"1e-15", "3e-12", "2e-8", "5e-6", "1e-3", "0.03", "0.1"} {
		if w.Mine(i) {
			dd, _ := ref.ParseDec(d)
			one := ref.Dec{Coef: big.NewInt(1)}
			run(&NumFnCase{Fn: "ln", Args: []string{decPlain(ref.Sub(one, dd))}})
			run(&NumFnCase{Fn: "ln", Args: []string{decPlain(ref.Add(one, dd))}})
			run(&NumFnCase{Fn: "log", Args: []string{decPlain(ref.Sub(one, dd))}})
			run(&NumFnCase{Fn: "log", Args: []string{decPlain(ref.Add(one, dd))}})
		}
	}
	for i, n := 0, w.Pick(12000, 200000); i < n; i++ {
		a := arg15(r)
		for _, fn := range []string{"abs", "ceil", "floor", "round", "roundBank", "toInt", "toString", "finite", "toFloat"} {
			run(&NumFnCase{Fn: fn, Args: []string{a}})
		}
		k := 1 + r.Intn(6)
		list := make([]string, k)
		for j := range list {
			list[j] = arg15(r)
			if j > 0 && r.Intn(4) == 0 {
				list[j] = list[r.Intn(j)] // duplicates and equal values in other spellings
			}
		}
		run(&NumFnCase{Fn: "max", Args: list})
		run(&NumFnCase{Fn: "min", Args: list})
		if i%4 == 0 {
			// neighbours in the last of 16-34 digits, and magnitudes far outside the float64 range: max/min pick by value
			base := digits(r, 16+r.Intn(19))
			for base[0] == '0' {
				base = digits(r, len(base))
			}
			e := []int{0, -3, -len(base) + 1, 5, 400, -400, 3000, -3000}[r.Intn(8)]
			bump := func(d string, by int) string {
				b := []byte(d)
				b[len(b)-1] = byte('0' + (int(b[len(b)-1]-'0')+by)%10)
				return string(b)
			}
			wide := []string{spellExp(base, e), spellExp(bump(base, 1), e), spellExp(bump(base, 2), e)}
			r.Shuffle(len(wide), func(a, b int) { wide[a], wide[b] = wide[b], wide[a] })
			if r.Intn(2) == 0 {
				for k := range wide {
					wide[k] = "-" + wide[k]
				}
			}
			run(&NumFnCase{Fn: "max", Args: wide})
			run(&NumFnCase{Fn: "min", Args: wide})
			w.Count("maxmin_wide_neighbours")
		}
		// transcendental: positive arguments of moderate size are the common case
		pos := strings.TrimPrefix(a, "-")
		run(&NumFnCase{Fn: "sqrt", Args: []string{pos}})
		run(&NumFnCase{Fn: "ln", Args: []string{pos}})
		run(&NumFnCase{Fn: "log", Args: []string{pos}})
		ea := spell(r, r.Intn(2) == 0, digits(r, 1+r.Intn(15)), -r.Intn(16)-r.Intn(3)+2)
		run(&NumFnCase{Fn: "exp", Args: []string{ea}})
		// bit operators
		mk := func() string {
			v := int64(r.Uint64() >> uint(11+r.Intn(53)))
			if r.Intn(2) == 0 {
				v = -v
			}
			return strconv.FormatInt(v, 10)
		}
		x, y := mk(), mk()
		for _, op := range []string{"&", "|", "^"} {
			run(&NumFnCase{Fn: op, Args: []string{x, y}})
		}
		run(&NumFnCase{Fn: "~", Args: []string{x}})
		// the same integers spelled with an exponent (a decimal whose coefficient is not the integer itself)
		ex := func(v string) string {
			neg := strings.HasPrefix(v, "-")
			v = strings.TrimPrefix(v, "-")
			t := strings.TrimRight(v, "0")
			if t == "" {
				return "0e0"
			}
			var out string
			switch r.Intn(3) {
			case 0:
				out = t + "e" + strconv.Itoa(len(v)-len(t))
			case 1:
				out = t[:1] + "." + t[1:] + "e" + strconv.Itoa(len(v)-1)
				if len(t) == 1 {
					out = t + "e" + strconv.Itoa(len(v)-1)
				}
			default:
				out = v + "000e-3"
			}
			if neg {
				out = "-" + out
			}
			return out
		}
		x10 := strconv.FormatInt(int64(r.Intn(1<<20))*[]int64{10, 100, 1000, 1000000}[r.Intn(4)], 10)
		for _, pr := range [][2]string{{ex(x), y}, {x, ex(y)}, {ex(x10), "1023"}, {x10, ex(x10)}} {
			for _, op := range []string{"&", "|", "^"} {
				run(&NumFnCase{Fn: op, Args: []string{pr[0], pr[1]}})
			}
			run(&NumFnCase{Fn: "~", Args: []string{pr[0]}})
			w.Count("bitop_exponent_spellings")
		}
		// strings for toFloat / toInt / finite
		strs := []string{a, "+" + pos, pos + "e2", "abc", "12abc", "1,5", " 1", "1 ", "", "0x10", "1e", "--1", "1.2.3", "one", "1_000", "٣", "１２", "Infinity", "NaN", "-", ".", "e5", "1e5", "-.5", "5.", " ", "  ", "\t", "\n", " \t ", "\u00a0", "\u3000"}
		s := strs[r.Intn(len(strs))]
		run(&NumFnCase{Fn: "toInt", Args: []string{a}, Str: true})
		run(&NumFnCase{Fn: "toInt", Args: []string{[]string{"1.5e3", "9.99e-1", "-2.5E2", "12.75", "7", "1e3", "-0.5", "1.5E+15", "123.456e2", "0.0001e4", "-9.9e0", ".5e1", "5.e1"}[i%13]}, Str: true})
		run(&NumFnCase{Fn: "toFloat", Args: []string{s}, Str: true})
		run(&NumFnCase{Fn: "finite", Args: []string{s}, Str: true})
		// numeric texts with more digits than a float64 holds: the number written, exactly
		long := digits(r, 16+r.Intn(19))
		if k := r.Intn(len(long)); k > 0 && r.Intn(2) == 0 {
			long = long[:k] + "." + long[k:]
		}
		if r.Intn(3) == 0 {
			long = "-" + long
		}
		run(&NumFnCase{Fn: "toFloat", Args: []string{long}, Str: true})
		w.Count("tofloat_long_texts")
	}
}
