package props

import (
	"context"
	"encoding/json"
	"fmt"
	"reflect"
	"regexp"
	"runtime"
	"sort"
	"strings"
	"time"

	"github.com/aundis/formula"

	"verifmon/internal/core"
	"verifmon/internal/gen"
	"verifmon/internal/obs"
	"verifmon/internal/ref"
	"verifmon/internal/val"
)

var c08 = core.Register(&core.Prop{
	ID:    "C08",
	Title: "Evaluation is a pure function of formula text and data",
	Rule: "(formula, data) pairs from a pool covering every builtin, operator and node kind (incl. error-producing formulas), each parsed twice, evaluated repeatedly in fresh runners over freshly built equal data, interleaved with parsing, evaluation and field analysis of unrelated formulas; " +
		"full reflective dump of the tree (ids, parents, ranges included) before and after; non-trivial = formula with at least one operator, call or member access; distinct by (formula, data)",
	Assumptions: []string{
		"now and toDay are excluded from value comparison (the statement's exception)",
		"values are compared by a deep rendering (decimals in their internal representation); reported fields are compared as sets",
	},
	Shards: func(tier string) int { return pickTier(tier, 8, 16) },
	Floors: func(c map[string]int64, tier string) []string {
		var out []string
		for _, k := range []string{"order_comparisons", "pairs", "repeat_evaluations", "foreign_operations", "tree_dumps_compared", "error_results_repeated", "value_results_repeated", "field_analyses", "shared_data_runs", "kept_results_compared"} {
			if c[k] == 0 {
				out = append(out, "coverage floor: no "+k)
			}
		}
		for _, b := range gen.Builtins {
			if c["builtin:"+b] == 0 {
				out = append(out, "coverage floor: builtin "+b+" never evaluated repeatedly")
			}
		}
		return out
	},
})

// PureCase: one formula/data pair, the unrelated formulas run in between, the number of repetitions.
type PureCase struct {
	Src     string   `json:"src"`
	Data    val.V    `json:"data"`
	Foreign []string `json:"foreign"`
	FData   val.V    `json:"fdata"`
	Reps    int      `json:"reps"`
}

var addrRE = regexp.MustCompile(`(?i)0x[0-9a-f]{6,}`)

// outcome renders what an evaluation produced; heap addresses (which appear when a pointer
// nested in a struct is formatted into a string) are masked, they are not part of the value.
func outcome(v interface{}, err error, panicked bool, pv interface{}) string {
	if panicked {
		return "PANIC " + addrRE.ReplaceAllString(fmt.Sprint(pv), "0xPTR")
	}
	if err != nil {
		return "ERROR " + addrRE.ReplaceAllString(err.Error(), "0xPTR")
	}
	return "VALUE " + addrRE.ReplaceAllString(obs.SnapshotValues(v), "0xPTR")
}

func evalTree(sc *formula.SourceCode, data val.V) string {
	_, o := evalTreeKeep(sc, data)
	return o
}

var freshRunners int

// addressSensitive reports whether the outcome of a formula depends on WHERE the data lives rather than on what it
// holds: a pointer nested in a container is formatted as its address, and once a string builtin has cut, replaced or
// re-cased that text the address can no longer be masked. Two evaluations against one built data object agree while an
// evaluation against a second, equal build differs. Such outcomes are not comparable between builds (nor processes).
func addressSensitive(sc *formula.SourceCode, data val.V) bool {
	// only a formula that reads a value under which a heap address is formatted (or the data as a whole) can be
	reads := false
	obs.Walk(sc.Expression, func(e formula.Expression) {
		switch n := e.(type) {
		case *formula.Identifier:
			for i := range data.M {
				if data.M[i].K == n.Value && !reflect.DeepEqual(val.StripAddr(data.M[i].V), data.M[i].V) {
					reads = true
				}
			}
		case *formula.LiteralExpression:
			if n.Token == formula.SK_ThisKeyword {
				reads = true
			}
		}
	})
	if !reads {
		return false
	}
	m, _ := val.Build(data, &val.Env{}).(map[string]interface{})
	own := map[string]bool{}
	for k := range m {
		own[k] = true
	}
	on := func() string {
		_, o := evalOnMap(sc, m)
		for k := range m {
			if !own[k] {
				delete(m, k)
			}
		}
		return o
	}
	a1, a2 := on(), on()
	if a1 != a2 {
		return false
	}
	// further builds of equal data, alive at the same time as the first
	for i := 0; i < addressProbeBuilds; i++ {
		if evalTree(sc, data) != a1 {
			runtime.KeepAlive(m)
			return true
		}
	}
	runtime.KeepAlive(m)
	return false
}

// addressProbeBuilds: how many other builds are compared (1 when screening every case; raised to 12 before a difference
// between builds is reported, since "does the digit 5 occur in the address" differs only between some builds).
var addressProbeBuilds = 1

func addressSensitiveForSure(sc *formula.SourceCode, data val.V) bool {
	addressProbeBuilds = 12
	defer func() { addressProbeBuilds = 1 }()
	return addressSensitive(sc, data)
}

// evalTreeKeep also hands back the value itself (to look at it again later).
func evalTreeKeep(sc *formula.SourceCode, data val.V) (interface{}, string) {
	return evalOnMap(sc, shallowCopy(builtFor(data)))
}

// builtFor builds the Go values of a data spec once per spec (the last few specs are kept): every evaluation of a case gets
// its own top-level map over the SAME nested objects, so that texts into which fmt has formatted the address of a nested
// pointer are identical from evaluation to evaluation (an address cut or replaced by a string builtin cannot be masked).
// Evaluation does not modify nested data (C07); a mutant that does is seen as a difference between the repeats.
var builtCache = map[*val.KV]map[string]interface{}{}

// builtSnap: what each cached build held when it was built. Evaluations get shallow copies of the build, so whatever
// they leave in it afterwards (a list member converted in place, a map entry added) is a change to the caller's data.
var builtSnap = map[*val.KV]string{}

func mapSnapshot(m map[string]interface{}) string {
	keys := make([]string, 0, len(m))
	for k := range m {
		keys = append(keys, k)
	}
	sort.Strings(keys)
	var sb strings.Builder
	for _, k := range keys {
		sb.WriteString(k)
		sb.WriteByte('=')
		sb.WriteString(obs.Snapshot(m[k]))
		sb.WriteByte('\n')
	}
	return sb.String()
}

// builtChanged reports the first difference between the cached build of a spec and what it held when built (and
// forgets the build, so that later cases start from intact data).
func builtChanged(data val.V) string {
	if len(data.M) == 0 {
		return ""
	}
	key := &data.M[0]
	m, ok := builtCache[key]
	if !ok {
		return ""
	}
	if now := mapSnapshot(m); now != builtSnap[key] {
		d := firstDiff(builtSnap[key], now)
		delete(builtCache, key)
		delete(builtSnap, key)
		return d
	}
	return ""
}

func builtFor(data val.V) map[string]interface{} {
	if len(data.M) == 0 {
		m, _ := val.Build(data, &val.Env{}).(map[string]interface{})
		return m
	}
	key := &data.M[0]
	if m, ok := builtCache[key]; ok {
		return m
	}
	if len(builtCache) > 32 {
		builtCache = map[*val.KV]map[string]interface{}{}
		builtSnap = map[*val.KV]string{}
	}
	m, _ := val.Build(data, &val.Env{}).(map[string]interface{})
	builtCache[key] = m
	builtSnap[key] = mapSnapshot(m)
	return m
}

// evalOnMap evaluates on a fresh runner over the given map.
func evalOnMap(sc *formula.SourceCode, m map[string]interface{}) (interface{}, string) {
	r := formula.NewRunner()
	// a runner fresh from NewRunner holds nothing: neither a data map nor anything in its auxiliary store (every
	// evaluation of this monitor leaves a mark in the store of the runner it used)
	if left := r.Get("verif-mark"); left != nil {
		return nil, fmt.Sprintf("STATE a runner fresh from NewRunner already holds %v in its auxiliary store", left)
	}
	freshRunners++
	r.Set("verif-mark", freshRunners)
	r.SetThis(m)
	var v interface{}
	var err error
	ctx, release := hostCtxFor(sc)
	defer release()
	p, pv := core.Call(func() { v, err = r.Resolve(ctx, sc.Expression) })
	return v, outcome(v, err, p, pv)
}

func fieldsOf(sc *formula.SourceCode) string {
	var f []string
	var err error
	p, pv := core.Call(func() { f, err = formula.ResolveReferenceFields(sc) })
	if p {
		return "PANIC " + fmt.Sprint(pv)
	}
	if err != nil {
		return "ERROR " + err.Error()
	}
	sort.Strings(f)
	return strings.Join(f, ",")
}

var c08Pure = core.Mon(c08, "repeat-and-interleave", func(w *core.W, c *PureCase) {
	w.Eval(1)
	sc, err := hostParse([]byte(c.Src), true)
	// the second parse is from a private buffer that stays as it is; the first one is from the host's reused
	// buffer, which holds something else by the time the tree is used: the two trees must not differ
	private := []byte(c.Src)
	sc2, err2 := formula.ParseSourceCode(private)
	if (err == nil) != (err2 == nil) || (err != nil && err.Error() != err2.Error()) {
		w.Violation("repeat-and-interleave", "C08/parse-outcome-differs", c, fmt.Sprint(err), fmt.Sprint(err2), "parsing the same text twice gave different outcomes: "+fmt.Sprintf("%q", clipS(c.Src, 120)))
		return
	}
	if err != nil {
		w.Count("rejected_texts_parsed_twice")
		return
	}
	w.Count("pairs")
	defer func() {
		// every evaluation of this case ran over (a shallow copy of) one build of the data: it still holds what it was built with
		w.Count("data_builds_compared")
		if d := builtChanged(c.Data); d != "" {
			w.Violation("repeat-and-interleave", "C08/evaluation-changed-callers-data", c, "the data as built", d,
				fmt.Sprintf("after the evaluations of %q (and of %d other formulas) the caller's data object no longer holds what it was built with", clipS(c.Src, 120), len(c.Foreign)))
		}
	}()
	d0 := obs.FullDump(sc)
	w.Count("tree_dumps_compared")
	if de, d2 := obs.FullDump(sc.Expression), obs.FullDump(sc2.Expression); d2 != de {
		w.Violation("repeat-and-interleave", "C08/parse-not-deterministic", c, clipS(d2, 300), clipS(de, 300), "two parses of the same text give different trees (one from a private buffer, one from a buffer the host has re-used since)")
		return
	}
	if string(private) != c.Src {
		w.Violation("repeat-and-interleave", "C08/parse-wrote-into-callers-buffer", c, clipS(c.Src, 200), clipS(string(private), 200), "parsing changed the text it was given")
		return
	}
	clock := false
	for _, l := range ref.Lexemes([]byte(c.Src)) {
		if l == "now" || l == "toDay" {
			clock = true
		}
		for _, b := range gen.Builtins {
			if l == b {
				w.Count("builtin:" + b)
			}
		}
	}
	if strings.ContainsAny(c.Src, "+-*/%(.<>=&|!?~[") {
		w.Nontrivial(c.Src + "\x00" + core.HashStr(c.Data))
	}
	firstVal, first := evalTreeKeep(sc, c.Data)
	if !clock && addressSensitive(sc, c.Data) {
		w.Skip("address-dependent-output")
		return
	}
	f0 := fieldsOf(sc)
	w.Count("field_analyses")
	// a formula without now / toDay does not read the clock: the same outcome when the wall clock says 2038 or 1930
	// (virtual clock of the harness build, see tools/mkoverlay.py)
	if again := evalTree(sc, c.Data); !clock && again != first {
		if addressSensitiveForSure(sc, c.Data) {
			w.Skip("address-dependent-output")
			return
		}
		w.Violation("repeat-and-interleave", "C08/evaluation-not-repeatable", c, clipS(first, 300), clipS(again, 300),
			fmt.Sprintf("the second evaluation of %q (fresh runner, equal data, nothing in between) differs from the first", clipS(c.Src, 120)))
		return
	}
	if !clock && obs.ClockAvailable() {
		for _, at := range []time.Time{time.Unix(1<<31+12345, 5), time.Unix(-1262304000, 0), time.Unix(4102444800+86399, 999999999)} {
			var o string
			obs.WithClock(at, func() { o = evalTree(sc, c.Data) })
			w.Count("evaluations_under_another_clock")
			if o != first {
				if addressSensitiveForSure(sc, c.Data) {
					w.Skip("address-dependent-output")
					return
				}
				w.Violation("repeat-and-interleave", "C08/depends-on-the-clock", c, clipS(first, 300), clipS(o, 300),
					fmt.Sprintf("%q has no clock builtin, yet it evaluates differently when the wall clock reads %s", clipS(c.Src, 120), at.UTC().Format(time.RFC3339)))
				return
			}
		}
	} else if !clock {
		w.Skip("no-clock-overlay")
	}
	if o2, f2 := evalTree(sc2, c.Data), fieldsOf(sc2); !clock && (o2 != first || f2 != f0) {
		if f2 == f0 && addressSensitiveForSure(sc, c.Data) {
			w.Skip("address-dependent-output")
			return
		}
		w.Violation("repeat-and-interleave", "C08/tree-depends-on-callers-buffer", c, clipS(o2+" fields "+f2, 300), clipS(first+" fields "+f0, 300),
			fmt.Sprintf("the tree parsed from a buffer the host re-used afterwards evaluates/analyses differently from the tree of the same text %q parsed from a private buffer", clipS(c.Src, 120)))
		return
	}
	if !clock {
		dep, nkeys := contextInputs(sc, c.Data, first)
		w.Count("context_lookup_scans")
		w.CountN("undeclared_context_keys_probed", int64(nkeys))
		if dep != "" {
			if addressSensitiveForSure(sc, c.Data) {
				w.Skip("address-dependent-output")
				return
			}
			w.Violation("repeat-and-interleave", "C08/depends-on-a-context-value", c, clipS(first, 300), dep,
				fmt.Sprintf("%q reads a value out of the caller's context that is neither text nor data: equal text and equal data, another outcome", clipS(c.Src, 120)))
			return
		}
	}
	for rep := 0; rep < c.Reps; rep++ {
		// unrelated work in between
		for i, fs := range c.Foreign {
			if (i+rep)%2 == 0 {
				continue
			}
			w.Count("foreign_operations")
			fsc, ferr := hostParse([]byte(fs), true)
			if ferr == nil {
				evalTree(fsc, c.FData)
				fieldsOf(fsc)
			}
		}
		again := evalTree(sc, c.Data)
		w.Count("repeat_evaluations")
		if strings.HasPrefix(first, "ERROR") {
			w.Count("error_results_repeated")
		} else {
			w.Count("value_results_repeated")
		}
		if !clock && again != first {
			if addressSensitiveForSure(sc, c.Data) {
				w.Skip("address-dependent-output")
				return
			}
			w.Violation("repeat-and-interleave", "C08/evaluation-not-repeatable", c, clipS(first, 300), clipS(again, 300),
				fmt.Sprintf("evaluation %d of %q differs from the first one (fresh runner, equal data)", rep+2, clipS(c.Src, 120)))
			return
		}
		if f := fieldsOf(sc); f != f0 {
			w.Violation("repeat-and-interleave", "C08/field-analysis-not-repeatable", c, f0, f, c.Src)
			return
		}
		// a fresh parse in this history still gives the same tree
		if rep == c.Reps-1 {
			sc3, err3 := hostParse([]byte(c.Src), true)
			if err3 != nil || obs.FullDump(sc3) != d0 {
				w.Violation("repeat-and-interleave", "C08/parse-depends-on-history", c, "same tree", fmt.Sprint(err3), c.Src)
				return
			}
		}
	}
	// one data object serving many evaluations (a host builds the record once and evaluates many formulas
	// against it): what one evaluation does must not change what the next one sees. Locals are the
	// formulas' own writes into the map and are removed after each evaluation.
	if !clock {
		shared := shallowCopy(builtFor(c.Data))
		own := map[string]bool{}
		for k := range shared {
			own[k] = true
		}
		onShared := func(t *formula.SourceCode) string {
			r := formula.NewRunner()
			r.SetThis(shared)
			var v interface{}
			var err error
			ctx, release := hostCtxFor(t)
			defer release()
			p, pv := core.Call(func() { v, err = r.Resolve(ctx, t.Expression) })
			out := outcome(v, err, p, pv)
			for k := range shared {
				if !own[k] {
					delete(shared, k)
				}
			}
			return out
		}
		w.Count("shared_data_runs")
		for round := 0; round < 2; round++ {
			if got := onShared(sc); got != first {
				if addressSensitiveForSure(sc, c.Data) {
					w.Skip("address-dependent-output")
					return
				}
				w.Violation("repeat-and-interleave", "C08/evaluation-changed-callers-data", c, clipS(first, 300), clipS(got, 300),
					fmt.Sprintf("%q evaluated against a data object that earlier evaluations (of itself and of %d other formulas) had used gives a different outcome than against freshly built equal data", clipS(c.Src, 120), len(c.Foreign)))
				return
			}
			for _, fs := range c.Foreign {
				if fsc, ferr := hostParse([]byte(fs), true); ferr == nil {
					onShared(fsc)
				}
			}
		}
	}
	// the value handed back by the very first evaluation is the caller's from then on: nothing evaluated since
	// (by this or any other runner) may have changed it
	if strings.HasPrefix(first, "VALUE") {
		w.Count("kept_results_compared")
		if now := outcome(firstVal, nil, false, nil); now != first {
			w.Violation("repeat-and-interleave", "C08/returned-value-changed-later", c, clipS(first, 300), clipS(now, 300),
				fmt.Sprintf("the value returned by the first evaluation of %q reads differently after %d further evaluations", clipS(c.Src, 120), c.Reps))
			return
		}
	}
	w.Count("tree_dumps_compared")
	if d1 := obs.FullDump(sc); d1 != d0 {
		w.Violation("repeat-and-interleave", "C08/tree-modified", c, clipS(d0, 300), clipS(d1, 300), "the tree changed during evaluation / field analysis of "+fmt.Sprintf("%q", clipS(c.Src, 120)))
	}
})

// OrderCase: the list is a pure function of (seed, shard, n); outcomes must not depend on evaluation order.
type OrderCase struct {
	Seed  int64 `json:"seed"`
	Shard int   `json:"shard"`
	N     int   `json:"n"`
}

func orderList(seed int64, shard, n int) []EvalCase {
	w := core.NewW("C08", "quick", seed, shard, 1, "")
	r := w.RNG("order-list")
	cfg := fixNums(EvalSyntax())
	// (no heap addresses in these data: the outcomes are compared between processes)
	datas := []val.V{val.StripAddr(StdData(r)), val.StripAddr(StdData(r)), val.StripAddr(StdData(r))}
	var out []EvalCase
	// every builtin with constant and data-dependent arguments in each position
	for _, b := range gen.Builtins {
		if b == "lpad" || b == "rpad" || b == "now" || b == "toDay" {
			continue
		}
		for _, tmpl := range []string{"%s(s0, 'a')", "%s('abc', s1)", "%s(s0, '^a')", "%s(n0, 2)", "%s(2, n1)", "%s(s0)", "%s(n0)", "%s(t0)", "%s(arr, 'k')", "%s(strs, s0)", "%s(s0, 'a', 'b')", "%s(s0, 1, 2)",
			"%s(m, ',')", "%s(m)", "%s(tm, 'k')", "%s(ms, 'name')", "%s(st)", "%s(this, s0)", "%s(m.b, n0)", "%s(arr)", "%s(m, m)"} {
			for _, d := range datas {
				out = append(out, EvalCase{Src: fmt.Sprintf(tmpl, b), Data: d})
			}
		}
	}
	// member access on every struct-like data name (two of them are different types with the same type name)
	for _, base := range []string{"st", "pst", "ra", "rb", "m", "tm", "x0", "x1", "odd"} {
		for _, mem := range stdMembers {
			for _, d := range datas {
				out = append(out, EvalCase{Src: base + "." + mem, Data: d})
			}
		}
	}
	for _, z := range zoneSpellings {
		out = append(out, EvalCase{Src: "hour(useTimezone(t0, '" + z + "'))", Data: datas[0]}, EvalCase{Src: "timeFormat(useTimezone(t0, '" + z + "'), 'MST -0700')", Data: datas[1]})
	}
	// sibling host functions: which of them an earlier formula called does not matter to a later one
	for _, src := range []string{"fmk1(n0)", "fmk2(n0)", "mget1(s0)", "mget2(s0)", "[fmk2(1), fmk1(1)]", "[mget2('k'), mget1('k')]", "fmk1(fmk2(s0))", "mget2(mget1('q'))", "frowA(ra)", "frowB(rb)", "[frowB(rb), frowA(ra)]", "frowA(rb)", "frowB(ra)"} {
		for _, d := range datas {
			out = append(out, EvalCase{Src: src, Data: d})
		}
	}
	// names that are nearly builtins (a prefix, one letter more, another letter case): what the failure says is the same every time
	for _, src := range nearBuiltinCalls() {
		out = append(out, EvalCase{Src: src, Data: datas[0]})
	}
	// rejected texts of many kinds (what a diagnostic says does not depend on which texts were rejected before)
	for _, bad := range rejectedTexts {
		out = append(out, EvalCase{Src: bad, Data: datas[0]})
	}
	n += len(out)
	for len(out) < n {
		src := ref.Print(NoSelfStore(cfg.Node(r, 1+r.Intn(4))))
		clock := false
		for _, l := range ref.Lexemes([]byte(src)) {
			if l == "now" || l == "toDay" {
				clock = true
			}
		}
		if clock {
			continue
		}
		// the same formula is evaluated against several data maps, far apart in the list
		for _, d := range datas {
			out = append(out, EvalCase{Src: src, Data: d})
		}
	}
	return out
}

// zone names in every letter case (a lookup is case sensitive or it is not - it does not learn)
var zoneSpellings = []string{"America/New_York", "america/new_york", "AMERICA/NEW_YORK", "Asia/Shanghai", "asia/shanghai", "Asia/shanghai", "UTC", "utc", "Utc", "Local", "local", "Europe/London", "europe/london", "EUROPE/LONDON", "Est", "EST", "est", "No/Such", "no/such"}

var rejectedTexts = []string{"1 2", "(1", "[1", "f(1", "a ?", "a ? 1", "a.", "1 +", "'x", "f(1,", "[1,", "a b", ")", "]", "a ? b c", "$a = ", "f(..)", "1..2", "a!.", "typeof", "1e", "1_", "0x", "#", "a ? : b",
	"(a", "((a)", "[a", "[[a]", "f(a", "f(g(a)", "a.b.", "a ? b : ", "-", "!", "a ,", ", a", "a ? b :: c", "f(a b)", "[a b]", "(a b)", "a\n.b", "f\n(1)", "'a\nb'", "\"x", "1 2 3", "f(1 2)", "[1 2]", "a ? 1 2 : 3", "{", "a..b",
	"f(...)", "f(a...b)", "[...a]", "a = ", "1 = ", "a ? b", "a ?? ", "a && ", "a || ", "~", "a.1", "a.'b'", "1.a", "1e+", ".e1", "1__0", "1_.0", "'\\", "'\\x4'", "'\\u12'", "@", "a @ b", "`a`", "a; b", "a :", ": a", "?", "a ? ? b : c"}

func orderOutcomes(list []EvalCase, order []int, beat func()) []string {
	out := make([]string, len(list))
	for k, i := range order {
		if beat != nil && k%64 == 0 {
			beat()
		}
		sc, err := hostParse([]byte(list[i].Src), true)
		if err != nil {
			out[i] = "PARSE " + err.Error()
			continue
		}
		out[i] = fmt.Sprintf("%016x", core.Hash64(evalTree(sc, list[i].Data)+"|"+fieldsOf(sc)))
	}
	return out
}

func orderPerm(n int, mode string) []int {
	p := make([]int, n)
	for i := range p {
		p[i] = i
	}
	switch mode {
	case "reverse":
		for i, j := 0, n-1; i < j; i, j = i+1, j-1 {
			p[i], p[j] = p[j], p[i]
		}
	case "stride":
		q := make([]int, 0, n)
		for s := 0; s < 7; s++ {
			for i := s; i < n; i += 7 {
				q = append(q, i)
			}
		}
		p = q
	}
	return p
}

var c08Order = core.Mon(c08, "order-independence", func(w *core.W, c *OrderCase) {
	list := orderList(c.Seed, c.Shard, c.N)
	fwd := orderOutcomes(list, orderPerm(len(list), "forward"), w.Beat)
	w.Eval(len(list))
	for _, mode := range []string{"reverse", "stride"} {
		w.Extend(400 * time.Second)
		raw, err := core.SelfExec(300, "c08order", fmt.Sprint(c.Seed), fmt.Sprint(c.Shard), fmt.Sprint(c.N), mode)
		if err != nil {
			w.Inconclusive("order-independence: child process failed: " + err.Error())
			return
		}
		var other []string
		if json.Unmarshal(raw, &other) != nil || len(other) != len(fwd) {
			w.Inconclusive("order-independence: unreadable child output")
			return
		}
		w.Eval(len(list))
		w.Beat()
		for i := range fwd {
			w.Count("order_comparisons")
			if fwd[i] != other[i] {
				if sci, perr := hostParse([]byte(list[i].Src), true); perr == nil && addressSensitiveForSure(sci, list[i].Data) {
					w.Skip("address-dependent-output")
					continue
				}
				w.Violation("order-independence", "C08/depends-on-evaluation-order", c, "same outcome in every order", fmt.Sprintf("case %d: forward %s, %s %s", i, fwd[i], mode, other[i]),
					fmt.Sprintf("%q gives a different outcome when the same %d (formula, data) pairs are evaluated in %s order in another process", clipS(list[i].Src, 120), len(list), mode))
				return
			}
		}
	}
})

func init() {
	c08.Run = runC08
	core.RegisterAux("c08order", func(args []string) int {
		if len(args) < 4 {
			return 3
		}
		var seed int64
		var shard, n int
		fmt.Sscan(args[0], &seed)
		fmt.Sscan(args[1], &shard)
		fmt.Sscan(args[2], &n)
		list := orderList(seed, shard, n)
		b, _ := json.Marshal(orderOutcomes(list, orderPerm(len(list), args[3]), nil))
		fmt.Println(string(b))
		return 0
	})
}

// nearBuiltinCalls: calls of names that are not builtins but nearly so.
func nearBuiltinCalls() []string {
	var out []string
	seen := map[string]bool{}
	for _, b := range gen.Builtins {
		seen[b] = true
	}
	add := func(name string) {
		if name != "" && !seen[name] {
			seen[name] = true
			out = append(out, name+"(n0)", name+"(s0, 1)")
		}
	}
	for _, b := range gen.Builtins {
		add(b + "Up")
		add(b + "Of")
		add(b[:len(b)-1])
		if len(b) > 3 {
			add(b[:3])
		}
		add(strings.ToUpper(b[:1]) + b[1:])
	}
	add("ro")
	add("to")
	add("m")
	add("s")
	return out
}

func runC08(w *core.W) {
	// first of all (nothing evaluated yet in this process): order independence across processes
	c08Order(w, &OrderCase{Seed: w.Seed, Shard: w.Shard, N: w.Pick(600, 3000)})
	cfg := fixNums(EvalSyntax())
	r := w.RNG("pool")
	// a pool of formulas: corpus + generated + one direct call per builtin
	var pool []string
	for _, s := range gen.Corpus {
		pool = append(pool, s)
	}
	for _, b := range gen.Builtins {
		if b == "lpad" || b == "rpad" {
			pool = append(pool, b+"(s0, 'x', 7)", b+"(s0, 'x', n0)")
			continue
		}
		pool = append(pool, b+"(n0)", b+"(s0, s1)", b+"(n0, n1)", b+"(t0)", b+"()", b+"(s0, n0, n1)", b+"(arr, s0)", b+"(t0, 1, 2, 3)", b+"(t0, 'UTC')", b+"(2020, 2, 30)",
			b+"(m, ',')", b+"(m)", b+"(tm, 'k')", b+"(ms, 'name')", b+"(this, s0)", b+"(m, m)")
	}
	for i := 0; i < w.Pick(1500, 4000); i++ {
		pool = append(pool, ref.Print(NoSelfStore(cfg.Node(r, 1+r.Intn(5)))))
	}
	// literal spellings that the scanner has to rewrite (escapes, digit separators), and spread calls over data containers
	pool = append(pool, hostileLiteralPool...)
	pool = append(pool, "fmk1(n0)", "fmk2(n0)", "mget1(s0)", "mget2(s0)", "[fmk2(1), fmk1(1)]", "[mget2('k'), mget1('k')]", "fmk1(fmk2(s0))", "mget2(mget1('q'))", "frowA(ra)", "frowB(rb)", "[frowB(rb), frowA(ra)]", "frowA(rb)", "frowB(ra)")
	pool = append(pool, nearBuiltinCalls()...)
	pool = append(pool, "ym.true", "ym.null", "ym.k", "ym.name", "[ym.true, ym.true, ym.true]", "ym!.true + ''", "-max(d0, n0)", "-min(d0, 1)", "-finite(d0)", "-fid(d0)", "~fid(d0)", "-max(d0, 0) + d0", "date(0, 3, 5)", "year(date(0, 1, 1))", "date(n0, 1, 1)", "timeFormat(date(0, 2, 29), '2006-01-02')", "addDate(t0, 0, 0, 0)", "year(t0) - year(date(1, 1, 1))", "date(0, 0, 0)", "weekDay(date(2024, 2, 29))")
	for _, f := range append(append([]string{}, stdFuncs...), safeBuiltins()...) {
		for _, cont := range []string{"arr", "strs", "ms", "x0", "x1", "odd"} {
			pool = append(pool, f+"("+cont+"...)", f+"(1, "+cont+"...)", "$v = "+cont+", "+f+"($v...)")
		}
	}
	reps := w.Pick(5, 20)
	for i, n := 0, w.Pick(9000, 60000); i < n; i++ {
		c := &PureCase{Src: pool[r.Intn(len(pool))], Data: StdData(r), FData: StdData(r), Reps: reps}
		if i < len(pool) {
			c.Src = pool[i]
		}
		for j, m := 0, 3+r.Intn(8); j < m; j++ {
			c.Foreign = append(c.Foreign, pool[r.Intn(len(pool))])
		}
		c08Pure(w, c)
		if i%1009 == 0 {
			w.Sample("pair", fmt.Sprintf("%q", clipS(c.Src, 100)))
		}
	}
}

// spyCtx records the keys an evaluation looks up in the caller's context. A result is a function of text and data: a
// context value the library reads behind the caller's back is a third input. The monitor does not guess - it watches
// which string-kinded keys are asked for, then supplies values under exactly those keys and compares outcomes.
type spyCtx struct {
	context.Context
	keys *[]interface{}
}

func (s spyCtx) Value(key interface{}) interface{} {
	*s.keys = append(*s.keys, key)
	return s.Context.Value(key)
}

// contextInputs evaluates sc over data under a recording context; for every plain or named string key other than the
// documented runner key it re-evaluates with probe values under that key. It returns a description of the first
// dependence found ("" if none) and the number of undeclared keys seen.
func contextInputs(sc *formula.SourceCode, data val.V, first string) (string, int) {
	uses := false
	obs.Walk(sc.Expression, func(e formula.Expression) {
		if l, ok := e.(*formula.LiteralExpression); ok && l.Token == formula.SK_CtxKeyword {
			uses = true
		}
	})
	if uses {
		return "", 0 // the formula itself hands the context on: whatever is in it is the formula's business
	}
	evalUnder := func(ctx context.Context) string {
		r := formula.NewRunner()
		r.SetThis(shallowCopy(builtFor(data)))
		var v interface{}
		var err error
		p, pv := core.Call(func() { v, err = r.Resolve(ctx, sc.Expression) })
		return outcome(v, err, p, pv)
	}
	var keys []interface{}
	base := evalUnder(spyCtx{context.Background(), &keys})
	if base != first {
		return "", 0 // (not comparable: reported by the repeat checks if it is a defect)
	}
	seen := map[string]bool{}
	undeclared := 0
	for _, k := range keys {
		if k == nil || reflect.TypeOf(k).Kind() != reflect.String {
			continue
		}
		ks := reflect.ValueOf(k).String()
		if ks == "formulaRunner" || seen[ks] {
			continue
		}
		seen[ks] = true
		undeclared++
		for _, probe := range []interface{}{time.FixedZone("P5", 5*3600), time.FixedZone("M3", -3*3600), "x", 1, true, int64(7), 2.5, time.Unix(99, 0).UTC(), map[string]interface{}{"k": 1}, []string{"a"}} {
			if o := evalUnder(context.WithValue(context.Background(), k, probe)); o != first {
				return fmt.Sprintf("with the context value %T(%v) under the key %T(%q): %s", probe, probe, k, ks, clipS(o, 200)), undeclared
			}
		}
	}
	return "", undeclared
}
