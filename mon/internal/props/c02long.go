package props

import (
	"fmt"
	"strings"
	"time"

	"github.com/aundis/formula"

	"verifmon/internal/core"
	"verifmon/internal/obs"
)

// LongFlatCase: one construct repeated N times side by side - a list, an argument list, a chain of one operator, a
// comma sequence. Such a formula nests no deeper than the unit itself; the grammar derives it however long it is,
// and the tree is the N units in order. (Counting resources - node budgets, depth counters that are not released,
// 16-bit indices - show only here.) The text is built from (Unit, Form, N): the replay file stays small.
type LongFlatCase struct {
	Unit string `json:"unit"`
	Form string `json:"form"` // list | args | chain+ | chain&& | seq
	N    int    `json:"n"`
}

func (c *LongFlatCase) text() []byte {
	sep, open, end := ", ", "[", "]"
	switch c.Form {
	case "args":
		open, end = "fn(", ")"
	case "chain+":
		sep, open, end = " + ", "", ""
	case "chain&&":
		sep, open, end = " && ", "", ""
	case "seq":
		open, end = "", ""
	}
	var sb strings.Builder
	sb.Grow(len(open) + c.N*(len(c.Unit)+len(sep)) + len(end))
	sb.WriteString(open)
	for i := 0; i < c.N; i++ {
		if i > 0 {
			sb.WriteString(sep)
		}
		sb.WriteString(c.Unit)
	}
	sb.WriteString(end)
	return []byte(sb.String())
}

var c02Long = core.Mon(c02, "long-flat-formulas", func(w *core.W, c *LongFlatCase) {
	w.Eval(1)
	w.Count("long_flat_cases")
	w.CountN("long_flat_units", int64(c.N))
	w.Nontrivial(fmt.Sprintf("long|%s|%s|%d", c.Unit, c.Form, c.N))
	usc, uerr := hostParse([]byte(c.Unit), true)
	if uerr != nil {
		w.Skip("unit-not-accepted")
		return
	}
	unit := obs.Canon(usc.Expression)
	src := c.text()
	w.Extend(120 * time.Second)
	var sc *formula.SourceCode
	var err error
	panicked, pv := core.Call(func() { sc, err = hostParse(src, true) })
	what := fmt.Sprintf("%d x %q as %s (%d bytes)", c.N, c.Unit, c.Form, len(src))
	if panicked {
		w.Violation("long-flat-formulas", "C02/escaped-panic", c, "a tree", fmt.Sprint(pv), "panic escaped the parser on "+what)
		return
	}
	if err != nil {
		w.Violation("long-flat-formulas", "C02/rejected-derivable", c, "accepted: the grammar derives a flat formula of any length", err.Error(), what)
		return
	}
	bad := func(got string) {
		w.Violation("long-flat-formulas", "C02/wrong-tree", c, fmt.Sprintf("%d times %s", c.N, unit), clipS(got, 300), what)
	}
	var elems []formula.Expression
	switch c.Form {
	case "list":
		a, ok := sc.Expression.(*formula.ArrayLiteralExpression)
		if !ok || a.Elements == nil {
			bad(fmt.Sprintf("%T", sc.Expression))
			return
		}
		elems = a.Elements.Array()
	case "args":
		call, ok := sc.Expression.(*formula.CallExpression)
		if !ok || call.Arguments == nil || obs.Canon(call.Expression) != "id:fn" {
			bad(fmt.Sprintf("%T", sc.Expression))
			return
		}
		elems = call.Arguments.Array()
	default:
		op := map[string]formula.SyntaxKind{"chain+": formula.SK_Plus, "chain&&": formula.SK_AmpersandAmpersand, "seq": formula.SK_Comma}[c.Form]
		e := sc.Expression
		for {
			b, ok := e.(*formula.BinaryExpression)
			if !ok || b.Operator == nil || b.Operator.Token != op || len(elems) >= c.N-1 {
				break
			}
			elems = append(elems, b.Right)
			e = b.Left
		}
		elems = append(elems, e)
		for i, j := 0, len(elems)-1; i < j; i, j = i+1, j-1 {
			elems[i], elems[j] = elems[j], elems[i]
		}
	}
	if len(elems) != c.N {
		bad(fmt.Sprintf("%d units", len(elems)))
		return
	}
	for i := 0; i < c.N; i++ {
		if i > 64 && i < c.N-64 && i%257 != 0 {
			continue
		}
		if g := obs.Canon(elems[i]); g != unit {
			bad(fmt.Sprintf("unit %d is %s", i, g))
			return
		}
	}
	if sc.Expression.Pos() != 0 || sc.Expression.End() != len(src) {
		bad(fmt.Sprintf("root covers [%d,%d) of %d bytes", sc.Expression.Pos(), sc.Expression.End(), len(src)))
	}
})

var longUnits = []string{"typeof x", "-x", "!x", "(x)", "f(x)", "[x]", "x.y", "'a'", "1.5", "x!.y", "a ? b : c", "x ?? y", "~x", "true", "this.k", "f()", "[]", "x == 1", "$v", "!!x", "+x", "x.y(z)", "null", "ctx", "(a, b)", "-1"}

var longForms = []string{"list", "args", "chain+", "chain&&", "seq"}

// longCounts: just above the round numbers a resource counter would stop at
func longCounts(tier string) []int {
	if tier == "quick" {
		return []int{100001}
	}
	return []int{65537, 100001, 131073, 262145}
}

func runC02Long(w *core.W) {
	i := 0
	for _, n := range longCounts(w.Tier) {
		for ui, u := range longUnits {
			for fi, f := range longForms {
				if w.Tier == "quick" && (ui+fi)%len(longForms) != 0 {
					continue // quick: every unit in one form, every form with several units
				}
				if (f == "chain+" || f == "chain&&") && (strings.Contains(u, "?") || u == "x == 1") || f == "seq" && u == "a ? b : c" {
					continue // an operator of lower precedence inside the unit would change the shape of the chain
				}
				if i++; w.Mine(i) {
					c02Long(w, &LongFlatCase{Unit: u, Form: f, N: n})
				}
			}
		}
	}
}
