package props

import (
	"context"
	"fmt"
	"github.com/ericlagergren/decimal"
	"math/rand"
	"runtime"
	"sort"
	"strconv"
	"strings"
	"sync"
	"sync/atomic"
	"time"

	"github.com/aundis/formula"

	"verifmon/internal/core"
	"verifmon/internal/gen"
	"verifmon/internal/obs"
	"verifmon/internal/ref"
	"verifmon/internal/val"
)

// RaceCfg is one concurrency configuration (one child process each).
type RaceCfg struct {
	G     int   `json:"goroutines"`
	Procs int   `json:"gomaxprocs"`
	Yield int   `json:"yield_permille"` // probability of runtime.Gosched at each hook site
	Iters int   `json:"iterations"`     // per goroutine
	Trees int   `json:"trees"`
	Seed  int64 `json:"seed"`
}

var c09 = core.Register(&core.Prop{
	ID:    "C09",
	Title: "A parsed formula can be shared across goroutines",
	Rule: "one race-instrumented child process per configuration (goroutines 2-32, GOMAXPROCS 1-16, hook-driven yield probability 0 / 1.6% / 12.5%): G goroutines, each with its own runner and data, evaluate a shared pool of parsed trees (every builtin, operator and node kind), " +
		"run the field analysis on them, and parse valid and invalid texts of their own (formatting their diagnostics); the Go race detector watches, and every result is compared with the one computed sequentially beforehand for that goroutine's data; " +
		"non-trivial = an evaluation of a shared tree by a goroutine; distinct by (configuration, goroutine, tree)",
	Assumptions: []string{
		"the race detector reports races on executed paths and with bounded history: 'no report' means no race on these paths under these schedules",
		"goroutines format diagnostics of source objects they parsed themselves (the statement covers 'errors for other texts', not concurrent formatting of one shared source)",
	},
	Race:             true,
	CrashIsViolation: true,
	Shards:           func(tier string) int { return len(c09Configs(tier, 1)) },
	WatchdogSec:      func(tier string) int { return pickTier(tier, 900, 3600) },
	CaseTimeoutSec:   func(tier string) int { return pickTier(tier, 240, 900) },
	Floors: func(c map[string]int64, tier string) []string {
		var out []string
		for _, k := range []string{"goroutine_evaluations", "overlapping_evaluations_observed", "field_analyses", "own_parses", "own_error_parses", "race_log_files_scanned", "configs_completed", "runners_without_data_map", "runner_from_context_checks", "deep_evaluations_in_flight_together", "own_probe_parses", "builtin_storm_evaluations"} {
			if c[k] == 0 && k != "race_log_files_scanned" {
				out = append(out, "coverage floor: no "+k)
			}
		}
		if c["yields_injected"] == 0 && obs.HookAvailable() {
			out = append(out, "coverage floor: the hook never yielded")
		}
		return out
	},
})

func c09Configs(tier string, seed int64) []RaceCfg {
	var out []RaceCfg
	if tier != "thorough" {
		for rep := 0; rep < 2; rep++ {
			for _, c := range [][3]int{{2, 1, 0}, {2, 2, 125}, {4, 4, 16}, {8, 16, 0}, {8, 2, 125}, {16, 16, 16}, {32, 16, 0}, {4, 1, 125}, {16, 4, 125}, {3, 16, 16}, {32, 4, 16}, {8, 8, 0}} {
				out = append(out, RaceCfg{G: c[0], Procs: c[1], Yield: c[2], Iters: 1500, Trees: 220, Seed: seed + int64(rep)*1000})
			}
		}
		return out
	}
	for _, g := range []int{2, 4, 8, 16, 32} {
		for _, p := range []int{1, 2, 4, 16} {
			for _, y := range []int{0, 16, 125} {
				out = append(out, RaceCfg{G: g, Procs: p, Yield: y, Iters: 8000, Trees: 800, Seed: seed})
			}
		}
	}
	return out
}

// stormQuant uses its argument as the receiver of a result (the argument handed to a host function is the callee's own).
func stormQuant(x *decimal.Big) (int, error) {
	if x != nil {
		x.Quantize(2)
		x.Add(x, decimal.New(1, 0))
	}
	return 0, nil
}

// plainNums renders numbers and arrays of numbers in plain digits.
func plainNums(v interface{}) string {
	switch x := v.(type) {
	case float64:
		return strconv.FormatFloat(x, 'f', -1, 64)
	case *decimal.Big:
		if x == nil {
			return "nil"
		}
		return fmt.Sprintf("%f", x)
	case []interface{}:
		var p []string
		for _, e := range x {
			p = append(p, plainNums(e))
		}
		return "[" + strings.Join(p, " ") + "]"
	}
	return fmt.Sprint(v)
}

func shallowCopy(m map[string]interface{}) map[string]interface{} {
	out := make(map[string]interface{}, len(m))
	for k, v := range m {
		out[k] = v
	}
	return out
}

func evalOutcome(sc *formula.SourceCode, data map[string]interface{}) string {
	r := formula.NewRunner()
	r.SetThis(shallowCopy(data))
	var v interface{}
	var err error
	p, pv := core.Call(func() { v, err = r.Resolve(context.Background(), sc.Expression) })
	return outcome(v, err, p, pv)
}

// parseSig is what a host sees of parsing a text of its own: the error, or the tree's shape and the fields it reads.
func parseSig(text string) string {
	sc, err := hostParse([]byte(text), true)
	if err != nil {
		return "ERROR " + err.Error()
	}
	return obs.Canon(sc.Expression) + " fields " + fieldsOf(sc)
}

var c09Share = core.Mon(c09, "concurrent-share", func(w *core.W, c *RaceCfg) {
	w.Cur("concurrent-share", c)
	runtime.GOMAXPROCS(c.Procs)
	rnd := rand.New(rand.NewSource(c.Seed*1000003 + int64(c.G*131+c.Procs*17+c.Yield)))
	// shared trees
	cfg := fixNums(EvalSyntax())
	var srcs []string
	for _, b := range gen.Builtins {
		if b == "lpad" || b == "rpad" {
			srcs = append(srcs, b+"(s0, 'x', 9)")
			continue
		}
		srcs = append(srcs, b+"(n0)", b+"(s0, s1)", b+"(t0)", b+"(n0, n1)", b+"(s0, n0, n1)", b+"(arr, s0)")
	}
	// hot trees: every goroutine starts with these, in the same order, so that the FIRST use of whatever the
	// evaluator builds lazily (per type, per pattern, per literal...) overlaps between goroutines
	hot := []string{"fcurry(n0)(n1, s0, 3)", "(b0 ? fid : fcat)(s0, n0, 3, 4, 5)", "st.A + len(st.S)", "fcurry(1)(n0, n1, s1, 3, 4, 5)", "m.k(1)(n0, 2, 3, 4, 5, 6, 7)", "pst.A", "ra.Qty * ra.Price", "rb.Qty * rb.Price", "ra.Note", "st.M.k", "z ?? 0", "b0 ? 100 : n1", "max(n0, 1.50)", "z || 0.0", "(n0, 0)", "2.50",
		"regexp(s0, '^g[0-9]+')", "round(n0 / 7) + toInt(n1)", "lower(s0) + upper(s1)", "date(2020, 1, 31)", "typeof st", "[1, 2.50, 'x']", "m.k ?? tm.k", "nilp ?? nd ?? 7", "join(strs, ',')", "this.n0", "-n0 + -1", "!b0 || !!z",
		// patterns that differ between goroutines (own pattern from the data) and between trees, evaluated at the same moment
		"regexp(s0, pat)", "regexp(s0, '^g1-')", "regexp(s0, '^g2-')", "regexp(s0, 'g[0-9]*-abab$')", "[regexp(s0, pat), regexp(s0, '^x'), regexp(s0, pat)]", "regexp('g0-abab', pat) ? 1 : 2",
		// failures that name what was called: each goroutine gets the error of ITS call
		"n0(1)", "s0()", "m(2)", "arr()", "fid(arr...)", "fcat('a', arr...)", "abs(arr...)", "b0 ? n1(1) : s1(1)", "fnoret()", "m.k(1)", "left('a')", "right('a', 1, 2)", "fctx()", "undefinedfn(1)", "undefinedname.f(1)"}
	// long lists whose elements bind and read locals: an evaluation proceeds element by element, in its own runner
	// trees the field analysis refuses (member access on something that is not a name or path): the refusal is formed concurrently too
	hot = append(hot, "[frowA(ra), frowB(rb)]", "frowB(rb) - frowA(ra)")
	hot = append(hot, "fid(m).k", "(m).k + 1", "fcurry(n0)(n1).x", "[fid(st).A,\n fid(st).S]", "('s' + s0).len")
	hot = append(hot, "[$q = n0"+strings.Repeat(", $q", 254)+", $q = $q + 1, $q]", "["+strings.Repeat("$r = ($r ?? n0) + 1, ", 199)+"$r]", "fcat("+strings.Repeat("$t = s0, $t, ", 80)+"'e')")
	srcs = append(hot, srcs...)
	srcs = append(srcs, gen.Corpus...)
	for len(srcs) < c.Trees {
		srcs = append(srcs, ref.Print(NoSelfStore(cfg.Node(rnd, 1+rnd.Intn(5)))))
	}
	type shared struct {
		src      string
		sc       *formula.SourceCode
		clock    bool
		fields   string
		inflight int32
	}
	var trees []*shared
	for _, s := range srcs {
		sc, err := hostParse([]byte(s), true)
		if err != nil {
			continue
		}
		// nothing is evaluated or analysed before the goroutines start: the first use of every tree (and of every
		// lazily built table behind it) happens concurrently; the sequential oracle is computed afterwards
		sh := &shared{src: s, sc: sc}
		for _, l := range ref.Lexemes([]byte(s)) {
			if l == "now" || l == "toDay" {
				sh.clock = true
			}
		}
		trees = append(trees, sh)
	}
	// per-goroutine data (goroutine-specific values, so cross-talk changes results) and sequential expectations
	datas := make([]map[string]interface{}, c.G)
	expect := make([][]string, c.G)
	for g := 0; g < c.G; g++ {
		m, _ := val.Build(StdData(rnd), &val.Env{}).(map[string]interface{})
		m["n0"] = 1000 + g
		m["s0"] = fmt.Sprintf("g%d-abab", g)
		m["pat"] = fmt.Sprintf("^g%d-a", g)
		datas[g] = m
		expect[g] = make([]string, len(trees))
	}
	// hook: yields only (its single piece of state is one atomic counter)
	var ctr, yields uint64
	if obs.HookAvailable() && c.Yield > 0 {
		y := uint64(c.Yield)
		obs.SetHook(func(site int) {
			n := atomic.AddUint64(&ctr, 1)
			if (n*2654435761+uint64(site)*40503)%1000 < y {
				atomic.AddUint64(&yields, 1)
				runtime.Gosched()
			}
		})
	}
	var probeChecks int64
	var overlaps, evals, analyses, parses, errParses, nilMapRuns, ctxRuns, deepRuns, stormRuns int64
	stormFirst := make([]string, c.G)
	whoTree, werr0 := hostParse([]byte("who(n0) + 1"), true)
	if werr0 != nil {
		w.Inconclusive("C09: helper formula does not parse: " + werr0.Error())
		return
	}
	type mismatch struct {
		g, tree   int
		what      string
		want, got string
	}
	var mu sync.Mutex
	var mism []mismatch
	report := func(m mismatch) {
		mu.Lock()
		if len(mism) < 20 {
			mism = append(mism, m)
		}
		mu.Unlock()
	}
	type obsv struct {
		tree int
		out  string
	}
	// names in several scripts (each goroutine its own) and texts in which a character that belongs to no name follows one
	scripts := []string{"\u03b1\u03b2\u03b3\u03b4", "\u540d\u524d\u5024", "\u0438\u043c\u044f\u0436", "\u05e9\u05dc\u05d5\u05dd", "\u0928\u093e\u092e", "\uac00\ub098\ub2e4", "\u00e9\u00fc\u00f8\u00e5", "\u3042\u3044\u3046"}
	probes := []string{"a\u3002b", "ab\u3002", "n0\u3000+ 1", "xy\u2028+ z", "ab\uff0c cd", "a\u00d7b", "s0\u2003?? n1", "ab\u2190c", "k\u30fbm", "ab\u00f7 2", "q\u2215 r", "na\u1680me", "w\u02c2 1", "u\u0375v", "ab\u3001c"}
	seenProbe := make([][]obsv, c.G)
	seen := make([][]obsv, c.G)       // per goroutine: what it observed (written by that goroutine only)
	seenFields := make([][]obsv, c.G) // likewise for the field analysis
	var wg sync.WaitGroup
	start := make(chan struct{})
	for g := 0; g < c.G; g++ {
		wg.Add(1)
		go func(g int) {
			defer wg.Done()
			r := rand.New(rand.NewSource(c.Seed + int64(g)*7919))
			<-start
			for it := 0; it < c.Iters; it++ {
				i := r.Intn(len(trees))
				if it < 3*len(hot) {
					i = it % len(hot) // the same cold-start sequence in every goroutine
				} else if it%4 == 0 {
					// concentrate on few trees so that evaluations of one tree overlap
					i = r.Intn(8) % len(trees)
				}
				t := trees[i]
				if atomic.AddInt32(&t.inflight, 1) > 1 {
					atomic.AddInt64(&overlaps, 1)
				}
				got := evalOutcome(t.sc, datas[g])
				atomic.AddInt32(&t.inflight, -1)
				atomic.AddInt64(&evals, 1)
				if !t.clock {
					seen[g] = append(seen[g], obsv{i, got})
				}
				if it < 3*len(hot) && it%5 != 1 {
					// cold start: every hot tree is also analysed by every goroutine at about the same moment
					atomic.AddInt64(&analyses, 1)
					seenFields[g] = append(seenFields[g], obsv{i, fieldsOf(t.sc)})
				}
				switch it % 5 {
				case 1:
					atomic.AddInt64(&analyses, 1)
					seenFields[g] = append(seenFields[g], obsv{i, fieldsOf(t.sc)})
					var nl []string
					core.Call(func() { nl, _ = formula.ResolveReferenceFieldsNotLocal(t.sc) })
					sort.Strings(nl)
				case 2:
					// a text of its own, valid
					// fresh identifiers of several lengths, keywords and builtins: the parser's tables are shared
					sn := scripts[(g+it/5)%len(scripts)]
					own := fmt.Sprintf("n0 + %d * len(s0) - %d + (typeof v%dx%d == 'object' ? abcdef : 0) + uniq_%d_%d + (this.k%d ?? 0) + (this.%s%d ?? q%s ?? 0)", g, it, g, it, g, it, it%7, sn, g, sn)
					pi := (g*7 + it/5) % len(probes)
					seenProbe[g] = append(seenProbe[g], obsv{pi, parseSig(probes[pi])})
					sc, err := hostParse([]byte(own), true)
					atomic.AddInt64(&parses, 1)
					if err != nil {
						report(mismatch{g, -1, "own parse", "parses", err.Error()})
					} else if o := evalOutcome(sc, datas[g]); !strings.HasPrefix(o, "VALUE") {
						report(mismatch{g, -1, "own evaluation", "a value", o})
					}
				case 0:
					// the runner a host function finds through its context is the one the host put there (or none): never
					// the runner of whatever evaluation happens to be in flight elsewhere
					wr := formula.NewRunner()
					var found *formula.Runner
					called := false
					wr.SetThis(map[string]interface{}{"who": func(ctx context.Context, tag int) (interface{}, error) {
						called = true
						found = formula.RunnerFromCtx(ctx)
						return tag, nil
					}, "n0": g})
					wr.Set("owner", g)
					var wctx context.Context = context.Background()
					var want *formula.Runner
					if it%10 == 0 {
						wctx = context.WithValue(wctx, "formulaRunner", wr) //nolint (the package's key is this plain string)
						want = wr
					}
					atomic.AddInt64(&ctxRuns, 1)
					var wv interface{}
					var werr error
					p, pv := core.Call(func() { wv, werr = wr.Resolve(wctx, whoTree.Expression) })
					if p || werr != nil || !called || found != want || plainNums(wv) != fmt.Sprint(g+1) {
						owner := interface{}("none")
						if found != nil {
							owner = found.Get("owner")
						}
						report(mismatch{g, -1, "runner found through the context", fmt.Sprintf("the runner in the context (%v) and the value %d", want != nil, g+1), fmt.Sprint("found runner owned by goroutine ", owner, " value ", plainNums(wv), " ", werr, pv)})
					}
				case 4:
					// runners without a data map of their own (never set, set to nil, created by SetThisValue): their locals
					// are theirs alone, whatever other goroutines' runners assign at the same time
					nr := formula.NewRunner()
					switch it % 3 {
					case 1:
						nr.SetThis(nil)
					case 2:
						nr.SetThis(nil)
						nr.SetThisValue("$seed", g)
					}
					x := g*1000003 + it
					atomic.AddInt64(&nilMapRuns, 1)
					for step, f := range []string{fmt.Sprintf("$a = %d, $b = $a + 1", x), "[$a, $b, $a = $a + 1, $a]", "[$a, $b]"} {
						fsc, ferr := hostParse([]byte(f), true)
						if ferr != nil {
							continue
						}
						var v interface{}
						var e error
						p, pv := core.Call(func() { v, e = nr.Resolve(context.Background(), fsc.Expression) })
						want := []string{fmt.Sprint(x + 1), fmt.Sprintf("[%d %d %d %d]", x, x+1, x+1, x+1), fmt.Sprintf("[%d %d]", x+1, x+1)}[step]
						if got := plainNums(v); p || e != nil || got != want {
							report(mismatch{g, -1, "locals of a runner without a data map", want, fmt.Sprint(got, e, pv)})
							break
						}
					}
				case 3:
					// a text of its own, invalid: diagnostics are formatted on its own source object
					bad := fmt.Sprintf("f(%d,\n\n  %d +* )\r\n'open", g, it)
					sc, err := hostParse([]byte(bad), true)
					atomic.AddInt64(&errParses, 1)
					if err == nil {
						report(mismatch{g, -1, "own error parse", "an error", "accepted"})
					} else if sc != nil {
						for _, d := range sc.Diagnostics {
							_ = formula.FormatDiagnostic(sc, d)
						}
						if !strings.HasPrefix(err.Error(), "pos(2, ") {
							report(mismatch{g, -1, "own error position", "pos(2, ...)", err.Error()})
						}
					}
				}
			}
		}(g)
	}
	close(start)
	wg.Wait()
	// a storm on the builtins that compile, look up or format something per call (patterns, zones, layouts, numbers as
	// text): every goroutine hammers ONE shared tree with its own arguments; each result must be its own
	stormSrc := "[regexp(s0, pat), regexp(s0, '^nomatch'), regexp(s0, 'abab$'), regexp(s0, pat), timeFormat(useTimezone(t0, zone), lay), toString(n0), replace(s0, '-', pat), lpad(s0, 'x', 12), fquant(small), small, fquant(len(s0)), len(s0), toString(small)]"
	if stormTree, serr := hostParse([]byte(stormSrc), true); serr == nil {
		var swg sync.WaitGroup
		zones := []string{"UTC", "Asia/Shanghai", "America/New_York", "Europe/London", "Asia/Kolkata"}
		lays := []string{"2006-01-02 15:04", "15:04:05 -0700", "Jan 2 2006 MST", "02/01/06"}
		stormIters := w.Pick(900, 4000)
		for g := 0; g < c.G; g++ {
			swg.Add(1)
			go func(g int) {
				defer swg.Done()
				m := shallowCopy(datas[g])
				m["zone"], m["lay"] = zones[g%len(zones)], lays[g%len(lays)]
				m["t0"] = time.Unix(1700000000+int64(g)*86400*37, 0).UTC()
				m["small"], m["fquant"] = g%7, stormQuant
				want := ""
				for it := 0; it < stormIters; it++ {
					got := evalOutcome(stormTree, m)
					atomic.AddInt64(&stormRuns, 1)
					if it == 0 {
						want = got // checked against the sequential oracle below
						stormFirst[g] = got
						continue
					}
					if got != want {
						report(mismatch{g, -1, "shared builtin storm", want, got})
						return
					}
				}
			}(g)
		}
		swg.Wait()
		for g := 0; g < c.G; g++ {
			m := shallowCopy(datas[g])
			m["zone"], m["lay"] = zones[g%len(zones)], lays[g%len(lays)]
			m["t0"] = time.Unix(1700000000+int64(g)*86400*37, 0).UTC()
			m["small"], m["fquant"] = g%7, stormQuant
			if seq := evalOutcome(stormTree, m); stormFirst[g] != "" && seq != stormFirst[g] {
				report(mismatch{g, -1, "shared builtin storm", seq, stormFirst[g]})
			}
		}
	}
	// many evaluations deep inside one tree at the same moment: D nested parentheses around a host call that waits until
	// all goroutines of the phase have arrived (or a watchdog expires) - nesting is per evaluation, not per process
	const deepG, deepD = 64, 6000
	deepSrc := strings.Repeat("(", deepD) + "hold(n0)" + strings.Repeat(")", deepD) + " + 1"
	if deepTree, derr := hostParse([]byte(deepSrc), true); derr == nil {
		var arrived int32
		var dwg sync.WaitGroup
		for g := 0; g < deepG; g++ {
			dwg.Add(1)
			go func(g int) {
				defer dwg.Done()
				dr := formula.NewRunner()
				dr.SetThis(map[string]interface{}{"n0": g, "hold": func(x interface{}) (interface{}, error) {
					atomic.AddInt32(&arrived, 1)
					for spin := 0; spin < 3000 && atomic.LoadInt32(&arrived) < deepG; spin++ {
						time.Sleep(time.Millisecond)
					}
					return x, nil
				}})
				var v interface{}
				var err error
				p, pv := core.Call(func() { v, err = dr.Resolve(context.Background(), deepTree.Expression) })
				atomic.AddInt64(&deepRuns, 1)
				if p || err != nil || plainNums(v) != fmt.Sprint(g+1) {
					// count the goroutine as arrived so that the others do not wait for it
					atomic.AddInt32(&arrived, 1)
					report(mismatch{g, -1, "deeply nested evaluation in flight with 63 others", fmt.Sprint(g + 1), fmt.Sprint(plainNums(v), " ", err, pv)})
				}
			}(g)
		}
		dwg.Wait()
	}
	obs.SetHook(nil)
	// the sequential oracle, computed now
	for _, t := range trees {
		t.fields = fieldsOf(t.sc)
	}
	for g := 0; g < c.G; g++ {
		for _, o := range seen[g] {
			if expect[g][o.tree] == "" {
				expect[g][o.tree] = evalOutcome(trees[o.tree].sc, datas[g])
			}
			if o.out != expect[g][o.tree] {
				report(mismatch{g, o.tree, "evaluation", expect[g][o.tree], o.out})
			}
		}
		for _, o := range seenFields[g] {
			if o.out != trees[o.tree].fields {
				report(mismatch{g, o.tree, "field analysis", trees[o.tree].fields, o.out})
			}
		}
		for _, o := range seenProbe[g] {
			if want := parseSig(probes[o.tree]); o.out != want {
				report(mismatch{g, -1, fmt.Sprintf("own parse of %q", probes[o.tree]), want, o.out})
			}
			probeChecks++
		}
	}
	// one outcome known by construction: two host functions whose parameter types print alike are two functions
	if sc, err := hostParse([]byte("[frowA(ra), frowB(rb)]"), true); err == nil {
		if got := evalOutcome(sc, datas[0]); !strings.Contains(got, "7003") || !strings.Contains(got, "2050") {
			report(mismatch{0, -1, "[frowA(ra), frowB(rb)]", "VALUE [7003 2050]", got})
		}
	}
	w.Eval(int(evals))
	w.CountN("goroutine_evaluations", evals)
	w.CountN("overlapping_evaluations_observed", overlaps)
	w.CountN("field_analyses", analyses)
	w.CountN("own_parses", parses)
	w.CountN("own_error_parses", errParses)
	w.CountN("own_probe_parses", probeChecks)
	w.CountN("runners_without_data_map", nilMapRuns)
	w.CountN("runner_from_context_checks", ctxRuns)
	w.CountN("deep_evaluations_in_flight_together", deepRuns)
	w.CountN("builtin_storm_evaluations", stormRuns)
	w.CountN("yields_injected", int64(yields))
	w.CountN("shared_trees", int64(len(trees)))
	w.Count("configs_completed")
	for g := 0; g < c.G; g++ {
		for i := 0; i < len(trees); i += 1 + len(trees)/50 {
			w.Nontrivial(fmt.Sprintf("%d/%d/%d|%d|%d", c.G, c.Procs, c.Yield, g, i))
		}
	}
	w.Sample("config", fmt.Sprintf("G=%d GOMAXPROCS=%d yield=%d/1000 iters=%d trees=%d: %d evaluations, %d overlapped on the same tree, %d yields", c.G, c.Procs, c.Yield, c.Iters, len(trees), evals, overlaps, yields))
	for _, m := range mism {
		src := ""
		if m.tree >= 0 {
			src = trees[m.tree].src
		}
		w.Violation("concurrent-share", "C09/result-differs-from-sequential:"+m.what, c, clipS(m.want, 300), clipS(m.got, 300),
			fmt.Sprintf("goroutine %d, %s of %q under G=%d GOMAXPROCS=%d", m.g, m.what, clipS(src, 120), c.G, c.Procs))
	}
})

func init() {
	c09.Run = func(w *core.W) {
		cfgs := c09Configs(w.Tier, w.Seed)
		if w.Shard < len(cfgs) {
			c := cfgs[w.Shard]
			c09Share(w, &c)
		}
	}
}
