package props

import (
	"context"
	"fmt"
	"github.com/aundis/formula"
	"math"
	"math/rand"
	"reflect"
	"strconv"
	"strings"
	"time"

	"github.com/ericlagergren/decimal"

	"verifmon/internal/core"
	"verifmon/internal/gen"
	"verifmon/internal/obs"
	"verifmon/internal/ref"
	"verifmon/internal/val"
)

var c16 = core.Register(&core.Prop{
	ID:    "C16",
	Title: "Names and member access read the caller's data, null-safely",
	Rule: "generated data maps (nested maps, typed maps incl. zero-valued entries, structs, nil and typed-nil entries, every scalar kind, keys colliding with builtin names) x dotted paths of depth 0-4 over present and absent keys with '.' and '!.' at every position, " +
		"with and without a data map; results compared with a lookup model navigating the same Go data; non-trivial = path of depth >= 1 or a name colliding with a builtin; distinct by (data, path)",
	Assumptions: []string{
		"member access on numbers, strings, slices, pointer-to-struct bases, non-string-keyed maps and unexported fields is unspecified (skipped, counted); a missing struct field must be an error (C03)",
		"int8/16, unsigned and float32 data values are not covered by the normalisation clause (value not compared)",
	},
	Shards: func(tier string) int { return pickTier(tier, 8, 16) },
	Floors: func(c map[string]int64, tier string) []string {
		var out []string
		for _, k := range []string{"paths_checked", "null_results", "assert_errors", "number_results", "identity_results", "builtin_names", "typed_map_zero_entries", "struct_fields", "no_map_cases", "missing_field_errors", "null_equalities", "two_read_cases", "byte_slice_results"} {
			if c[k] == 0 {
				out = append(out, "coverage floor: no "+k)
			}
		}
		return out
	},
})

type Seg struct {
	Op  string `json:"op"`
	Key string `json:"key"`
}

type PathCase struct {
	Data  val.V  `json:"data"`
	Base  string `json:"base"`
	Segs  []Seg  `json:"segs"`
	NoMap bool   `json:"nomap,omitempty"`
	// Wrap, when set, is a value-preserving construct (parentheses, a conditional, ??, a comma, an assignment) put
	// around the first WrapAt segments: member access works on any operand, not only on names
	Wrap   string `json:"wrap,omitempty"`
	WrapAt int    `json:"wrap_at,omitempty"`
}

var pathWraps = []string{"(%s)", "(true ? %s : 0)", "(z_absent ?? %s)", "(0, %s)", "($q = %s)", "((%s))", "(false ? 0 : %s)"}

func (c *PathCase) Src() string {
	s := c.Base
	wrap := c.Wrap
	if c.Base == "this" && strings.Contains(wrap, "=") {
		wrap = "(%s)" // storing the data map in itself makes it cyclic (known finding of C03)
	}
	for i, g := range c.Segs {
		if wrap != "" && i == c.WrapAt {
			s = strings.ReplaceAll(wrap, "%s", s)
		}
		s += g.Op + g.Key
	}
	if wrap != "" && c.WrapAt >= len(c.Segs) {
		s = strings.ReplaceAll(wrap, "%s", s)
	}
	return s
}

var stZero = map[string]val.V{"A": val.Int("int", 0), "S": val.Str(""), "F": val.F64(0), "N": val.Int("int64", 0), "T": val.Bool(false),
	"M": {K: "nilmap"}, "P": {K: "nilpstruct"}, "Any": val.Nil(), "Nil": {K: "nilptr"}}

// step navigates one member access in the spec and the built Go value together.
// status: "ok", "null" (missing key or null base handled by caller), "error", "unspec"
func step(spec val.V, built interface{}, key string) (val.V, interface{}, string) {
	switch spec.K {
	case "map":
		m, _ := built.(map[string]interface{})
		if e, ok := spec.Get(key); ok {
			return e, m[key], "ok"
		}
		return val.V{}, nil, "null"
	case "nilmap":
		return val.V{}, nil, "null"
	case "mapsi", "mapss", "mapsb", "mapsf":
		if e, ok := spec.Get(key); ok {
			rv := reflect.ValueOf(built).MapIndex(reflect.ValueOf(key))
			return e, rv.Interface(), "ok"
		}
		return val.V{}, nil, "null"
	case "rowA", "rowB":
		switch key {
		case "Qty", "Price", "Note":
			if key == "Note" && spec.K == "rowB" {
				return val.V{}, nil, "error"
			}
			e, ok := spec.Get(key)
			if !ok {
				return val.V{}, nil, "unspec"
			}
			return e, reflect.ValueOf(built).FieldByName(key).Interface(), "ok"
		}
		return val.V{}, nil, "error"
	case "estruct":
		o, _ := built.(val.Outer)
		switch key {
		case "City", "Floor", "Name", "Age":
			e, ok := spec.Get(key)
			if !ok {
				if key == "City" || key == "Name" {
					e = val.Str("")
				} else {
					e = val.Int("int", 0)
				}
			}
			return e, reflect.ValueOf(o).FieldByName(key).Interface(), "ok"
		case "Inner":
			return val.V{}, nil, "unspec"
		}
		return val.V{}, nil, "error"
	case "struct":
		st, _ := built.(val.St)
		switch key {
		case "A", "S", "F", "N", "T", "M", "P", "Any", "Nil":
			e, ok := spec.Get(key)
			if !ok {
				e = stZero[key]
			}
			return e, reflect.ValueOf(st).FieldByName(key).Interface(), "ok"
		case "priv", "hid":
			return val.V{}, nil, "unspec"
		}
		return val.V{}, nil, "error"
	}
	switch spec.K {
	case "int", "int8", "int16", "int32", "int64", "uint", "uint8", "uint16", "uint32", "uint64", "f64", "f32", "dec", "str", "bool", "time":
		// a number, a text, a boolean, a time has no members: whether asking for one is null or an error is left open,
		// but nothing comes back (in particular nothing of the value's Go internals)
		return val.V{}, nil, "no-member"
	}
	return val.V{}, nil, "unspec"
}

func isNullSpec(v val.V) bool {
	return v.K == "nil" || v.K == "nilptr" || v.K == "nilpstruct"
}

var builtinSet = func() map[string]bool {
	m := map[string]bool{"true": true, "false": true}
	for _, b := range gen.Builtins {
		m[b] = true
	}
	return m
}()

var c16Path = core.Mon(c16, "lookup", func(w *core.W, c *PathCase) {
	src := c.Src()
	var out *EvalOut
	if c.NoMap {
		out = evaluate("["+src+"]", val.V{}, &evalOpts{noMap: true})
		w.Count("no_map_cases")
	} else {
		out = evaluate("["+src+"]", c.Data, nil)
	}
	w.Eval(1)
	if out.ParseErr != nil {
		w.Violation("lookup", "C16/unparsable", c, "parses", out.ParseErr.Error(), src)
		return
	}
	if out.Panicked {
		w.Violation("lookup", "C16/escaped-panic", c, nil, fmt.Sprint(out.PanicVal), src)
		return
	}
	w.Count("paths_checked")
	if len(c.Segs) > 0 || builtinSet[c.Base] {
		w.Nontrivial(src + "\x00" + core.HashStr(c.Data))
	}
	// model
	var spec val.V
	var built interface{}
	status := "ok"
	switch {
	case c.Base == "this":
		if c.NoMap {
			spec, built = val.V{K: "nilmap"}, nil
		} else {
			spec, built = c.Data, out.Map
		}
	case builtinSet[c.Base] && c.Base != "true" && c.Base != "false":
		status = "builtin"
	default:
		if c.NoMap {
			status = "null"
		} else if e, ok := c.Data.Get(c.Base); ok {
			spec, built = e, out.Map[c.Base]
		} else {
			status = "null"
		}
	}
	if status == "builtin" {
		w.Count("builtin_names")
		if len(c.Segs) > 0 {
			w.Skip("member-of-builtin")
			return
		}
		if out.Err != nil {
			w.Violation("lookup", "C16/builtin-name", c, "the builtin function", out.Err.Error(), src)
			return
		}
		el := out.Val.([]interface{})[0]
		if el == nil || reflect.TypeOf(el).Kind() != reflect.Func {
			w.Violation("lookup", "C16/builtin-shadowed", c, "the builtin function "+c.Base, show(el), "a bare name that is a builtin must denote the builtin, not the data entry")
		}
		return
	}
	for _, g := range c.Segs {
		if status == "ok" && isNullSpec(spec) {
			status = "null"
		}
		if status == "null" {
			if g.Op == "!." {
				status = "assert-error"
				break
			}
			continue // null-safe: stays null
		}
		if status != "ok" {
			break
		}
		var st string
		pk := spec.K
		spec, built, st = step(spec, built, g.Key)
		status = st
		if st == "ok" {
			if pk == "struct" || pk == "estruct" || pk == "rowA" || pk == "rowB" {
				w.Count("struct_fields")
			}
			if strings.HasPrefix(pk, "maps") && pk != "maps" && (spec.I == 0 && spec.S == "" && !spec.B && spec.U == 0) {
				w.Count("typed_map_zero_entries")
			}
		}
		if status == "null" {
			continue
		}
	}
	if status == "ok" && isNullSpec(spec) {
		status = "null"
	}
	switch status {
	case "unspec":
		w.Skip("unspecified-member-access")
		return
	case "no-member":
		w.Count("members_of_scalars")
		if out.Err == nil {
			if el := out.Val.([]interface{})[0]; el != nil {
				w.Violation("lookup", "C16/member-of-a-scalar-has-a-value", c, "null or an error", show(el), "a number, text, boolean or time has no members: "+src)
			}
		}
		return
	case "assert-error":
		w.Count("assert_errors")
		if out.Err == nil {
			w.Violation("lookup", "C16/assert-on-null-no-error", c, "an error", show(out.Val), "x!.k with x null must be an error: "+src)
		}
		return
	case "error":
		w.Count("missing_field_errors")
		if out.Err == nil {
			w.Violation("lookup", "C16/missing-struct-field-no-error", c, "an error", show(out.Val), src)
		}
		return
	}
	if out.Err != nil {
		w.Violation("lookup", "C16/unexpected-error", c, status, out.Err.Error(), src)
		return
	}
	el := out.Val.([]interface{})[0]
	if status == "null" {
		w.Count("null_results")
		if el != nil && !(reflect.ValueOf(el).Kind() == reflect.Ptr && reflect.ValueOf(el).IsNil() && len(c.Segs) == 0) {
			w.Violation("lookup", "C16/not-null", c, "null", show(el), "missing key / missing name / member of null must be null: "+src)
			return
		}
		// null must also compare equal to null
		for _, op := range []string{"==", "==="} {
			var o2 *EvalOut
			if c.NoMap {
				o2 = evaluate(src+" "+op+" null", val.V{}, &evalOpts{noMap: true})
			} else {
				o2 = evaluate(src+" "+op+" null", c.Data, nil)
			}
			w.Count("null_equalities")
			if o2.Panicked || o2.Err != nil || o2.Val != true {
				w.Violation("lookup", "C16/null-equality", c, true, fmt.Sprint(show(o2.Val), o2.Err, o2.PanicVal), src+" "+op+" null")
				return
			}
		}
		return
	}
	// a value
	switch spec.K {
	case "int", "int32", "int64":
		w.Count("number_results")
		d, ok := el.(*decimal.Big)
		if spec.K == "int32" {
			spec.I = int64(int32(spec.I))
		}
		if !ok || !obs.DecOf(d).Equal(ref.DecInt(spec.I)) {
			w.Violation("lookup", "C16/number:"+spec.K, c, spec.I, show(el), "Go "+spec.K+" must become the number of the same value: "+src)
		}
	case "f64":
		f := spec.F()
		if math.IsNaN(f) || math.IsInf(f, 0) {
			w.Skip("non-finite-float")
			return
		}
		w.Count("number_results")
		want, _ := ref.ParseDec(strconv.FormatFloat(f, 'e', -1, 64))
		d, ok := el.(*decimal.Big)
		if !ok || !obs.DecOf(d).Equal(want) {
			w.Violation("lookup", "C16/number:f64", c, f, show(el), "Go float64 must become the number of the same value: "+src)
		}
	case "str":
		if el != spec.S {
			w.Violation("lookup", "C16/string", c, spec.S, show(el), src)
		}
	case "bool":
		if el != spec.B {
			w.Violation("lookup", "C16/bool", c, spec.B, show(el), src)
		}
	case "time":
		t, ok := el.(time.Time)
		bt, _ := built.(time.Time)
		if !ok || !t.Equal(bt) || t.Location() != bt.Location() {
			w.Violation("lookup", "C16/time", c, fmt.Sprint(bt), show(el), src)
		}
	case "list", "emptylist", "strs", "ints", "f64s", "maps", "map", "mapsi", "mapss", "mapsb", "mapsf", "mapis", "dec", "fn", "pstruct", "pint", "bytes":
		w.Count("identity_results")
		if spec.K == "bytes" {
			w.Count("byte_slice_results")
		}
		if !samePointer(el, built) {
			w.Violation("lookup", "C16/identity:"+spec.K, c, "the caller's own "+spec.K, show(el), "containers, functions and numbers supplied by the caller are handed on unchanged: "+src)
		}
	case "struct":
		w.Count("identity_results")
		if obs.SnapshotValues(el) != obs.SnapshotValues(built) {
			w.Violation("lookup", "C16/struct-value", c, fmt.Sprint(built), show(el), src)
		}
	case "nilmap":
		// a nil map field: reading it is fine, nothing to compare
	default:
		w.Skip("kind-outside-normalisation:" + spec.K)
		return
	}
	if spec.K == "mapsi" || spec.K == "mapss" || spec.K == "mapsb" {
		return
	}
})

// TwoPathCase: two reads in one formula (a memo keyed by the path's text must not confuse them), optionally with
// a local re-bound in between.
type TwoPathCase struct {
	Data val.V    `json:"data"`
	P1   PathCase `json:"p1"`
	P2   PathCase `json:"p2"`
	Form string   `json:"form"` // "array" | "rebind"
}

var c16Two = core.Mon(c16, "two-reads", func(w *core.W, c *TwoPathCase) {
	single := func(p PathCase) *EvalOut {
		return evaluate("["+p.Src()+"]", c.Data, nil)
	}
	o1, o2 := single(c.P1), single(c.P2)
	if o1.ParseErr != nil || o2.ParseErr != nil || o1.Panicked || o2.Panicked {
		w.Skip("two-reads-unparsable")
		return
	}
	var src string
	if c.Form == "rebind" {
		// $o = <base1>, $f = $o<segs>, $o = <base2>, [$f, $o<segs>]
		seg := ""
		for _, g := range c.P1.Segs {
			seg += g.Op + g.Key
		}
		src = fmt.Sprintf("$o = %s, $f = $o%s, $o = %s, [$f, $o%s]", c.P1.Base, seg, c.P2.Base, seg)
		p2 := PathCase{Base: c.P2.Base, Segs: c.P1.Segs}
		o2 = single(p2)
		if o2.ParseErr != nil || o2.Panicked {
			return
		}
	} else {
		src = "[" + c.P1.Src() + ", " + c.P2.Src() + "]"
	}
	out := evaluate(src, c.Data, nil)
	w.Eval(1)
	w.Count("two_read_cases")
	w.Nontrivial(src + "\x00" + core.HashStr(c.Data))
	if out.ParseErr != nil {
		return
	}
	if out.Panicked {
		w.Violation("two-reads", "C16/escaped-panic", c, nil, fmt.Sprint(out.PanicVal), src)
		return
	}
	wantErr := o1.Err != nil || o2.Err != nil
	if wantErr != (out.Err != nil) {
		w.Violation("two-reads", "C16/two-reads-error-mismatch", c, fmt.Sprint("error expected: ", wantErr, " (", o1.Err, " / ", o2.Err, ")"), fmt.Sprint(show(out.Val), out.Err), "each read alone decides whether "+src+" is an error")
		return
	}
	if wantErr {
		return
	}
	arr, _ := out.Val.([]interface{})
	w1, w2 := o1.Val.([]interface{})[0], o2.Val.([]interface{})[0]
	if len(arr) != 2 || obs.SnapshotValues(arr[0]) != obs.SnapshotValues(w1) || obs.SnapshotValues(arr[1]) != obs.SnapshotValues(w2) {
		w.Violation("two-reads", "C16/two-reads-value", c, "["+show(w1)+", "+show(w2)+"]", show(out.Val), "both reads of "+src+" must see what each reads alone")
	}
})

// c16Data draws a data map rich in the kinds the statement names.
func c16Data(r *rand.Rand) val.V {
	inner := func(depth int) val.V { return val.RandMap(r, depth, 2+r.Intn(3)) }
	kv := []val.KV{
		{K: "a", V: val.RandScalar(r)}, {K: "b", V: inner(2)}, {K: "c", V: val.RandValue(r, 3)},
		{K: "tm", V: val.TMap("mapsi", val.KV{K: "a", V: val.Int("int", 0)}, val.KV{K: "b", V: val.Int("int", int64(r.Intn(5)))}, val.KV{K: "len", V: val.Int("int", 9)})},
		{K: "ts", V: val.TMap("mapss", val.KV{K: "a", V: val.Str("")}, val.KV{K: "k", V: val.Str("v")})},
		{K: "tb", V: val.TMap("mapsb", val.KV{K: "a", V: val.Bool(false)}, val.KV{K: "k", V: val.Bool(true)})},
		{K: "tf", V: val.TMap("mapsf", val.KV{K: "a", V: val.F64(0)}, val.KV{K: "k", V: val.F64(2.5)})},
		{K: "st", V: val.Struct(val.KV{K: "A", V: val.Int("int", int64(r.Intn(3)))}, val.KV{K: "S", V: val.Str([]string{"", "s"}[r.Intn(2)])}, val.KV{K: "M", V: inner(1)},
			val.KV{K: "P", V: val.PStruct(val.KV{K: "A", V: val.Int("int", 5)})}, val.KV{K: "Any", V: val.RandScalar(r)}, val.KV{K: "priv", V: val.Int("int", 1)})},
		{K: "st0", V: val.Struct()},
		{K: "ra", V: val.V{K: "rowA", M: []val.KV{{K: "Qty", V: val.Int("int", 7)}, {K: "Price", V: val.Int("int", 3)}, {K: "Note", V: val.Str("n")}}}},
		{K: "rb", V: val.V{K: "rowB", M: []val.KV{{K: "Qty", V: val.Int("int", 2)}, {K: "Price", V: val.Int("int", 50)}}}},
		{K: "es", V: val.V{K: "estruct", M: []val.KV{{K: "City", V: val.Str("Oslo")}, {K: "Floor", V: val.Int("int", int64(r.Intn(9)))}, {K: "Name", V: val.Str("n")}, {K: "Age", V: val.Int("int", 30)}}}},
		{K: "wrap", V: val.Map(val.KV{K: "p", V: val.V{K: "estruct", M: []val.KV{{K: "City", V: val.Str("Rome")}, {K: "Name", V: val.Str("w")}}}})},
		{K: "k", V: val.Map(val.KV{K: "k", V: val.Map(val.KV{K: "k", V: val.Map(val.KV{K: "k", V: val.RandScalar(r)}, val.KV{K: "z", V: val.Nil()})})})},
		{K: "np", V: val.V{K: "nilptr"}}, {K: "nps", V: val.V{K: "nilpstruct"}}, {K: "z", V: val.Nil()},
		{K: "len", V: val.Int("int", 3)}, {K: "max", V: val.Str("shadow")}, {K: "now", V: val.Map(val.KV{K: "k", V: val.Int("int", 1)})},
		{K: "i64", V: val.Int("int64", []int64{math.MaxInt64, math.MinInt64, 1<<53 + 1, 0, -7}[r.Intn(5)])}, {K: "i32", V: val.Int("int32", int64(int32(r.Uint32())))},
		{K: "f", V: val.F64([]float64{0.1, 0.3, 1e22, -0.0, 2.5, 123456.789, 5e-324}[r.Intn(7)])},
		{K: "t", V: val.Time(int64(r.Intn(2e9)), int64(r.Intn(1e9)), []string{"UTC", "Asia/Shanghai", "Local"}[r.Intn(3)])},
		// long names that differ only in their last character (and one that is a proper prefix of them)
		{K: longKeyA, V: val.Int("int", 1)}, {K: longKeyB, V: val.Str("bee")}, {K: longKeyA[:299], V: val.Int("int", 299)},
		// keys spelled like the reserved words (a member name may be any identifier name)
		{K: "kw", V: val.Map(val.KV{K: "null", V: val.Int("int", 11)}, val.KV{K: "true", V: val.Str("yes")}, val.KV{K: "false", V: val.Int("int", 13)}, val.KV{K: "this", V: val.Map(val.KV{K: "typeof", V: val.Int("int", 17)})},
			val.KV{K: "ctx", V: val.Str("c")}, val.KV{K: "typeof", V: val.Int("int", 19)}, val.KV{K: "kw", V: val.Int("int", 23)})},
		// flat keys that spell dotted paths some formula walks (a dotted path reads members, never a key with dots in it)
		{K: "k.k", V: val.Str("flat")}, {K: "k.k.k", V: val.Str("flat3")}, {K: "st.A", V: val.Int("int", 99)}, {K: "np.k", V: val.Str("flat-np")}, {K: "missing.k", V: val.Str("flat-missing")}, {K: "b.a", V: val.Int("int", 77)},
		{K: "tm.a", V: val.Int("int", 55)}, {K: "$v.k", V: val.Int("int", 9)},
		{K: "__p", V: val.Int("int", 2)}, {K: "___p", V: val.Int("int", 3)}, {K: "_p", V: val.Map(val.KV{K: "__p", V: val.Str("deep")}, val.KV{K: "___p", V: val.Str("deeper")})},
		{K: "lk", V: val.Map(val.KV{K: longKeyA, V: val.Int("int", 3)}, val.KV{K: longKeyB, V: val.Int("int", 4)})},
		{K: "l", V: val.List(val.Int("int", 1), val.Str("x"))}, {K: "ss", V: val.Typed("strs", val.Str("p"), val.Str("q"))}, {K: "d", V: val.Dec("1.50")}, {K: "fn", V: val.Fn("id")},
		// byte slices (text columns of database drivers) are slices like any other
		{K: "by", V: val.V{K: "bytes", S: []string{"abc", "12", "true", "\xff\xfe", "null", "2024-01-02"}[r.Intn(6)]}},
		{K: "byw", V: val.Map(val.KV{K: "k", V: val.V{K: "bytes", S: "text"}}, val.KV{K: "z", V: val.V{K: "bytes", S: "7"}})},
	}
	return val.Map(kv...)
}

var longKeyA, longKeyB = strings.Repeat("k", 299) + "a", strings.Repeat("k", 299) + "b"

var c16Keys = []string{longKeyA, longKeyB, longKeyA[:299], "__p", "___p", "_p", "Context", "Precision", "wall", "loc", "null", "true", "false", "this", "ctx", "typeof", "kw", "Qty", "Price", "Note", "City", "Floor", "Name", "Age", "p", "a", "b", "c", "k", "z", "name", "x1", "len", "max", "now", "A", "S", "F", "M", "P", "Any", "Nil", "N", "T", "priv", "Zz", "missing", "tm", "st", "np", "$v", "by", "byw"}

// FollowCase: a name denotes the entry of the data map as it is now - whatever earlier evaluations on the same runner
// read or assigned, and however the host changed the map since (another map, a single entry, its own map directly).
type FollowCase struct {
	Name   string `json:"name"`   // "$x" or "a"
	First  string `json:"first"`  // formula evaluated first (reads and/or assigns the name)
	Change string `json:"change"` // setvalue | setthis-with | setthis-without | direct-set | direct-delete | setthis-nil | none
}

var c16Follow = core.Mon(c16, "names-follow-the-map", func(w *core.W, c *FollowCase) {
	m1 := map[string]interface{}{"a": 5, "b": "bee", "$x": 1, "m": map[string]interface{}{"k": 2}}
	r := formula.NewRunner()
	r.SetThis(m1)
	ctx := context.Background()
	eval := func(src string) (interface{}, error) {
		sc, err := hostParse([]byte(src), true)
		if err != nil {
			return nil, err
		}
		var v interface{}
		var rerr error
		if p, pv := core.Call(func() { v, rerr = r.Resolve(ctx, sc.Expression) }); p {
			return nil, fmt.Errorf("panic: %v", pv)
		}
		return v, rerr
	}
	w.Eval(2)
	w.Count("follow_cases")
	w.Nontrivial("follow:" + core.HashStr(c))
	if _, err := eval(c.First); err != nil {
		w.Skip("follow-first-formula-fails")
		return
	}
	cur := m1
	switch c.Change {
	case "setvalue":
		r.SetThisValue(c.Name, "host")
	case "setthis-with":
		cur = map[string]interface{}{c.Name: "other", "b": "b2"}
		r.SetThis(cur)
	case "setthis-without":
		cur = map[string]interface{}{"b": "b3"}
		r.SetThis(cur)
	case "direct-set":
		m1[c.Name] = "direct"
	case "direct-delete":
		delete(m1, c.Name)
	case "setthis-nil":
		cur = nil
		r.SetThis(nil)
	}
	want, has := cur[c.Name]
	src := "[" + c.Name + ", this." + c.Name + ", typeof " + c.Name + ", " + c.Name + " == null]"
	v, err := eval(src)
	if err != nil {
		w.Violation("names-follow-the-map", "C16/name-read-error", c, "a value", err.Error(), src)
		return
	}
	arr, _ := v.([]interface{})
	if len(arr) != 4 {
		return
	}
	ok := true
	for _, g := range arr[:2] {
		switch {
		case !has || want == nil:
			ok = ok && g == nil
		default:
			if s, isStr := want.(string); isStr {
				ok = ok && g == s
			} else {
				var wd *decimal.Big
				switch x := want.(type) {
				case int:
					wd = decimal.New(int64(x), 0)
				case *decimal.Big:
					wd = x
				}
				d, isDec := g.(*decimal.Big)
				ok = ok && isDec && d != nil && wd != nil && d.Cmp(wd) == 0
			}
		}
	}
	if !ok || arr[3] != (!has || want == nil) {
		w.Violation("names-follow-the-map", "C16/name-does-not-follow-the-data-map", c, fmt.Sprintf("the map's entry: %v (present: %v)", want, has), show(v),
			fmt.Sprintf("after Resolve(%q) and the host change %q, %s must read the data map as it is now", c.First, c.Change, src))
	}
})

// MemberCallCase: `x.k(...)` reads key k of x like any other member access - also when k is spelled like a builtin - and
// calls what it finds there; struct fields are read by their Go names, whatever tags they carry.
type MemberCallCase struct {
	Src  string `json:"src"`
	Want string `json:"want"` // rendered expected value, or "error"
}

// field names whose first letter is upper case without being A-Z (exported all the same)
type uniRow struct {
	Élan  int
	Ärger string
	Ωmega float64
	Plain int
}

type taggedRow struct {
	Code  string `json:"ID"`
	ID    int
	Name  string `json:"label"`
	Label string `json:"Name"`
	Len   int    `json:"len"`
}

var memberCallCases = []MemberCallCase{
	{"rules.len('abc')", "1003"}, {"rules.upper('abc')", "\"up:abc\""}, {"rules.max(1, 2)", "\"mine\""}, {"rules!.len('ab')", "1002"}, {"wrap.rules.abs(5)", "\"abs:5\""},
	{"empty.len('abc')", "error"}, {"none.len('abc')", "error"}, {"none!.upper('abc')", "error"}, {"empty!.len('abc')", "error"}, {"rules.missing('x')", "error"},
	{"len('abc')", "3"}, {"rules.len('abc') + len('abc')", "1006"}, {"[rules.now(), rules.toDay()]", "[\"n\", \"t\"]"},
	{"item.ID", "7"}, {"item.Code", "\"SKU-9\""}, {"item.Name", "\"n\""}, {"item.Label", "\"l\""}, {"item.Len", "4"}, {"item!.ID + 1", "8"}, {"typeof item.ID", "\"number\""}, {"this.item.ID", "7"}, {"wrap.item.ID", "7"},
	{"[item.ID, item.Code]", "[7, \"SKU-9\"]"},
	{"u.Élan", "5"}, {"u.Ärger", "\"grr\""}, {"u.Ωmega", "2.5"}, {"u.Plain", "1"}, {"u!.Élan + u.Plain", "6"}, {"this.u.Ωmega", "2.5"}, {"wrap.u.Ärger", "\"grr\""},
	{"f32w", "0.10000000149011612"}, {"wrap.f32w == f32w", "true"}, {"f32w == 0.1", "false"}, {"f32w > 0.1", "true"},
}

var c16MemberCall = core.Mon(c16, "member-calls-and-tagged-fields", func(w *core.W, c *MemberCallCase) {
	rules := map[string]interface{}{
		"len":   func(s string) (int, error) { return 1000 + len(s), nil },
		"upper": func(s string) (string, error) { return "up:" + s, nil },
		"max":   func(a, b interface{}) (string, error) { return "mine", nil },
		"abs":   func(x interface{}) (string, error) { return "abs:" + fmt.Sprint(x), nil },
		"now":   func() (string, error) { return "n", nil },
		"toDay": func() (string, error) { return "t", nil },
	}
	item := taggedRow{Code: "SKU-9", ID: 7, Name: "n", Label: "l", Len: 4}
	uni := uniRow{5, "grr", 2.5, 1}
	f32w := float64(float32(0.1)) // exactly float32-representable; as a float64 it prints as 0.10000000149011612
	data := map[string]interface{}{"rules": rules, "empty": map[string]interface{}{}, "none": nil, "item": item, "u": uni, "f32w": f32w,
		"wrap": map[string]interface{}{"rules": rules, "item": item, "u": uni, "f32w": f32w}}
	v, err, panicked, pv := resolveIn(data, c.Src)
	w.Eval(1)
	w.Count("member_call_cases")
	w.Nontrivial("membercall:" + c.Src)
	if panicked {
		w.Violation("member-calls-and-tagged-fields", "C16/escaped-panic", c, c.Want, fmt.Sprint(pv), c.Src)
		return
	}
	got := "error"
	if err == nil {
		got = renderPlain(v)
	}
	if got != c.Want {
		w.Violation("member-calls-and-tagged-fields", "C16/member-read-by-name", c, c.Want, got+" "+fmt.Sprint(err), c.Src+": a member is read from the object it is a member of, under its own (Go) name")
	}
})

// renderPlain renders numbers in plain digits, strings quoted, arrays in brackets.
func renderPlain(v interface{}) string {
	switch x := v.(type) {
	case string:
		return fmt.Sprintf("%q", x)
	case []interface{}:
		var p []string
		for _, e := range x {
			p = append(p, renderPlain(e))
		}
		return "[" + strings.Join(p, ", ") + "]"
	}
	return plainNums(v)
}

func init() { c16.Run = runC16 }

func runC16(w *core.W) {
	runC16Shadow(w)
	for i := range methodTypeCases {
		if w.Mine(i) {
			c16Methods(w, &methodTypeCases[i])
		}
	}
	r := w.RNG("paths")
	run := func(c *PathCase, i int) {
		c16Path(w, c)
		if i%4001 == 0 {
			w.Sample("path", c.Src())
		}
	}
	for round, nr := 0, w.Pick(18, 400); round < nr; round++ {
		data := c16Data(r)
		// systematic: every top-level name, then every key below it to depth 2 with both operators, then random deeper
		bases := []string{"this", "missing", "abs", "toString", "Max", "DATE", "Len", "NOW", "ToInt", "Abs", "MAX", "Year", "tostring", "startwith"}
		for _, e := range data.M {
			if !strings.Contains(e.K, ".") { // (flat keys with dots in them are no names a formula can write)
				bases = append(bases, e.K)
			}
		}
		i := 0
		for _, b := range bases {
			run(&PathCase{Data: data, Base: b}, i)
			for _, k1 := range c16Keys {
				for _, op1 := range []string{".", "!."} {
					i++
					run(&PathCase{Data: data, Base: b, Segs: []Seg{{op1, k1}}}, i)
					if (i+round)%5 == 0 {
						run(&PathCase{Data: data, Base: b, Segs: []Seg{{op1, k1}}, Wrap: pathWraps[(i/5)%len(pathWraps)]}, i)
						w.Count("wrapped_operand_paths")
					}
					if round%4 == 0 {
						for j := 0; j < 3; j++ {
							k2 := c16Keys[r.Intn(len(c16Keys))]
							run(&PathCase{Data: data, Base: b, Segs: []Seg{{op1, k1}, {[]string{".", "!."}[r.Intn(2)], k2}}}, i)
						}
					}
				}
			}
		}
		for j, nj := 0, 300; j < nj; j++ {
			depth := 2 + r.Intn(3)
			c := &PathCase{Data: data, Base: bases[r.Intn(len(bases))]}
			// walk mostly along existing keys so that deep paths reach real values
			cur := data
			if e, ok := data.Get(c.Base); ok {
				cur = e
			}
			for d := 0; d < depth; d++ {
				key := c16Keys[r.Intn(len(c16Keys))]
				if len(cur.M) > 0 && r.Intn(4) != 0 {
					if k2 := cur.M[r.Intn(len(cur.M))].K; len(ref.Lexemes([]byte(k2))) == 1 && ref.IsIDStart(rune(k2[0])) && !ref.Keywords[k2] {
						key = k2
					}
				}
				c.Segs = append(c.Segs, Seg{[]string{".", ".", "!."}[r.Intn(3)], key})
				if e, ok := cur.Get(key); ok {
					cur = e
				} else {
					cur = val.V{}
				}
			}
			run(c, j)
			if j%2 == 0 {
				wc := *c
				wc.Wrap, wc.WrapAt = pathWraps[r.Intn(len(pathWraps))], r.Intn(len(c.Segs)+1)
				run(&wc, j)
				w.Count("wrapped_operand_paths")
			}
		}
		// two reads in one formula: the same path with '.' and '!.' swapped, and a local re-bound between two reads
		for j := 0; j < 120; j++ {
			b1 := bases[r.Intn(len(bases))]
			p1 := PathCase{Data: val.V{}, Base: b1}
			cur := data
			if e, ok := data.Get(b1); ok {
				cur = e
			}
			for d, nd := 0, 1+r.Intn(3); d < nd; d++ {
				key := c16Keys[r.Intn(len(c16Keys))]
				if len(cur.M) > 0 && r.Intn(3) != 0 {
					if k2 := cur.M[r.Intn(len(cur.M))].K; len(ref.Lexemes([]byte(k2))) == 1 && ref.IsIDStart(rune(k2[0])) && !ref.Keywords[k2] {
						key = k2
					}
				}
				p1.Segs = append(p1.Segs, Seg{[]string{".", ".", "!."}[r.Intn(3)], key})
				if e, ok := cur.Get(key); ok {
					cur = e
				} else {
					cur = val.V{}
				}
			}
			p2 := PathCase{Base: b1, Segs: append([]Seg{}, p1.Segs...)}
			k := r.Intn(len(p2.Segs))
			if p2.Segs[k].Op == "." {
				p2.Segs[k].Op = "!."
			} else {
				p2.Segs[k].Op = "."
			}
			c16Two(w, &TwoPathCase{Data: data, P1: p1, P2: p2, Form: "array"})
			c16Two(w, &TwoPathCase{Data: data, P1: p2, P2: p1, Form: "array"})
			if b1 != "this" && !builtinSet[b1] {
				c16Two(w, &TwoPathCase{Data: data, P1: p1, P2: PathCase{Base: bases[r.Intn(len(bases))]}, Form: "rebind"})
			}
		}
		// without a data map
		for _, b := range []string{"a", "this", "missing", "len"} {
			run(&PathCase{Base: b, NoMap: true}, 1)
			run(&PathCase{Base: b, NoMap: true, Segs: []Seg{{".", "k"}}}, 1)
			run(&PathCase{Base: b, NoMap: true, Segs: []Seg{{".", "k"}, {".", "j"}}}, 1)
			run(&PathCase{Base: b, NoMap: true, Segs: []Seg{{"!.", "k"}}}, 1)
		}
	}
	_ = strings.Join
	for i := range memberCallCases {
		if w.Mine(i) {
			c16MemberCall(w, &memberCallCases[i])
		}
	}
	fi := 0
	for _, name := range []string{"$x", "a", "$fresh"} {
		for _, first := range []string{"%n", "%n = 7", "%n = a + 1, %n", "[%n, this.%n]", "$y = %n", "%n = %n", "1"} {
			for _, ch := range []string{"setvalue", "setthis-with", "setthis-without", "direct-set", "direct-delete", "setthis-nil", "none"} {
				fi++
				f := strings.ReplaceAll(first, "%n", name)
				if w.Mine(fi) && (strings.HasPrefix(name, "$") || !strings.Contains(f, "a =")) {
					c16Follow(w, &FollowCase{Name: name, First: f, Change: ch})
				}
			}
		}
	}
}

// ShadowCase: a host function stored in the data under the name of a builtin. A bare name denotes the builtin if there
// is one: the call gives what it gives without that entry, and `this.<name>` still reads the entry.
type ShadowCase struct {
	Name string `json:"name"`
	Call string `json:"call"` // the call, with %b for the name
}

var shadowCalls = []string{"%b(n0)", "%b(s0, s1)", "%b(t0)", "%b(n0, n1)", "%b(s0, n0, n1)", "%b(arr, s0)", "%b()", "%b(s0)", "%b(3, 7)", "%b('ab')", "[%b(n1), %b(n1)]", "%b(n0) ?? 'x'", "typeof %b", "%b == null", "(%b)(n0)", "$f = %b, typeof $f"}

var c16Shadow = core.Mon(c16, "builtin-not-shadowed", func(w *core.W, c *ShadowCase) {
	src := strings.ReplaceAll(c.Call, "%b", c.Name)
	base := func() map[string]interface{} {
		return map[string]interface{}{"n0": 2.5, "n1": -3, "s0": "abcab", "s1": "b", "t0": time.Date(2024, 2, 29, 13, 4, 5, 0, time.UTC), "arr": []interface{}{"p", "q"}}
	}
	w.Count("shadow_cases")
	w.Nontrivial("shadow:" + src)
	v0, e0, p0, pv0 := resolveInOnce(base(), src)
	called := 0
	with := base()
	with[c.Name] = func(xs ...interface{}) (interface{}, error) { called++; return "host:" + c.Name, nil }
	v1, e1, p1, pv1 := resolveInOnce(with, src)
	w.Eval(2)
	o0, o1 := outcome(v0, e0, p0, pv0), outcome(v1, e1, p1, pv1)
	if c.Name == "now" || c.Name == "toDay" {
		o0, o1 = o0[:5], o1[:5] // (the clock moves on: same kind of outcome)
	}
	if called != 0 || o0 != o1 {
		w.Violation("builtin-not-shadowed", "C16/builtin-shadowed-by-host-function", c, clipS(o0, 200), clipS(fmt.Sprintf("%s (the data entry was called %d times)", o1, called), 200),
			fmt.Sprintf("%s with a host function stored under the name %s in the data", src, c.Name))
		return
	}
	// the entry itself is still there for `this.<name>`
	v2, e2, p2, _ := resolveInOnce(with, "[this."+c.Name+"]")
	arr, _ := v2.([]interface{})
	if p2 || e2 != nil || len(arr) != 1 || arr[0] == nil || reflect.TypeOf(arr[0]).Kind() != reflect.Func || reflect.ValueOf(arr[0]).Pointer() != reflect.ValueOf(with[c.Name]).Pointer() {
		w.Violation("builtin-not-shadowed", "C16/this-member-not-the-data-entry", c, "the host function stored in the data", fmt.Sprint(show(v2), " ", e2), "[this."+c.Name+"]")
	}
})

func runC16Shadow(w *core.W) {
	i := 0
	for _, b := range gen.Builtins {
		for _, call := range shadowCalls {
			if i++; w.Mine(i) {
				c16Shadow(w, &ShadowCase{Name: b, Call: call})
			}
		}
	}
}

// MethodTypeCase: caller data whose Go types carry methods (String, Error, MarshalJSON, Len ...). Methods do not change what
// a value is: a struct is read field by field, a string-keyed map key by key, and slices and maps are handed on unchanged.
type MethodTypeCase struct {
	Src  string `json:"src"`
	Want string `json:"want"` // plain rendering, or "=<name>" for "the caller's value under that name, unchanged"
}

type labelledRow struct {
	Name string
	Qty  int
	Tags []string
}

func (r labelledRow) String() string               { return "row:" + r.Name }
func (r labelledRow) MarshalJSON() ([]byte, error) { return []byte(`"row"`), nil }

type labelledMap map[string]interface{}

func (m labelledMap) String() string { return "labelled map" }
func (m labelledMap) Error() string  { return "not an error" }

type labelledList []string

func (l labelledList) String() string { return strings.Join(l, "+") }
func (l labelledList) Len() int       { return 99 }

type labelledInts []int

func (l labelledInts) String() string { return "ints" }

func methodTypeData() map[string]interface{} {
	return map[string]interface{}{
		"p": labelledRow{Name: "n1", Qty: 3, Tags: []string{"t"}}, "lm": labelledMap{"k": 1, "name": "x", "in": labelledMap{"j": "deep"}}, "ll": labelledList{"a", "b"}, "li": labelledInts{4, 5},
		"o":    map[string]interface{}{"p": labelledRow{Name: "n2", Qty: 4}, "lm": labelledMap{"k": 2}, "ll": labelledList{"c"}},
		"rows": []labelledRow{{Name: "r0", Qty: 1}}, "wd": time.Wednesday,
		// the zero instant is a time like any other (not null), wherever it sits
		"zt": time.Time{}, "oz": map[string]interface{}{"zt": time.Time{}}, "tmz": map[string]time.Time{"z": {}}, "hz": struct{ T time.Time }{}, "zts": time.Time{}.In(time.FixedZone("X", 3600)),
	}
}

var methodTypeCases = []MethodTypeCase{
	{"p.Name", `"n1"`}, {"p.Qty", "3"}, {"p.Qty + 1", "4"}, {"p.Tags", "=p.Tags"}, {"p!.Name", `"n1"`}, {"p.Missing ?? 'none'", "ERROR"}, {"this.p.Name", `"n1"`}, {"o.p.Name", `"n2"`}, {"o.p.Qty * 2", "8"},
	{"lm.k", "1"}, {"lm.name", `"x"`}, {"lm.in.j", `"deep"`}, {"lm.nope ?? 'none'", `"none"`}, {"o.lm.k", "2"}, {"this.lm.k + 1", "2"}, {"lm!.in!.j", `"deep"`},
	{"[ll]", "=[ll]"}, {"ll", "=ll"}, {"join(ll, '-')", `"a-b"`}, {"includes(ll, 'b')", "true"}, {"o.ll", "=o.ll"}, {"li", "=li"}, {"p", "=p"}, {"lm", "=lm"}, {"[p, lm]", "=[p, lm]"}, {"$v = p, $v.Name", `"n1"`},
	{"zt", "=zt"}, {"oz.zt", "=zt"}, {"tmz.z", "=zt"}, {"hz.T", "=zt"}, {"this.zt", "=zt"}, {"oz!.zt", "=zt"}, {"oz.zt == null", "false"}, {"tmz.z === null", "false"}, {"oz.zt ?? 'd'", "=zt"}, {"hz.T ?? 'd'", "=zt"},
	{"year(oz.zt)", "1"}, {"this.zts ?? 'd'", "=zts"}, {"[oz.zt, tmz.z]", "=[zt, zt]"},
	{"p == null", "false"}, {"lm == null", "false"}, {"ll ?? 'd'", "=ll"}, {"rows", "=rows"},
	// methods are no members: a struct is read field by field
	{"p.String", "ERROR"}, {"p.MarshalJSON ?? 1", "ERROR"}, {"o.p.String", "ERROR"}, {"typeof p.String", "ERROR"}, {"zt.Year", "ERROR"}, {"zt.IsZero ?? 1", "ERROR"}, {"hz.T.Unix", "ERROR"}, {"this.p!.String", "ERROR"},
}

var c16Methods = core.Mon(c16, "types-with-methods", func(w *core.W, c *MethodTypeCase) {
	data := methodTypeData()
	w.Count("method_type_cases")
	w.Nontrivial("methods:" + c.Src)
	v, err, panicked, pv := resolveIn(data, c.Src)
	w.Eval(1)
	if panicked {
		w.Violation("types-with-methods", "C16/escaped-panic", c, c.Want, fmt.Sprint(pv), c.Src)
		return
	}
	if c.Want == "ERROR" {
		if err == nil {
			w.Violation("types-with-methods", "C16/missing-field-not-refused", c, "an error", show(v), c.Src)
		}
		return
	}
	if err != nil {
		w.Violation("types-with-methods", "C16/unexpected-error", c, c.Want, err.Error(), c.Src)
		return
	}
	if strings.HasPrefix(c.Want, "=") {
		// the caller's own value(s), unchanged
		fresh := methodTypeData()
		var want interface{}
		pick := func(path string) interface{} {
			var cur interface{} = fresh
			for _, seg := range strings.Split(path, ".") {
				switch x := cur.(type) {
				case map[string]interface{}:
					cur = x[seg]
				case labelledRow:
					cur = x.Tags
				}
			}
			return cur
		}
		spec := strings.TrimPrefix(c.Want, "=")
		if strings.HasPrefix(spec, "[") {
			var l []interface{}
			for _, n := range strings.Split(strings.Trim(spec, "[]"), ", ") {
				l = append(l, pick(n))
			}
			want = l
		} else {
			want = pick(spec)
		}
		if obs.SnapshotValues(v) != obs.SnapshotValues(want) {
			w.Violation("types-with-methods", "C16/value-not-handed-on-unchanged", c, clipS(obs.SnapshotValues(want), 200), clipS(obs.SnapshotValues(v), 200), c.Src+": slices, maps and structs are handed on unchanged, whatever methods their types carry")
		}
		return
	}
	if got := renderPlain(v); got != c.Want {
		w.Violation("types-with-methods", "C16/member-of-a-type-with-methods", c, c.Want, got, c.Src)
	}
})
