package props

import (
	"fmt"
	"math/rand"
	"os"
	"strings"
	"time"

	"verifmon/internal/core"
	"verifmon/internal/gen"
	"verifmon/internal/obs"
)

var c19Zones = []string{"UTC", "America/New_York", "Europe/London", "Asia/Kolkata", "Australia/Lord_Howe", "America/Sao_Paulo", "Africa/Cairo", "Pacific/Apia", "Asia/Tehran",
	// UTC+14 and UTC-11: at every moment of the day the local calendar date of at least one of them differs from
	// the UTC date (now/toDay are the only clauses that depend on the wall clock of the run)
	"Pacific/Kiritimati", "Pacific/Pago_Pago"}

var c19 = core.Register(&core.Prop{
	ID:    "C19",
	Title: "Date builtins agree with the proleptic Gregorian calendar and preserve instants",
	Rule: "one child process per local time zone (TZ set before start) over 11 zones with and without daylight saving; (y, m, d) with years 1-9999 and months/days from -40 to 60; shift triples; instants around every DST transition of the zone between 1900 and 2100 and random ones, in several time zones; " +
		"civil fields against an independent days-from-civil computation, instants against local midnight under the zone's offsets, layouts against a reference renderer; non-trivial = month or day outside its range, or an instant within 48 h of a transition, or a non-UTC zone; distinct by (zone, call, arguments)",
	Assumptions: []string{
		"zone offsets come from Go's time package (trusted base); everything else (carry rule, civil fields, weekday, milliseconds, formatting) is computed independently",
		"'local midnight' on a day where midnight is skipped or repeated means: the instant read with one of the zone's offsets in effect within +-48 h gives that civil midnight; when a unique valid reading exists it is required",
		"now/toDay are checked against the wall-clock bracket of the call (inherent to the clause); a 2 ms slack absorbs clock granularity",
	},
	Shards: func(tier string) int { return pickTier(tier, 11, 22) },
	Env: func(shard int, tier string) []string {
		return []string{"TZ=" + c19Zones[shard%len(c19Zones)]}
	},
	Floors: func(c map[string]int64, tier string) []string {
		var out []string
		for _, k := range []string{"date_cases", "date_carried", "field_cases", "adddate_cases", "usetimezone_cases", "usetimezone_unknown", "timeformat_cases", "now_cases", "today_cases", "records_with_builtin_named_columns", "local_zone_switches", "virtual_clock_cases", "not_a_time_cases", "near_transition", "millsecond_beyond_2262", "negated_extractor_cases", "fields_through_local_cases"} {
			if c[k] == 0 {
				out = append(out, "coverage floor: no "+k)
			}
		}
		for _, z := range c19Zones {
			if c["zone:"+z] == 0 {
				out = append(out, "coverage floor: zone "+z+" not exercised (time zone database missing?)")
			}
		}
		return out
	},
})

func floorDiv(a, b int64) int64 {
	q := a / b
	if (a%b != 0) && ((a < 0) != (b < 0)) {
		q--
	}
	return q
}

// daysFromCivil: days since 1970-01-01 of the proleptic Gregorian date (m in 1..12, any d).
func daysFromCivil(y, m, d int64) int64 {
	if m <= 2 {
		y--
	}
	era := floorDiv(y, 400)
	yoe := y - era*400
	mp := m - 3
	if m <= 2 {
		mp = m + 9
	}
	doy := (153*mp+2)/5 + d - 1
	doe := yoe*365 + yoe/4 - yoe/100 + doy
	return era*146097 + doe - 719468
}

func civilFromDays(z int64) (y, m, d int64) {
	z += 719468
	era := floorDiv(z, 146097)
	doe := z - era*146097
	yoe := (doe - doe/1460 + doe/36524 - doe/146096) / 365
	y = yoe + era*400
	doy := doe - (365*yoe + yoe/4 - yoe/100)
	mp := (5*doy + 2) / 153
	d = doy - (153*mp+2)/5 + 1
	m = mp + 3
	if mp >= 10 {
		m = mp - 9
	}
	if m <= 2 {
		y++
	}
	return
}

// carry normalises (y, m, d) with out-of-range month and day: returns the day number.
func carryDays(y, m, d int64) int64 {
	y += floorDiv(m-1, 12)
	m = (m - 1) - floorDiv(m-1, 12)*12 + 1
	return daysFromCivil(y, m, 1) + d - 1
}

type civil struct {
	Y, Mo, D, H, Mi, S, Wd int64
	Nsec                   int64
	Days                   int64
	Abbr                   string // zone abbreviation (from Go's zone data, the trusted base)
}

// civilOf: fields of an instant read with a given UTC offset.
func civilOf(unix int64, nsec int64, offset int64) civil {
	local := unix + offset
	days := floorDiv(local, 86400)
	sod := local - days*86400
	y, m, d := civilFromDays(days)
	wd := (days + 4) % 7
	if wd < 0 {
		wd += 7
	}
	return civil{Y: y, Mo: m, D: d, H: sod / 3600, Mi: sod % 3600 / 60, S: sod % 60, Wd: wd, Nsec: nsec, Days: days}
}

// candidateOffsets: the offsets in effect around an instant, in a location.
func candidateOffsets(t time.Time) []int64 {
	seen := map[int64]bool{}
	var out []int64
	for _, h := range []int{0, -48, -24, -12, -6, -3, -1, 1, 3, 6, 12, 24, 48} {
		_, off := t.Add(time.Duration(h) * time.Hour).Zone()
		if !seen[int64(off)] {
			seen[int64(off)] = true
			out = append(out, int64(off))
		}
	}
	return out
}

// matchesLocal: does instant t denote the local wall time (days, secondsOfDay) under one candidate offset,
// and under the valid one when exactly one reading exists?
func matchesLocal(t time.Time, localSeconds int64) (bool, string) {
	cands := candidateOffsets(t)
	ok := false
	for _, o := range cands {
		if t.Unix()+o == localSeconds {
			ok = true
		}
	}
	if !ok {
		return false, fmt.Sprintf("instant %d does not read as local second %d under any of the offsets %v", t.Unix(), localSeconds, cands)
	}
	// valid readings: instants u with u + offset_at(u) == localSeconds
	var valid []int64
	for _, o := range cands {
		u := localSeconds - o
		_, off := time.Unix(u, 0).In(t.Location()).Zone()
		if int64(off) == o {
			valid = append(valid, u)
		}
	}
	if len(valid) >= 1 {
		for _, u := range valid {
			if u == t.Unix() {
				return true, ""
			}
		}
		return false, fmt.Sprintf("a valid reading exists (%v) but the instant is %d", valid, t.Unix())
	}
	return true, "" // skipped local time: any candidate reading is accepted
}

// DateCase: one call of a date builtin.
type DateCase struct {
	Fn   string  `json:"fn"`
	Args []int64 `json:"args,omitempty"`
	Unix int64   `json:"unix,omitempty"`
	Nsec int64   `json:"nsec,omitempty"`
	Zone string  `json:"zone,omitempty"`
	Str  string  `json:"str,omitempty"`
	TZ   string  `json:"tz"`
}

func intSrc(v int64) string {
	if v < 0 {
		return fmt.Sprintf("(%d)", v)
	}
	return fmt.Sprint(v)
}

func locOf(name string) *time.Location {
	if strings.HasPrefix(name, "fixed:") {
		// fixed:<name>:<offset seconds> - a zone fabricated by the host (as time.Parse does for unknown abbreviations)
		parts := strings.Split(name, ":")
		off := 0
		fmt.Sscan(parts[2], &off)
		return time.FixedZone(parts[1], off)
	}
	switch name {
	case "", "UTC":
		return time.UTC
	case "Local":
		return time.Local
	}
	l, err := time.LoadLocation(name)
	if err != nil {
		return time.UTC
	}
	return l
}

var refDays = []string{"Sunday", "Monday", "Tuesday", "Wednesday", "Thursday", "Friday", "Saturday"}
var refMonths = []string{"January", "February", "March", "April", "May", "June", "July", "August", "September", "October", "November", "December"}

func refFormat(c civil, offset int64, layout string) string {
	// tokens: 2006 01 02 15 04 05 -0700; everything else literal
	var sb strings.Builder
	for i := 0; i < len(layout); {
		switch {
		case strings.HasPrefix(layout[i:], ".000"):
			fmt.Fprintf(&sb, ".%03d", c.Nsec/1000000)
			i += 4
		case strings.HasPrefix(layout[i:], "MST"):
			sb.WriteString(c.Abbr)
			i += 3
		case strings.HasPrefix(layout[i:], "Monday"):
			sb.WriteString(refDays[c.Wd])
			i += 6
		case strings.HasPrefix(layout[i:], "Mon"):
			sb.WriteString(refDays[c.Wd][:3])
			i += 3
		case strings.HasPrefix(layout[i:], "January"):
			sb.WriteString(refMonths[c.Mo-1])
			i += 7
		case strings.HasPrefix(layout[i:], "Jan"):
			sb.WriteString(refMonths[c.Mo-1][:3])
			i += 3
		case strings.HasPrefix(layout[i:], "PM"):
			sb.WriteString(map[bool]string{true: "PM", false: "AM"}[c.H >= 12])
			i += 2
		case strings.HasPrefix(layout[i:], "pm"):
			sb.WriteString(map[bool]string{true: "pm", false: "am"}[c.H >= 12])
			i += 2
		case strings.HasPrefix(layout[i:], "2006"):
			fmt.Fprintf(&sb, "%04d", c.Y)
			i += 4
		case strings.HasPrefix(layout[i:], "-0700"):
			sign := '+'
			o := offset
			if o < 0 {
				sign = '-'
				o = -o
			}
			fmt.Fprintf(&sb, "%c%02d%02d", sign, o/3600, o%3600/60)
			i += 5
		case strings.HasPrefix(layout[i:], "01"):
			fmt.Fprintf(&sb, "%02d", c.Mo)
			i += 2
		case strings.HasPrefix(layout[i:], "02"):
			fmt.Fprintf(&sb, "%02d", c.D)
			i += 2
		case strings.HasPrefix(layout[i:], "15"):
			fmt.Fprintf(&sb, "%02d", c.H)
			i += 2
		case strings.HasPrefix(layout[i:], "04"):
			fmt.Fprintf(&sb, "%02d", c.Mi)
			i += 2
		case strings.HasPrefix(layout[i:], "05"):
			fmt.Fprintf(&sb, "%02d", c.S)
			i += 2
		default:
			sb.WriteByte(layout[i])
			i++
		}
	}
	return sb.String()
}

// now / toDay cases that carry an instant are evaluated under a virtual wall clock set to that instant (the harness
// binary's time.Now is hooked through a build overlay, tools/mkoverlay.py): the bracket [t0, t1] of the call is then
// a few microseconds around ANY chosen moment - transitions, local midnights, the date line - instead of "whenever
// the check happened to run".
var c19InVirtual bool

var c19Check = core.Mon(c19, "dates", func(w *core.W, c *DateCase) {
	if (c.Fn == "now" || c.Fn == "toDay") && (c.Unix != 0 || c.Nsec != 0) && !c19InVirtual {
		if !obs.ClockAvailable() {
			w.Skip("no-clock-overlay")
			return
		}
		c19InVirtual = true
		defer func() { c19InVirtual = false }()
		w.Count("virtual_clock_cases")
		obs.WithClock(time.Unix(c.Unix, c.Nsec), func() { c19Body(w, c) })
		return
	}
	c19Body(w, c)
})

func c19Body(w *core.W, c *DateCase) {
	if c.TZ != "" && os.Getenv("TZ") != c.TZ {
		w.Skip("replayed-under-another-TZ")
		return
	}
	w.Count("zone:" + os.Getenv("TZ"))
	bad := func(sig string, want, got interface{}, what string) {
		w.Violation("dates", "C19/"+sig, c, want, got, fmt.Sprintf("[TZ=%s] %s", os.Getenv("TZ"), what))
	}
	key := fmt.Sprintf("%s|%s|%v|%d|%d|%s|%s", os.Getenv("TZ"), c.Fn, c.Args, c.Unix, c.Nsec, c.Zone, c.Str)
	t := time.Unix(c.Unix, c.Nsec).In(locOf(c.Zone))
	data := map[string]interface{}{"t": t, "str": c.Str}
	if core.Hash64(key)%3 == 0 {
		// a record whose columns are named like the builtins the formulas call (year, month, day, date, now, ...): a
		// bare name denotes the builtin whenever there is one, whatever the data holds
		for _, b := range gen.Builtins {
			if _, taken := data[b]; !taken {
				data[b] = "column " + b
			}
		}
		w.Count("records_with_builtin_named_columns")
	}
	nearTransition := func(x time.Time) bool {
		return len(candidateOffsets(x)) > 1
	}
	switch c.Fn {
	case "not-a-time":
		v, err, panicked, pv := resolveIn(map[string]interface{}{"t": time.Unix(0, 0), "np": (*time.Time)(nil), "str": "x"}, c.Str)
		w.Eval(1)
		w.Count("not_a_time_cases")
		w.Nontrivial(key)
		if panicked || err == nil {
			bad("not-a-time-accepted", "an error", fmt.Sprint(show(v), pv), c.Str+": the argument is not a time")
		}
	case "date":
		y, m, d := c.Args[0], c.Args[1], c.Args[2]
		src := fmt.Sprintf("date(%s, %s, %s)", intSrc(y), intSrc(m), intSrc(d))
		v, err, panicked, pv := resolveIn(data, src)
		w.Eval(1)
		w.Count("date_cases")
		if panicked || err != nil {
			bad("date-error", "a time", fmt.Sprint(pv, err), src)
			return
		}
		got, ok := v.(time.Time)
		if !ok {
			bad("date-not-time", "a time", show(v), src)
			return
		}
		days := carryDays(y, m, d)
		if m < 1 || m > 12 || d < 1 || d > 28 {
			w.Count("date_carried")
			w.Nontrivial(key)
		}
		if nearTransition(got) {
			w.Count("near_transition")
			w.Nontrivial(key)
		}
		if okm, why := matchesLocal(got, days*86400); !okm {
			cy, cm, cd := civilFromDays(days)
			bad("date-instant", fmt.Sprintf("local midnight of %04d-%02d-%02d", cy, cm, cd), got.Format(time.RFC3339), src+": "+why)
			return
		}
		if got.Location() != time.Local {
			bad("date-zone", "local zone", got.Location().String(), src)
		}
		// the field extractors on this very value
		checkFields(w, c, bad, got, map[string]interface{}{"t": got}, src)
	case "fields":
		w.Count("field_cases")
		if c.Zone != "UTC" && c.Zone != "" {
			w.Nontrivial(key)
		}
		if nearTransition(t) {
			w.Count("near_transition")
		}
		checkFields(w, c, bad, t, data, "t")
	case "addDate":
		y, m, d := c.Args[0], c.Args[1], c.Args[2]
		src := fmt.Sprintf("addDate(t, %s, %s, %s)", intSrc(y), intSrc(m), intSrc(d))
		v, err, panicked, pv := resolveIn(data, src)
		w.Eval(1)
		w.Count("adddate_cases")
		if panicked || err != nil {
			bad("adddate-error", "a time", fmt.Sprint(pv, err), src)
			return
		}
		got, ok := v.(time.Time)
		if !ok {
			bad("adddate-not-time", "a time", show(v), src)
			return
		}
		_, off := t.Zone()
		base := civilOf(t.Unix(), 0, int64(off))
		days := carryDays(base.Y+y, base.Mo+m, base.D+d)
		local := days*86400 + base.H*3600 + base.Mi*60 + base.S
		w.Nontrivial(key)
		if nearTransition(got) {
			w.Count("near_transition")
		}
		if okm, why := matchesLocal(got, local); !okm {
			bad("adddate-instant", fmt.Sprintf("same clock time %02d:%02d:%02d on day %d", base.H, base.Mi, base.S, days), got.Format(time.RFC3339), fmt.Sprintf("%s with t=%s: %s", src, t.Format(time.RFC3339), why))
			return
		}
		if int64(got.Nanosecond()) != c.Nsec || got.Location() != t.Location() {
			bad("adddate-zone-or-nanos", fmt.Sprintf("%d ns in %s", c.Nsec, t.Location()), fmt.Sprintf("%d ns in %s", got.Nanosecond(), got.Location()), src)
		}
	case "useTimezone":
		src := "useTimezone(t, str)"
		v, err, panicked, pv := resolveIn(data, src)
		w.Eval(1)
		w.Count("usetimezone_cases")
		if panicked {
			bad("usetimezone-panic", nil, fmt.Sprint(pv), src)
			return
		}
		loc, lerr := time.LoadLocation(c.Str)
		if lerr != nil {
			w.Count("usetimezone_unknown")
			if err == nil {
				bad("usetimezone-unknown-zone-no-error", "an error", show(v), fmt.Sprintf("useTimezone(t, %q)", c.Str))
			}
			return
		}
		if err != nil {
			bad("usetimezone-error", "a time", err.Error(), fmt.Sprintf("useTimezone(t, %q)", c.Str))
			return
		}
		got, ok := v.(time.Time)
		w.Nontrivial(key)
		if !ok || got.Unix() != t.Unix() || got.Nanosecond() != t.Nanosecond() {
			bad("usetimezone-instant", t.UnixNano(), show(v), fmt.Sprintf("useTimezone(t, %q) must not change the instant", c.Str))
			return
		}
		_, o1 := got.Zone()
		_, o2 := t.In(loc).Zone()
		if o1 != o2 || got.Location().String() != loc.String() {
			bad("usetimezone-zone", loc.String(), got.Location().String(), fmt.Sprintf("useTimezone(t, %q)", c.Str))
			return
		}
		// and the fields follow the new zone, also when the converted time is kept in a local first
		v3, err3, _, _ := resolveIn(data, "$z = useTimezone(t, str), [hour($z), day($z), timeFormat($z, '-0700')]")
		a3, _ := v3.([]interface{})
		c3 := civilOf(t.Unix(), 0, int64(o2))
		if err3 != nil || len(a3) != 3 || !mvMatches(mvInt(c3.H), a3[0]) || !mvMatches(mvInt(c3.D), a3[1]) || a3[2] != refFormat(c3, int64(o2), "-0700") {
			bad("usetimezone-through-local", fmt.Sprintf("[%d, %d, %s]", c3.H, c3.D, refFormat(c3, int64(o2), "-0700")), fmt.Sprint(show(v3), err3), fmt.Sprintf("$z = useTimezone(t, %q), [hour($z), day($z), timeFormat($z, '-0700')]", c.Str))
			return
		}
		v2, err2, _, _ := resolveIn(data, "hour(useTimezone(t, str))")
		want := civilOf(t.Unix(), 0, int64(o2)).H
		if err2 != nil || !mvMatches(mvInt(want), v2) {
			bad("usetimezone-hour", want, fmt.Sprint(show(v2), err2), fmt.Sprintf("hour(useTimezone(t, %q))", c.Str))
		}
	case "timeFormat":
		src := "timeFormat(t, str)"
		v, err, panicked, pv := resolveIn(data, src)
		w.Eval(1)
		w.Count("timeformat_cases")
		if panicked || err != nil {
			bad("timeformat-error", "a string", fmt.Sprint(pv, err), src)
			return
		}
		abbr, off := t.Zone()
		cv := civilOf(t.Unix(), int64(t.Nanosecond()), int64(off))
		cv.Abbr = abbr
		want := refFormat(cv, int64(off), c.Str)
		w.Nontrivial(key)
		if v != want {
			bad("timeformat", want, show(v), fmt.Sprintf("timeFormat(%s, %q)", t.Format(time.RFC3339Nano), c.Str))
			return
		}
		// consecutive renderings: the same second with other nanoseconds, and the same instant in another zone
		t2 := t.Add(time.Duration(1+c.Nsec%7) * 37 * time.Millisecond)
		if t2.Unix() != t.Unix() {
			t2 = t.Add(-time.Duration(t.Nanosecond()))
		}
		t3 := t.In(locOf([]string{"UTC", "Europe/London", "fixed:GMT:0", "Asia/Shanghai"}[c.Unix&3]))
		data["t2"], data["t3"] = t2, t3
		v2, err2, _, pv2 := resolveIn(data, "[timeFormat(t, str), timeFormat(t2, str), timeFormat(t3, str), timeFormat(t, str)]")
		w.Eval(1)
		arr, ok := v2.([]interface{})
		if err2 != nil || !ok || len(arr) != 4 {
			bad("timeformat-error", "four strings", fmt.Sprint(pv2, err2, show(v2)), src)
			return
		}
		a2, o2 := t2.Zone()
		c2 := civilOf(t2.Unix(), int64(t2.Nanosecond()), int64(o2))
		c2.Abbr = a2
		a3, o3 := t3.Zone()
		c3 := civilOf(t3.Unix(), int64(t3.Nanosecond()), int64(o3))
		c3.Abbr = a3
		wants := []string{want, refFormat(c2, int64(o2), c.Str), refFormat(c3, int64(o3), c.Str), want}
		for i := range wants {
			if arr[i] != wants[i] {
				bad("timeformat-consecutive", wants, show(v2), fmt.Sprintf("consecutive timeFormat calls with layout %q on %s, %s, %s", c.Str, t.Format(time.RFC3339Nano), t2.Format(time.RFC3339Nano), t3.Format(time.RFC3339Nano)))
				return
			}
		}
	case "now":
		t0 := time.Now()
		v, err, panicked, pv := resolveIn(nil, "now()")
		t1 := time.Now()
		w.Eval(1)
		w.Count("now_cases")
		w.Nontrivial(fmt.Sprint(key, t0.UnixNano()))
		got, ok := v.(time.Time)
		if panicked || err != nil || !ok {
			bad("now-error", "a time", fmt.Sprint(pv, err, show(v)), "now()")
			return
		}
		slack := 2 * time.Millisecond // (the real clock may be stepped; the virtual clock's readings are strictly ordered)
		if c19InVirtual {
			slack = 0
		}
		if got.Before(t0.Add(-slack)) || got.After(t1.Add(slack)) {
			bad("now-outside-bracket", fmt.Sprintf("[%s, %s]", t0.Format(time.RFC3339Nano), t1.Format(time.RFC3339Nano)), got.Format(time.RFC3339Nano), "now()")
		}
	case "toDay":
		t0 := time.Now()
		v, err, panicked, pv := resolveIn(nil, "toDay()")
		t1 := time.Now()
		w.Eval(1)
		w.Count("today_cases")
		w.Nontrivial(fmt.Sprint(key, t0.UnixNano()))
		got, ok := v.(time.Time)
		if panicked || err != nil || !ok {
			bad("today-error", "a time", fmt.Sprint(pv, err, show(v)), "toDay()")
			return
		}
		good := false
		for _, b := range []time.Time{t0, t1} {
			_, off := b.In(time.Local).Zone()
			cb := civilOf(b.Unix(), 0, int64(off))
			if okm, _ := matchesLocal(got, cb.Days*86400); okm {
				good = true
			}
		}
		if !good {
			bad("today", "local midnight of the current day", got.Format(time.RFC3339), "toDay()")
		}
	}
}

func checkFields(w *core.W, c *DateCase, bad func(string, interface{}, interface{}, string), t time.Time, data map[string]interface{}, label string) {
	_, off := t.Zone()
	cv := civilOf(t.Unix(), int64(t.Nanosecond()), int64(off))
	ms := t.Unix()*1000 + int64(t.Nanosecond())/1000000
	if t.Year() > 2262 || t.Year() < 1678 {
		w.Count("millsecond_beyond_2262")
	}
	want := []struct {
		fn string
		v  int64
	}{{"year", cv.Y}, {"month", cv.Mo}, {"day", cv.D}, {"hour", cv.H}, {"minute", cv.Mi}, {"second", cv.S}, {"weekDay", cv.Wd}, {"millSecond", ms}}
	// the extractors are used the way formulas use them: directly, negated (addDate(t, 0, 0, -day(t))), and on a
	// time that went through a local; none of that may disturb a later plain use
	form := "[year(t), month(t), day(t), hour(t), minute(t), second(t), weekDay(t), millSecond(t)]"
	switch (t.Unix() + int64(t.Nanosecond())) % 3 {
	case 1:
		neg, errN, pN, pvN := resolveIn(data, "[-year(t), -month(t), -day(t), -hour(t), -minute(t), -second(t), -weekDay(t), -millSecond(t), addDate(t, 0, 0, -day(t) + day(t))]")
		w.Eval(1)
		w.Count("negated_extractor_cases")
		if pN || errN != nil {
			bad("fields-error", "numbers", fmt.Sprint(pvN, errN), "negated extractors on "+label)
			return
		}
		na, _ := neg.([]interface{})
		for i, e := range want {
			if i < len(na) && !mvMatches(mvInt(-e.v), na[i]) {
				bad("field:-"+e.fn, -e.v, show(na[i]), fmt.Sprintf("-%s(%s) for %s", e.fn, label, t.Format(time.RFC3339Nano)))
				return
			}
		}
	case 2:
		form = "$z = t, [year($z), month($z), day($z), hour($z), minute($z), second($z), weekDay($z), millSecond($z)]"
		w.Count("fields_through_local_cases")
	}
	v, err, panicked, pv := resolveIn(data, form)
	w.Eval(1)
	if panicked || err != nil {
		bad("fields-error", "numbers", fmt.Sprint(pv, err), label)
		return
	}
	arr, ok := v.([]interface{})
	if !ok || len(arr) != len(want) {
		bad("fields-shape", "8 numbers", show(v), label)
		return
	}
	for i, e := range want {
		if !mvMatches(mvInt(e.v), arr[i]) {
			bad("field:"+e.fn, e.v, show(arr[i]), fmt.Sprintf("%s(%s) for %s (unix %d, offset %d)", e.fn, label, t.Format(time.RFC3339Nano), t.Unix(), off))
			return
		}
	}
}

// transitions of a location between 1900 and 2100 (found by scanning Go's zone data, the trusted base)
func transitions(loc *time.Location) []int64 {
	var out []int64
	start := time.Date(1900, 1, 1, 0, 0, 0, 0, time.UTC).Unix()
	end := time.Date(2100, 1, 1, 0, 0, 0, 0, time.UTC).Unix()
	step := int64(86400 * 7)
	_, prev := time.Unix(start, 0).In(loc).Zone()
	for u := start + step; u < end; u += step {
		_, o := time.Unix(u, 0).In(loc).Zone()
		if o != prev {
			// bisect
			lo, hi := u-step, u
			for hi-lo > 1 {
				mid := (lo + hi) / 2
				_, om := time.Unix(mid, 0).In(loc).Zone()
				if om == prev {
					lo = mid
				} else {
					hi = mid
				}
			}
			out = append(out, hi)
			prev = o
		}
	}
	return out
}

var c19Layouts = []string{"15:04:05.000", "2006-01-02 15:04:05.000 MST", "15:04 MST", "2006-01-02", "2006-01-02 15:04:05", "15:04", "02/01/2006", "2006-01-02T15:04:05-0700", "20060102150405", "05 04 15", "-0700 2006", "x", "", "2006年01月02日",
	// layouts without any digit, and name elements next to numeric ones
	"Monday", "Mon", "January", "Jan", "MST", "PM", "pm", "Monday, January", "Mon Jan MST", "Monday 02 January 2006 15:04 PM", "Jan 02 (Mon) 05", "Z MST Z",
	// blanks at the edges of a layout are rendered like any other text
	"15:04 ", " 2006", "\t15", "   ", "2006-01-02\n", " Jan 02 ", "\u00a015:04\u00a0"}

func init() { c19.Run = runC19 }

func runC19(w *core.W) {
	tz := os.Getenv("TZ")
	r := w.RNG("dates-" + tz)
	idx := 0
	run := func(c *DateCase) {
		c.TZ = tz
		c19Check(w, c)
		idx++
		if idx%3001 == 0 {
			w.Sample(c.Fn, fmt.Sprintf("TZ=%s %s args=%v unix=%d zone=%s str=%q", tz, c.Fn, c.Args, c.Unix, c.Zone, c.Str))
		}
	}
	if time.Local.String() != tz && !(tz == "UTC" && time.Local.String() == "UTC") {
		w.Note("TZ=" + tz + " but time.Local is " + time.Local.String())
	}
	trans := transitions(time.Local)
	zonesForData := []string{"UTC", "Local", "Asia/Shanghai", "America/New_York", "Australia/Lord_Howe", "Asia/Kathmandu", "fixed:EST:0", "fixed:Office/Basement:3600", "fixed:Europe/London:7200", "fixed:UTC:-3600"}
	// date(y, m, d): systematic months/days for a few years, then random, then around transitions of the local zone
	for _, y := range []int64{0, 1, 4, 100, 400, 1582, 1899, 1900, 1970, 1999, 2000, 2024, 2038, 2100, 2262, 2263, 9999} {
		for m := int64(-14); m <= 26; m++ {
			for _, d := range []int64{-40, -1, 0, 1, 15, 28, 29, 30, 31, 32, 60} {
				run(&DateCase{Fn: "date", Args: []int64{y, m, d}})
			}
		}
	}
	for i, n := 0, w.Pick(45000, 600000); i < n; i++ {
		run(&DateCase{Fn: "date", Args: []int64{1 + r.Int63n(9999), r.Int63n(101) - 40, r.Int63n(101) - 40}})
	}
	for _, u := range trans {
		for _, dd := range []int64{-2, -1, 0, 1, 2} {
			lt := time.Unix(u, 0).In(time.Local)
			run(&DateCase{Fn: "date", Args: []int64{int64(lt.Year()), int64(lt.Month()), int64(lt.Day()) + dd}})
		}
	}
	// field extractors and addDate on instants: random, edge, around transitions
	var instants []int64
	for _, u := range trans {
		for _, delta := range []int64{-86400, -3601, -3600, -1801, -1, 0, 1, 1799, 1800, 3599, 3600, 86400} {
			instants = append(instants, u+delta)
		}
	}
	instants = append(instants, 0, -1, 1, 86399, 86400, -86400, 951782400, 253402300799, -62135596800, 9224318015, 9224318016, -9223372037, 32503680000, 1<<31-1, 1<<31, 1700000000)
	for i, n := 0, w.Pick(18000, 240000); i < n; i++ {
		instants = append(instants, r.Int63n(253402300800+62135596800)-62135596800)
	}
	for i, u := range instants {
		zone := zonesForData[r.Intn(len(zonesForData))]
		nsec := int64(0)
		if i%3 == 0 {
			nsec = r.Int63n(1e9)
		}
		run(&DateCase{Fn: "fields", Unix: u, Nsec: nsec, Zone: zone})
		if i%2 == 0 {
			sh := []int64{50, 500, 5000}[r.Intn(3)]
			run(&DateCase{Fn: "addDate", Unix: u, Nsec: nsec, Zone: zone, Args: []int64{r.Int63n(2*sh+1) - sh, r.Int63n(2*sh+1) - sh, r.Int63n(2*sh+1) - sh}})
			run(&DateCase{Fn: "addDate", Unix: u, Nsec: nsec, Zone: "Local", Args: []int64{0, r.Int63n(25) - 12, r.Int63n(63) - 31}})
		}
		if i%5 == 0 {
			names := []string{"UTC", "Asia/Shanghai", "America/New_York", "Europe/London", "Asia/Kolkata", "Pacific/Apia", "No/Such_Zone", "???", "Mars/Olympus_Mons", "Local", "Asia/Tehran", "Australia/Lord_Howe", "EST", "Office/Basement", "Europe/London", "UTC",
				"america/new_york", "ASIA/SHANGHAI", "europe/london", "utc", "est", "MST", "PST", "CST", "HKT", "JST", "IST", "Asia/shanghai"}
			run(&DateCase{Fn: "useTimezone", Unix: u, Nsec: nsec, Zone: zone, Str: names[r.Intn(len(names))]})
			run(&DateCase{Fn: "timeFormat", Unix: u, Nsec: nsec, Zone: zone, Str: c19Layouts[r.Intn(len(c19Layouts))]})
		}
	}
	for i := 0; i < 50; i++ {
		run(&DateCase{Fn: "now"})
		run(&DateCase{Fn: "toDay"})
	}
	// what is not a time is not accepted as one (null, absent columns, typed nil pointers, numbers, texts)
	for _, fn := range []string{"year(%s)", "month(%s)", "day(%s)", "hour(%s)", "minute(%s)", "second(%s)", "weekDay(%s)", "millSecond(%s)", "addDate(%s, 0, 0, 1)", "useTimezone(%s, 'UTC')", "timeFormat(%s, '2006-01-02')"} {
		for _, arg := range []string{"null", "absent", "np", "0", "'2024-01-01'", "[t]", "str"} {
			run(&DateCase{Fn: "not-a-time", Str: strings.ReplaceAll(fn, "%s", arg)})
		}
	}
	// now / toDay at chosen instants (virtual clock): around every transition of the local zone, around local midnights,
	// year ends, leap days and random moments between 1900 and 2200
	var moments []int64
	for _, u := range trans {
		moments = append(moments, u-1, u, u+1, u-3600, u+3599, u+86400)
	}
	for i := 0; i < w.Pick(400, 6000); i++ {
		u := r.Int63n(9467000000) - 2208988800 // 1900 .. 2200
		moments = append(moments, u)
		// the local midnight just before / after that moment
		lt := time.Unix(u, 0).In(time.Local)
		mid := time.Date(lt.Year(), lt.Month(), lt.Day(), 0, 0, 0, 0, time.Local).Unix()
		moments = append(moments, mid-1, mid, mid+1, mid+86399)
	}
	for _, y := range []int{1970, 1999, 2000, 2024, 2038, 2100} {
		moments = append(moments, time.Date(y, 12, 31, 23, 59, 59, 0, time.UTC).Unix(), time.Date(y, 2, 29, 12, 0, 0, 0, time.UTC).Unix(), time.Date(y, 1, 1, 0, 0, 0, 0, time.Local).Unix()-1)
	}
	for i, u := range moments {
		if u == 0 {
			u = 1
		}
		ns := int64(0)
		switch i % 3 {
		case 0:
			ns = 999999000
		case 1:
			ns = 1 + (u*7919+int64(i)*104729)%999999999 // any nanosecond: now() is the clock's reading, not a rounding of it
			if ns < 0 {
				ns = -ns
			}
		}
		run(&DateCase{Fn: "now", Unix: u, Nsec: ns})
		run(&DateCase{Fn: "toDay", Unix: u, Nsec: ns})
	}
	// the host applies a configured zone after start-up (time.Local = loc): "local" follows it from then on
	home := time.Local
	for zi, alt := range []string{"Asia/Tokyo", "America/New_York", "Pacific/Kiritimati", "UTC", "Europe/London"} {
		l, err := time.LoadLocation(alt)
		if err != nil || alt == tz {
			continue
		}
		time.Local = l
		w.Count("local_zone_switches")
		for i := 0; i < w.Pick(120, 1200); i++ {
			run(&DateCase{Fn: "date", Args: []int64{1 + r.Int63n(9999), r.Int63n(101) - 40, r.Int63n(101) - 40}})
			if i%10 == 0 {
				u := r.Int63n(253402300800+62135596800) - 62135596800
				run(&DateCase{Fn: "fields", Unix: u, Zone: "Local"})
				run(&DateCase{Fn: "addDate", Unix: u, Zone: "Local", Args: []int64{0, r.Int63n(25) - 12, r.Int63n(63) - 31}})
				run(&DateCase{Fn: "toDay"})
				run(&DateCase{Fn: "now"})
			}
		}
		_ = zi
	}
	time.Local = home
	_ = rand.Intn
}
