package props

import (
	"errors"
	"fmt"
	"math/rand"
	"reflect"
	"strconv"
	"strings"

	"github.com/ericlagergren/decimal"

	"verifmon/internal/ref"
)

// MV is a model value of the store-passing reference evaluator (the sub-language
// of C07/C20: integers, strings, booleans, null, arrays).
type MV struct {
	K string `json:"k"` // null int str bool arr fn (S = rec | rec2) self (the data map itself)
	I int64  `json:"i,omitempty"`
	S string `json:"s,omitempty"`
	B bool   `json:"b,omitempty"`
	A []MV   `json:"a,omitempty"`
}

var mvNull = MV{K: "null"}

func mvInt(i int64) MV { return MV{K: "int", I: i} }

func (v MV) String() string {
	switch v.K {
	case "null":
		return "null"
	case "int":
		return strconv.FormatInt(v.I, 10)
	case "str":
		return strconv.Quote(v.S)
	case "bool":
		return strconv.FormatBool(v.B)
	case "arr":
		var p []string
		for _, e := range v.A {
			p = append(p, e.String())
		}
		return "[" + strings.Join(p, ", ") + "]"
	case "fn":
		return "function"
	case "self":
		return "this"
	}
	return "?"
}

func (v MV) truthy() bool {
	switch v.K {
	case "null":
		return false
	case "int":
		return v.I != 0
	case "str":
		return v.S != ""
	case "bool":
		return v.B
	}
	return true
}

// mvMatches compares a model value with what the implementation produced.
func mvMatches(m MV, got interface{}) bool {
	switch m.K {
	case "null":
		return got == nil
	case "int":
		switch g := got.(type) {
		case float64:
			return g == float64(m.I)
		case *decimal.Big:
			if g == nil {
				return false
			}
			return g.Cmp(decimal.New(m.I, 0)) == 0
		case int:
			return int64(g) == m.I
		case int64:
			return g == m.I
		}
		return false
	case "str":
		return got == m.S
	case "bool":
		return got == m.B
	case "self":
		_, isMap := got.(map[string]interface{})
		return isMap
	case "fn":
		return got != nil && reflect.TypeOf(got).Kind() == reflect.Func
	case "arr":
		a, ok := got.([]interface{})
		if !ok || len(a) != len(m.A) {
			return false
		}
		for i := range a {
			if !mvMatches(m.A[i], a[i]) {
				return false
			}
		}
		return true
	}
	return false
}

// mvGo turns a model value into the Go value a caller would put in a data map.
func mvGo(m MV) interface{} {
	switch m.K {
	case "int":
		return int(m.I)
	case "str":
		return m.S
	case "bool":
		return m.B
	case "arr":
		out := make([]interface{}, len(m.A))
		for i, e := range m.A {
			out[i] = mvGo(e)
		}
		return out
	}
	return nil
}

var errModel = errors.New("evaluation error")
var errUnspec = errors.New("outside the reference sub-language")

// errNotFn: the callee is not a function. An error; whether the arguments were evaluated before it was
// noticed is not compared.
var errNotFn = errors.New("callee is not a function")

// refEval evaluates a reference tree over a store. log receives the arguments of rec(...) calls.
type refEval struct {
	Store           map[string]MV // the data map including $-locals
	Log             []MV
	Assigned        map[string]bool // names bound by an assignment so far (when non-nil)
	ThisNull        bool            // the runner has no data map: `this` is null
	NullSafeMembers bool            // member access on null is null ('.') or an error ('!.'), also below a missing name
	Self            bool            // `this` is a value (the store itself): `$s = this`, `$s.x`, `$s.$s.x`
}

func (e *refEval) eval(n *ref.Node) (MV, error) {
	switch n.K {
	case "num":
		i, err := strconv.ParseInt(n.S, 10, 64)
		if err != nil {
			return mvNull, errUnspec
		}
		return mvInt(i), nil
	case "str":
		if len(n.S) < 2 || strings.ContainsAny(n.S[1:len(n.S)-1], "\\") {
			return mvNull, errUnspec
		}
		return MV{K: "str", S: n.S[1 : len(n.S)-1]}, nil
	case "kw":
		switch n.S {
		case "null":
			return mvNull, nil
		case "true":
			return MV{K: "bool", B: true}, nil
		case "false":
			return MV{K: "bool", B: false}, nil
		case "this":
			if e.ThisNull {
				return mvNull, errUnspec // `this` as a value on a runner without a data map (a nil map, neither null nor a map): left open
			}
			if e.Self {
				return MV{K: "self"}, nil
			}
		}
		return mvNull, errUnspec
	case "id":
		if v, ok := e.Store[n.S]; ok {
			return v, nil
		}
		if n.S == "rec" || n.S == "rec2" {
			return MV{K: "fn", S: n.S}, nil
		}
		return mvNull, nil
	case "paren":
		return e.eval(n.Kids[0])
	case "arr":
		out := MV{K: "arr", A: []MV{}}
		for _, k := range n.Kids {
			v, err := e.eval(k)
			if err != nil {
				return mvNull, err
			}
			out.A = append(out.A, v)
		}
		return out, nil
	case "cond":
		c, err := e.eval(n.Kids[0])
		if err != nil {
			return mvNull, err
		}
		if c.truthy() {
			return e.eval(n.Kids[1])
		}
		return e.eval(n.Kids[2])
	case "sel":
		if n.Op == "!." && n.Kids[0].K == "kw" && n.Kids[0].S == "null" {
			return mvNull, errModel // x!.k with x null is an (ordinary) error
		}
		if n.Kids[0].K == "kw" && n.Kids[0].S == "this" && n.Op == "." {
			if v, ok := e.Store[n.S]; ok {
				return v, nil
			}
			return mvNull, nil
		}
		if e.Self || e.NullSafeMembers {
			base, err := e.eval(n.Kids[0])
			if err != nil {
				return mvNull, err
			}
			switch base.K {
			case "self":
				if v, ok := e.Store[n.S]; ok {
					return v, nil
				}
				return mvNull, nil
			case "null":
				if n.Op == "!." {
					return mvNull, errModel
				}
				return mvNull, nil
			}
		}
		return mvNull, errUnspec
	case "call":
		if n.Kids[0].K == "id" && n.Kids[0].S == "nofn" && len(n.Kids) == 1 && !n.Spread {
			return mvNull, errModel // calling a name that is not defined: an error (C03), nothing else happens
		}
		if n.Kids[0].K != "id" || len(n.Kids) < 2 || (n.Spread && len(n.Kids) != 2) {
			// rec/rec2 are purely variadic: with `...` the array is the only written argument (more written arguments
			// than parameters under spread is left open by the bridge statement)
			return mvNull, errUnspec
		}
		// the callee stands left of its arguments: it is read first (an assignment to the same local inside
		// the argument list is a later write)
		callee, _ := e.eval(n.Kids[0])
		if callee.K != "fn" {
			if strings.HasPrefix(n.Kids[0].S, "$") {
				return mvNull, errNotFn
			}
			return mvNull, errUnspec
		}
		// rec(a, b, ...): arguments left to right, one log entry per call, value = last argument;
		// rec2(a, b, ...): the same, logged with a leading "rec2", value = first argument
		var args []MV
		for i, a := range n.Kids[1:] {
			v, err := e.eval(a)
			if err != nil {
				return mvNull, err
			}
			if n.Spread && i == len(n.Kids)-2 {
				// f(a, xs...): the last argument, evaluated once like any other, is spread over the variadic tail
				if v.K != "arr" {
					return mvNull, errUnspec
				}
				args = append(args, v.A...)
				continue
			}
			args = append(args, v)
		}
		if len(args) == 0 {
			return mvNull, errModel // rec() / rec2() without arguments fail
		}
		if callee.S == "rec2" {
			e.Log = append(e.Log, MV{K: "arr", A: append([]MV{{K: "str", S: "rec2"}}, args...)})
			return args[0], nil
		}
		if len(args) == 1 {
			e.Log = append(e.Log, args[0])
		} else {
			e.Log = append(e.Log, MV{K: "arr", A: args})
		}
		return args[len(args)-1], nil
	case "bin":
		switch n.Op {
		case "=":
			t := n.Kids[0]
			if t.K != "id" || !strings.HasPrefix(t.S, "$") {
				return mvNull, errModel
			}
			v, err := e.eval(n.Kids[1])
			if err != nil {
				return mvNull, err
			}
			e.Store[t.S] = v
			if e.Assigned != nil {
				e.Assigned[t.S] = true
			}
			return v, nil
		case ",":
			if _, err := e.eval(n.Kids[0]); err != nil {
				return mvNull, err
			}
			return e.eval(n.Kids[1])
		case "+":
			a, err := e.eval(n.Kids[0])
			if err != nil {
				return mvNull, err
			}
			b, err := e.eval(n.Kids[1])
			if err != nil {
				return mvNull, err
			}
			num := func(v MV) (int64, bool) {
				switch v.K {
				case "int":
					return v.I, true
				case "null":
					return 0, true
				}
				return 0, false
			}
			x, ok1 := num(a)
			y, ok2 := num(b)
			if !ok1 || !ok2 {
				return mvNull, errUnspec
			}
			return mvInt(x + y), nil
		}
	}
	return mvNull, errUnspec
}

// ---- generator of programs in the sub-language ------------------------------------

type subGen struct {
	r         *rand.Rand
	IntLocals []string // assigned and read in integer contexts
	AnyLocals []string // may hold arrays
	IntNames  []string // non-local integer (or missing) names
	AnyNames  []string // non-local names of any kind
	ThisKeys  []string
	FnLocals  []string // hold rec or rec2 (callee position)
	NoSpread  bool     // no spread calls (data maps without rec/rec2)
}

func defaultSubGen(r *rand.Rand) *subGen {
	return &subGen{r: r, IntLocals: []string{"$i", "$j", "$k"}, AnyLocals: []string{"$p", "$q"}, IntNames: []string{"x", "y", "zz"}, AnyNames: []string{"l", "s"}, ThisKeys: []string{"x", "y", "$i", "zz"}, FnLocals: []string{"$f", "$g"}}
}

func (g *subGen) pick(xs []string) string { return xs[g.r.Intn(len(xs))] }

// intExpr yields an integer (or null) valued expression.
func (g *subGen) intExpr(d int) *ref.Node {
	if d <= 0 || g.r.Intn(5) == 0 {
		switch g.r.Intn(5) {
		case 0:
			return ref.Num(strconv.Itoa(g.r.Intn(10)))
		case 1:
			return ref.ID(g.pick(g.IntLocals))
		case 2:
			return ref.ID(g.pick(g.IntNames))
		case 3:
			return ref.Sel(ref.Kw("this"), g.pick(g.ThisKeys), false)
		default:
			return ref.Num(strconv.Itoa(g.r.Intn(100)))
		}
	}
	if len(g.FnLocals) > 0 && g.r.Intn(9) == 0 {
		// a call through a local, whose arguments may re-bind that very local
		f := g.pick(g.FnLocals)
		arg := g.intExpr(d - 1)
		if g.r.Intn(2) == 0 {
			arg = ref.Paren(ref.Bin(",", g.fnAssign(f), arg))
		}
		call := ref.Call(ref.ID(f), false, arg, g.intExpr(d-1))
		if g.r.Intn(2) == 0 {
			return ref.Bin(",", g.fnAssign(g.pick(g.FnLocals)), call)
		}
		return call
	}
	switch g.r.Intn(9) {
	case 0, 1:
		return ref.Bin("=", ref.ID(g.pick(g.IntLocals)), g.intExpr(d-1))
	case 2, 3:
		return ref.Bin("+", g.intExpr(d-1), g.intExpr(d-1))
	case 4:
		if g.r.Intn(2) == 0 {
			return ref.Call(ref.ID("rec"), false, g.anyExpr(d-1), g.intExpr(d-1))
		}
		return ref.Call(ref.ID("rec"), false, g.intExpr(d-1))
	case 5:
		return ref.Cond(g.anyExpr(d-1), g.intExpr(d-1), g.intExpr(d-1))
	case 6:
		return ref.Paren(g.intExpr(d - 1))
	case 7:
		return ref.Bin(",", g.anyExpr(d-1), g.intExpr(d-1))
	default:
		if g.r.Intn(6) == 0 {
			// an assignment whose right-hand side fails: the local keeps its value
			if g.r.Intn(2) == 0 {
				return ref.Bin("=", ref.ID(g.pick(g.IntLocals)), ref.Bin("+", g.intExpr(0), ref.Sel(ref.Kw("null"), "k", true)))
			}
			return ref.Bin("=", ref.ID(g.pick(g.IntLocals)), ref.Bin("+", g.intExpr(0), ref.Call(ref.ID("nofn"), false)))
		}
		return ref.Bin("+", ref.Bin("=", ref.ID(g.pick(g.IntLocals)), g.intExpr(d-1)), ref.ID(g.pick(g.IntLocals)))
	}
}

func (g *subGen) fnAssign(target string) *ref.Node {
	switch g.r.Intn(4) {
	case 0:
		return ref.Bin("=", ref.ID(target), ref.ID(g.pick(g.FnLocals)))
	case 1:
		return ref.Bin("=", ref.ID(target), ref.ID("rec2"))
	default:
		return ref.Bin("=", ref.ID(target), ref.ID([]string{"rec", "rec2"}[g.r.Intn(2)]))
	}
}

// anyExpr yields a value of any kind.
func (g *subGen) anyExpr(d int) *ref.Node {
	if d <= 0 {
		switch g.r.Intn(4) {
		case 0:
			return ref.ID(g.pick(g.AnyLocals))
		case 1:
			return ref.ID(g.pick(g.AnyNames))
		case 2:
			return ref.Str("'" + []string{"a", "", "tag"}[g.r.Intn(3)] + "'")
		default:
			return g.intExpr(0)
		}
	}
	switch g.r.Intn(8) {
	case 0, 1:
		n := g.r.Intn(4)
		el := make([]*ref.Node, n)
		for i := range el {
			el[i] = g.anyExpr(d - 1)
		}
		return ref.Arr(el...)
	case 2:
		return ref.Bin("=", ref.ID(g.pick(g.AnyLocals)), g.anyExpr(d-1))
	case 3:
		if !g.NoSpread && g.r.Intn(3) == 0 {
			// a spread call: the array operand (with its assignments) is evaluated exactly once
			n := 1 + g.r.Intn(3)
			el := make([]*ref.Node, n)
			for i := range el {
				el[i] = g.intExpr(d - 1)
			}
			return ref.Call(ref.ID([]string{"rec", "rec2"}[g.r.Intn(2)]), true, ref.Arr(el...))
		}
		return ref.Call(ref.ID("rec"), false, g.anyExpr(d-1))
	case 4:
		return ref.Cond(g.anyExpr(d-1), g.anyExpr(d-1), g.anyExpr(d-1))
	case 5:
		return ref.Bin(",", g.anyExpr(d-1), g.anyExpr(d-1))
	case 6:
		return ref.Kw([]string{"null", "true", "false"}[g.r.Intn(3)])
	default:
		return g.intExpr(d)
	}
}

func describeLog(l []MV) string {
	var p []string
	for _, v := range l {
		p = append(p, v.String())
	}
	return fmt.Sprintf("[%s]", strings.Join(p, "; "))
}
