package props

import (
	"context"
	"errors"
	"fmt"
	"math"
	"math/big"
	"math/rand"
	"reflect"
	"strings"
	"time"

	"github.com/aundis/formula"
	"github.com/ericlagergren/decimal"

	"verifmon/internal/core"
	"verifmon/internal/gen"
	"verifmon/internal/obs"
	"verifmon/internal/ref"
)

var c11 = core.Register(&core.Prop{
	ID:    "C11",
	Title: "Host functions are called exactly as declared, or not at all",
	Rule: "host function signatures synthesised with reflect.FuncOf/MakeFunc over parameter kinds {string, bool, int, int8-64, float32/64, interface{}, *decimal.Big, time.Time, []string, []int, []float64, []interface{}, map[string]interface{}, map[string]int}, optional variadic tail and leading context, returning (T, error); " +
		"argument lists of length 0..n+2 over {integer, fraction, negative, string, boolean, null, arrays, map, time} with and without spread, exhaustively for n <= 2 and sampled beyond; every call and every received argument recorded and compared with a bridge model; " +
		"non-trivial = at least one parameter; distinct by (signature, arguments)",
	Assumptions: []string{
		"left open by the statement and skipped: null for non-interface parameters, numbers outside the target integer range, non-boolean arguments for bool parameters, formatting of arrays/maps/times to string, spread with an argument count other than the parameter count",
		"float32 parameters are compared within one float32 ulp; a number converted to string must parse back to the same number",
	},
	Shards: func(tier string) int { return pickTier(tier, 8, 16) },
	Floors: func(c map[string]int64, tier string) []string {
		var out []string
		for _, k := range []string{"calls_expected", "rejects_expected", "variadic_sigs", "spread_calls", "spread_rejects", "context_sigs", "returned_errors", "returned_numbers", "order_checked", "builtin_calls", "reject:count", "reject:conversion", "shared_tree_pairs", "size_cases", "preserve_cases", "returned_error_cases", "returned_number_cases"} {
			if c[k] == 0 {
				out = append(out, "coverage floor: no "+k)
			}
		}
		for _, p := range paramKinds {
			if c["param:"+p] == 0 {
				out = append(out, "coverage floor: parameter kind "+p+" never exercised")
			}
		}
		return out
	},
})

type SigSpec struct {
	Ctx      bool     `json:"ctx,omitempty"`
	Params   []string `json:"params"`
	Variadic bool     `json:"variadic,omitempty"`
	Ret      string   `json:"ret"`
	Fail     bool     `json:"fail,omitempty"`
}

type ArgSpec struct {
	K     string    `json:"k"` // num str bool null arr map time
	Num   string    `json:"num,omitempty"`
	S     string    `json:"s,omitempty"`
	B     bool      `json:"b,omitempty"`
	Elems []ArgSpec `json:"elems,omitempty"`
}

type BridgeCase struct {
	Sig    SigSpec   `json:"sig"`
	Args   []ArgSpec `json:"args"`
	Spread bool      `json:"spread,omitempty"`
}

var paramKinds = []string{"string", "bool", "int", "int8", "int16", "int32", "int64", "float32", "float64", "any", "dec", "time", "strs", "ints", "f64s", "anys", "mapany", "mapint", "i32s", "bytes", "i32ss"}

var errorType = reflect.TypeOf((*error)(nil)).Elem()
var ctxType = reflect.TypeOf((*context.Context)(nil)).Elem()

var kindType = map[string]reflect.Type{
	"string": reflect.TypeOf(""), "bool": reflect.TypeOf(true), "int": reflect.TypeOf(int(0)), "int8": reflect.TypeOf(int8(0)), "int16": reflect.TypeOf(int16(0)),
	"int32": reflect.TypeOf(int32(0)), "int64": reflect.TypeOf(int64(0)), "float32": reflect.TypeOf(float32(0)), "float64": reflect.TypeOf(float64(0)),
	"any": reflect.TypeOf((*interface{})(nil)).Elem(), "dec": reflect.TypeOf((*decimal.Big)(nil)), "time": reflect.TypeOf(time.Time{}),
	"strs": reflect.TypeOf([]string(nil)), "ints": reflect.TypeOf([]int(nil)), "f64s": reflect.TypeOf([]float64(nil)), "anys": reflect.TypeOf([]interface{}(nil)),
	"mapany": reflect.TypeOf(map[string]interface{}(nil)), "mapint": reflect.TypeOf(map[string]int(nil)),
	"i32s": reflect.TypeOf([]int32(nil)), "bytes": reflect.TypeOf([]uint8(nil)), "i32ss": reflect.TypeOf([][]int32(nil)),
}

var elemKind = map[string]string{"strs": "string", "ints": "int", "f64s": "float64", "anys": "any", "i32s": "int32", "i32ss": "i32s"}

type ctxKey struct{}

var c11Time = time.Date(2021, 3, 4, 5, 6, 7, 0, time.UTC)

func (a ArgSpec) src() string {
	switch a.K {
	case "num":
		if strings.HasPrefix(a.Num, "-") {
			return "(" + a.Num + ")"
		}
		return a.Num
	case "str":
		return strLit(a.S)
	case "bool":
		return fmt.Sprint(a.B)
	case "null":
		return "null"
	case "map":
		return "dmap"
	case "time":
		return "dtime"
	case "nilptr":
		return "dnilp"
	case "nildec":
		return "dnildec"
	case "arr":
		var p []string
		for _, e := range a.Elems {
			p = append(p, e.src())
		}
		return "[" + strings.Join(p, ", ") + "]"
	}
	return "null"
}

// expectation for one received argument
type expect struct {
	Kind  string // int float float32 str numstr bool nil dec time slice any map skip
	I     int64
	F     float64
	S     string
	B     bool
	D     ref.Dec
	Elems []expect
	Arg   ArgSpec
}

// convModel: what the parameter of kind must receive for arg; status ok / reject / unspec
func convModel(arg ArgSpec, kind string) (expect, string) {
	if arg.K == "nilptr" || arg.K == "nildec" {
		// a nil pointer in the data is null: an interface parameter gets nil (or the typed nil itself)
		if kind == "any" {
			return expect{Kind: "nullish"}, "ok"
		}
		return expect{}, "unspec"
	}
	if arg.K == "null" {
		if kind == "any" {
			return expect{Kind: "nil"}, "ok"
		}
		switch kind {
		case "int", "int8", "int16", "int32", "int64", "float64", "float32":
			// the statement's conversions to Go numbers start from numbers: null is not one (nor is a null element of an
			// array going to a slice of numbers) - no silent zero
			return expect{}, "reject"
		}
		return expect{}, "unspec"
	}
	switch kind {
	case "any":
		return expect{Kind: "any", Arg: arg}, "ok"
	case "string":
		switch arg.K {
		case "str":
			return expect{Kind: "str", S: arg.S}, "ok"
		case "num":
			d, _ := ref.ParseDec(arg.Num)
			return expect{Kind: "numstr", D: d}, "ok"
		case "bool":
			return expect{Kind: "str", S: fmt.Sprint(arg.B)}, "ok"
		}
		return expect{}, "unspec"
	case "bool":
		if arg.K == "bool" {
			return expect{Kind: "bool", B: arg.B}, "ok"
		}
		return expect{}, "unspec"
	case "int", "int8", "int16", "int32", "int64":
		if arg.K != "num" {
			return expect{}, "reject"
		}
		d, _ := ref.ParseDec(arg.Num)
		t := d.TruncToInt()
		v, ok := t.Int64()
		if !ok {
			return expect{}, "unspec"
		}
		lim := map[string]int64{"int": math.MaxInt64, "int8": 127, "int16": 32767, "int32": math.MaxInt32, "int64": math.MaxInt64}[kind]
		if v > lim || v < -lim-1 {
			return expect{}, "unspec"
		}
		return expect{Kind: "int", I: v}, "ok"
	case "float64", "float32":
		if arg.K != "num" {
			return expect{}, "reject"
		}
		d, _ := ref.ParseDec(arg.Num)
		f, _ := d.Rat().Float64()
		if kind == "float32" {
			return expect{Kind: "float32", F: f}, "ok"
		}
		// an integer written in plain digits that fits a machine word is converted with a single rounding: the nearest
		// float64 exactly (elsewhere the decimal library rounds coefficient and power of ten separately: one ulp of slack)
		plain := len(arg.Num) <= 19 && strings.Trim(strings.TrimPrefix(arg.Num, "-"), "0123456789") == ""
		return expect{Kind: "float", F: f, B: plain}, "ok"
	case "dec":
		if arg.K != "num" {
			return expect{}, "reject"
		}
		d, _ := ref.ParseDec(arg.Num)
		return expect{Kind: "dec", D: d}, "ok"
	case "time":
		if arg.K != "time" {
			return expect{}, "reject"
		}
		return expect{Kind: "time"}, "ok"
	case "bytes":
		if arg.K != "arr" {
			return expect{}, "reject" // a string is not an array either
		}
		return expect{}, "unspec" // unsigned element kinds are outside the statement
	case "strs", "ints", "f64s", "anys", "i32s", "i32ss":
		if arg.K != "arr" {
			return expect{}, "reject"
		}
		out := expect{Kind: "slice", Elems: []expect{}}
		status := "ok"
		for _, e := range arg.Elems {
			x, st := convModel(e, elemKind[kind])
			if st == "reject" {
				return expect{}, "reject"
			}
			if st == "unspec" {
				status = "unspec"
			}
			out.Elems = append(out.Elems, x)
		}
		return out, status
	case "mapany":
		if arg.K != "map" {
			return expect{}, "reject"
		}
		return expect{Kind: "map"}, "ok"
	case "mapint":
		if arg.K != "map" {
			return expect{}, "reject"
		}
		return expect{Kind: "map"}, "ok" // dmap holds integers only
	}
	return expect{}, "unspec"
}

func argMatchesAny(a ArgSpec, got interface{}) bool {
	switch a.K {
	case "num":
		d, _ := ref.ParseDec(a.Num)
		g, ok := got.(*decimal.Big)
		return ok && g != nil && obs.DecOf(g).Finite() && obs.DecOf(g).Equal(d)
	case "str":
		return got == a.S
	case "bool":
		return got == a.B
	case "null":
		return got == nil
	case "nilptr", "nildec":
		if got == nil {
			return true
		}
		rv := reflect.ValueOf(got)
		return rv.Kind() == reflect.Ptr && rv.IsNil()
	case "time":
		t, ok := got.(time.Time)
		return ok && t.Equal(c11Time)
	case "map":
		m, ok := got.(map[string]interface{})
		return ok && len(m) == 2
	case "arr":
		arr, ok := got.([]interface{})
		if !ok || len(arr) != len(a.Elems) {
			return false
		}
		for i := range arr {
			if !argMatchesAny(a.Elems[i], arr[i]) {
				return false
			}
		}
		return true
	}
	return false
}

func (e expect) matches(got interface{}) bool {
	switch e.Kind {
	case "skip":
		return true
	case "nil":
		return got == nil
	case "nullish":
		if got == nil {
			return true
		}
		rv := reflect.ValueOf(got)
		return rv.Kind() == reflect.Ptr && rv.IsNil()
	case "any":
		return argMatchesAny(e.Arg, got)
	case "int":
		rv := reflect.ValueOf(got)
		switch rv.Kind() {
		case reflect.Int, reflect.Int8, reflect.Int16, reflect.Int32, reflect.Int64:
			return rv.Int() == e.I
		}
		return false
	case "float":
		f, ok := got.(float64)
		return ok && (f == e.F || (!e.B && ulpDiff(f, e.F) <= 1))
	case "float32":
		f, ok := got.(float32)
		if !ok {
			return false
		}
		want := float32(e.F)
		return f == want || math.Abs(float64(math.Float32bits(f))-float64(math.Float32bits(want))) <= 1
	case "str":
		return got == e.S
	case "numstr":
		s, ok := got.(string)
		if !ok {
			return false
		}
		d, ok := ref.ParseDec(s)
		return ok && d.Finite() && d.Equal(e.D)
	case "bool":
		return got == e.B
	case "dec":
		g, ok := got.(*decimal.Big)
		return ok && g != nil && obs.DecOf(g).Finite() && obs.DecOf(g).Equal(e.D)
	case "time":
		t, ok := got.(time.Time)
		return ok && t.Equal(c11Time) && t.Location() == c11Time.Location()
	case "map":
		rv := reflect.ValueOf(got)
		return rv.Kind() == reflect.Map && rv.Len() == 2
	case "slice":
		rv := reflect.ValueOf(got)
		if rv.Kind() != reflect.Slice || rv.Len() != len(e.Elems) {
			return false
		}
		for i := range e.Elems {
			if !e.Elems[i].matches(rv.Index(i).Interface()) {
				return false
			}
		}
		return true
	}
	return false
}

func (e expect) String() string {
	switch e.Kind {
	case "int":
		return fmt.Sprint(e.I)
	case "float", "float32":
		return fmt.Sprint(e.F)
	case "str":
		return fmt.Sprintf("%q", e.S)
	case "numstr":
		return "text of " + e.D.String()
	case "dec":
		return "number " + e.D.String()
	case "slice":
		var p []string
		for _, x := range e.Elems {
			p = append(p, x.String())
		}
		return "[" + strings.Join(p, " ") + "]"
	case "any":
		return "as is: " + e.Arg.src()
	}
	return e.Kind
}

type invocation struct {
	Ctx  context.Context
	Args []interface{}
}

func buildSig(s SigSpec, log *[]invocation) interface{} {
	var in []reflect.Type
	if s.Ctx {
		in = append(in, ctxType)
	}
	for i, p := range s.Params {
		t := kindType[p]
		if s.Variadic && i == len(s.Params)-1 {
			t = reflect.SliceOf(t)
		}
		in = append(in, t)
	}
	retT := map[string]reflect.Type{"int": kindType["int"], "int32": kindType["int32"], "int64": kindType["int64"], "float32": kindType["float32"], "float64": kindType["float64"], "string": kindType["string"], "any": kindType["any"], "bool": kindType["bool"]}[s.Ret]
	ft := reflect.FuncOf(in, []reflect.Type{retT, errorType}, s.Variadic)
	fn := reflect.MakeFunc(ft, func(args []reflect.Value) []reflect.Value {
		inv := invocation{}
		k := 0
		if s.Ctx {
			inv.Ctx, _ = args[0].Interface().(context.Context)
			k = 1
		}
		for i := k; i < len(args); i++ {
			if s.Variadic && i == len(args)-1 {
				for j := 0; j < args[i].Len(); j++ {
					inv.Args = append(inv.Args, args[i].Index(j).Interface())
				}
				continue
			}
			inv.Args = append(inv.Args, args[i].Interface())
		}
		*log = append(*log, inv)
		ret := reflect.Zero(retT)
		switch s.Ret {
		case "int":
			ret = reflect.ValueOf(int(42))
		case "int32":
			ret = reflect.ValueOf(int32(-7))
		case "int64":
			ret = reflect.ValueOf(int64(1) << 40)
		case "float32":
			ret = reflect.ValueOf(float32(1.5))
		case "float64":
			ret = reflect.ValueOf(float64(0.1))
		case "string":
			ret = reflect.ValueOf("ok")
		case "bool":
			ret = reflect.ValueOf(true)
		}
		if s.Fail {
			return []reflect.Value{reflect.Zero(retT), reflect.ValueOf(errors.New("host says no")).Convert(errorType)}
		}
		return []reflect.Value{ret, reflect.Zero(errorType)}
	})
	return fn.Interface()
}

var retValues = map[string]string{"int": "42", "int32": "-7", "int64": "1099511627776", "float32": "1.5", "float64": "0.1"}

var c11Bridge = core.Mon(c11, "bridge", func(w *core.W, c *BridgeCase) { runBridge(w, "bridge", c, nil) })

// SharedTreeCase: one parsed call site evaluated against two data maps in which hostfn has different signatures.
type SharedTreeCase struct {
	SigA   SigSpec   `json:"sig_a"`
	SigB   SigSpec   `json:"sig_b"`
	Args   []ArgSpec `json:"args"`
	Spread bool      `json:"spread,omitempty"`
}

var c11Shared = core.Mon(c11, "shared-call-site", func(w *core.W, c *SharedTreeCase) {
	first := &BridgeCase{Sig: c.SigA, Args: c.Args, Spread: c.Spread}
	sc, err := hostParse([]byte(first.source()), true)
	if err != nil {
		w.Skip("unparsable-call-shape")
		return
	}
	w.Count("shared_tree_pairs")
	before := w.NViol()
	runBridge(w, "shared-call-site", first, sc)
	if w.NViol() == before {
		runBridge(w, "shared-call-site", &BridgeCase{Sig: c.SigB, Args: c.Args, Spread: c.Spread}, sc)
	}
})

func (c *BridgeCase) source() string {
	var parts []string
	for i, a := range c.Args {
		parts = append(parts, fmt.Sprintf("t(%d, %s)", i, a.src()))
	}
	src := "hostfn(" + strings.Join(parts, ", ")
	if c.Spread {
		src += "..."
	}
	return src + ")"
}

func runBridge(w *core.W, mon string, c *BridgeCase, sc *formula.SourceCode) {
	var log []invocation
	var order []int64
	token := new(int)
	ctx := context.WithValue(context.Background(), ctxKey{}, token)
	data := map[string]interface{}{
		"hostfn": buildSig(c.Sig, &log),
		"dmap":   map[string]interface{}{"a": 1, "b": 2},
		"dtime":  c11Time,
		"dnilp":  (*int)(nil), "dnildec": (*decimal.Big)(nil),
		"t": func(k int64, v interface{}) (interface{}, error) {
			order = append(order, k)
			return v, nil
		},
	}
	src := c.source()
	if sc == nil {
		var err error
		sc, err = hostParse([]byte(src), true)
		if err != nil {
			w.Skip("unparsable-call-shape")
			return
		}
	}
	r := formula.NewRunner()
	r.SetThis(data)
	var v interface{}
	var rerr error
	w.Eval(1)
	panicked, pv := core.Call(func() { v, rerr = r.Resolve(ctx, sc.Expression) })
	desc := fmt.Sprintf("%s with signature %s", src, sigString(c.Sig))
	if panicked {
		w.Violation(mon, "C11/escaped-panic", c, nil, fmt.Sprint(pv), desc)
		return
	}
	if len(c.Sig.Params) > 0 {
		w.Nontrivial(core.HashStr(c))
	}
	for _, p := range c.Sig.Params {
		w.Count("param:" + p)
	}
	if c.Sig.Variadic {
		w.Count("variadic_sigs")
	}
	if c.Sig.Ctx {
		w.Count("context_sigs")
	}
	// ---- model ----
	n := len(c.Sig.Params)
	decision := "call"
	why := ""
	args := c.Args
	if c.Spread {
		switch {
		case !c.Sig.Variadic:
			decision, why = "reject", "spread on a non-variadic function"
		case len(args) < n:
			// f(a, xs...) spreads over the variadic tail only: the fixed parameters must be written out
			decision, why = "reject", "spread call does not supply the fixed parameters"
		case len(args) > n:
			decision = "unspec"
		case len(args) == 0 || args[len(args)-1].K != "arr":
			if len(args) > 0 && args[len(args)-1].K == "null" {
				decision = "unspec"
			} else {
				decision, why = "reject", "spread of a non-array"
			}
		default:
			last := args[len(args)-1]
			args = append(append([]ArgSpec{}, args[:len(args)-1]...), last.Elems...)
		}
	} else if c.Sig.Variadic {
		if len(args) < n-1 {
			decision, why = "reject", "too few arguments"
		}
	} else if len(args) != n {
		decision, why = "reject", "argument count"
	}
	if decision == "reject" && !strings.Contains(why, "spread") {
		w.Count("reject:count")
	}
	var exps []expect
	if decision == "call" {
		for i, a := range args {
			kind := ""
			if i < n-1 || (!c.Sig.Variadic && i < n) {
				kind = c.Sig.Params[i]
			} else {
				kind = c.Sig.Params[n-1]
			}
			e, st := convModel(a, kind)
			if st == "reject" {
				decision, why = "reject", fmt.Sprintf("argument %d (%s) cannot become %s", i+1, a.src(), kind)
				w.Count("reject:conversion")
				break
			}
			if st == "unspec" {
				decision = "unspec"
				break
			}
			exps = append(exps, e)
		}
	}
	// ---- compare ----
	switch decision {
	case "unspec":
		w.Skip("bridge-unspecified")
		return
	case "reject":
		w.Count("rejects_expected")
		if c.Spread {
			w.Count("spread_rejects")
		}
		if len(log) != 0 {
			w.Violation(mon, "C11/called-despite-mismatch", c, "not called: "+why, fmt.Sprintf("%d invocation(s) with %v", len(log), log[0].Args), desc)
			return
		}
		if rerr == nil {
			w.Violation(mon, "C11/mismatch-without-error", c, "an error: "+why, show(v), desc)
		}
		return
	}
	w.Count("calls_expected")
	if c.Spread {
		w.Count("spread_calls")
	}
	if len(log) != 1 {
		w.Violation(mon, "C11/invocation-count", c, "exactly one invocation", fmt.Sprintf("%d invocations, err=%v", len(log), rerr), desc)
		return
	}
	inv := log[0]
	if c.Sig.Ctx {
		if inv.Ctx == nil || inv.Ctx != ctx || inv.Ctx.Value(ctxKey{}) != token {
			w.Violation(mon, "C11/context", c, "the caller's context", fmt.Sprint(inv.Ctx), desc)
			return
		}
	}
	if len(inv.Args) != len(exps) {
		w.Violation(mon, "C11/received-count", c, fmt.Sprintf("%d arguments", len(exps)), fmt.Sprintf("%d: %v", len(inv.Args), inv.Args), desc)
		return
	}
	for i, e := range exps {
		if !e.matches(inv.Args[i]) {
			kind := c.Sig.Params[minInt(i, n-1)]
			w.Violation(mon, "C11/conversion:"+kind, c, e.String(), show(inv.Args[i]), fmt.Sprintf("argument %d of %s", i+1, desc))
			return
		}
	}
	// arguments evaluated left to right
	w.Count("order_checked")
	for i, k := range order {
		if int64(i) != k {
			w.Violation(mon, "C11/argument-order", c, "0,1,2,...", fmt.Sprint(order), desc)
			return
		}
	}
	if len(order) != len(c.Args) {
		w.Violation(mon, "C11/argument-evaluated-twice-or-never", c, len(c.Args), fmt.Sprint(order), desc)
		return
	}
	if c.Sig.Fail {
		w.Count("returned_errors")
		if rerr == nil || !strings.Contains(rerr.Error(), "hostfn") {
			w.Violation(mon, "C11/returned-error", c, "an evaluation error naming hostfn", fmt.Sprint(show(v), rerr), desc)
		}
		return
	}
	if rerr != nil {
		w.Violation(mon, "C11/unexpected-error", c, "a value", rerr.Error(), desc)
		return
	}
	if want, ok := retValues[c.Sig.Ret]; ok {
		w.Count("returned_numbers")
		d, _ := ref.ParseDec(want)
		f, isF := v.(float64)
		wf, _ := d.Rat().Float64()
		if !isF || f != wf {
			w.Violation(mon, "C11/returned-number:"+c.Sig.Ret, c, want, show(v), "a returned Go "+c.Sig.Ret+" must become a formula number: "+desc)
			return
		}
		data["hostfn"] = buildSig(c.Sig, &log)
		v2, err2, _, _ := resolveIn(data, "typeof "+src)
		if err2 != nil || v2 != "number" {
			w.Violation(mon, "C11/returned-number-kind:"+c.Sig.Ret, c, "number", fmt.Sprint(show(v2), err2), "typeof "+desc)
		}
	}
}

func minInt(a, b int) int {
	if a < b {
		return a
	}
	return b
}

func sigString(s SigSpec) string {
	var p []string
	if s.Ctx {
		p = append(p, "ctx")
	}
	for i, k := range s.Params {
		if s.Variadic && i == len(s.Params)-1 {
			k = "..." + k
		}
		p = append(p, k)
	}
	e := ""
	if s.Fail {
		e = " failing"
	}
	return "func(" + strings.Join(p, ", ") + ") (" + s.Ret + ", error)" + e
}

var argPool = []ArgSpec{
	{K: "num", Num: "3"}, {K: "num", Num: "2.7"}, {K: "num", Num: "-2.7"}, {K: "num", Num: "0"}, {K: "num", Num: "1e3"}, {K: "num", Num: "0.1"}, {K: "num", Num: "-0.5"}, {K: "num", Num: "123456789"},
	{K: "num", Num: "300"}, {K: "num", Num: "9007199254740993"}, {K: "num", Num: "99999999999"}, {K: "num", Num: "9007199254740993000"}, {K: "num", Num: "1234567890123456700"}, {K: "num", Num: "-9007199254740993000"},
	{K: "num", Num: "18014398509481985000"}, {K: "num", Num: "900719925474099300"},
	{K: "str", S: "s"}, {K: "str", S: ""}, {K: "str", S: "12"}, {K: "bool", B: true}, {K: "bool", B: false}, {K: "null"},
	{K: "arr", Elems: []ArgSpec{{K: "num", Num: "1"}, {K: "num", Num: "2.5"}}}, {K: "arr", Elems: []ArgSpec{{K: "str", S: "a"}, {K: "str", S: "b"}}}, {K: "arr", Elems: []ArgSpec{}},
	{K: "arr", Elems: []ArgSpec{{K: "num", Num: "1"}, {K: "str", S: "x"}}}, {K: "arr", Elems: []ArgSpec{{K: "num", Num: "-7.9"}}}, {K: "arr", Elems: []ArgSpec{{K: "null"}}},
	{K: "map"}, {K: "time"}, {K: "nilptr"}, {K: "nildec"},
	{K: "num", Num: "1e-20"}, {K: "num", Num: "0.00000000000000000001"}, {K: "num", Num: "-3e-25"}, {K: "num", Num: "7.5e-30"}, {K: "num", Num: "123456789.000000000000000000001"},
	{K: "arr", Elems: []ArgSpec{{K: "nilptr"}, {K: "num", Num: "1e-20"}}},
	{K: "arr", Elems: []ArgSpec{{K: "num", Num: "1"}, {K: "null"}, {K: "num", Num: "3"}}}, {K: "arr", Elems: []ArgSpec{{K: "null"}, {K: "num", Num: "2"}}},
}

// BuiltinCallCase: builtins obey the same bridge (arity and conversion).
type BuiltinCallCase struct {
	Name string    `json:"name"`
	Args []ArgSpec `json:"args"`
}

var builtinArity = map[string][]string{
	"abs": {"dec"}, "left": {"string", "int"}, "startWith": {"string", "string"}, "date": {"int", "int", "int"}, "finite": {"any"}, "join": {"strs", "string"},
	"includes": {"strs", "string"}, "toString": {"any"}, "year": {"time"}, "len": {"string"}, "replace": {"string", "string", "string"}, "now": {},
}

var c11Builtin = core.Mon(c11, "builtin-bridge", func(w *core.W, c *BuiltinCallCase) {
	params := builtinArity[c.Name]
	var parts []string
	for _, a := range c.Args {
		parts = append(parts, a.src())
	}
	src := c.Name + "(" + strings.Join(parts, ", ") + ")"
	data := map[string]interface{}{"dmap": map[string]interface{}{"a": 1, "b": 2}, "dtime": c11Time}
	v, err, panicked, pv := resolveIn(data, src)
	w.Eval(1)
	w.Count("builtin_calls")
	w.Nontrivial("builtin:" + src)
	if panicked {
		w.Violation("builtin-bridge", "C11/escaped-panic", c, nil, fmt.Sprint(pv), src)
		return
	}
	decision := "call"
	if len(c.Args) != len(params) {
		decision = "reject"
	} else {
		for i, a := range c.Args {
			_, st := convModel(a, params[i])
			if st == "reject" {
				decision = "reject"
				break
			}
			if st == "unspec" {
				decision = "unspec"
			}
		}
	}
	switch decision {
	case "reject":
		if err == nil {
			w.Violation("builtin-bridge", "C11/builtin-mismatch-without-error", c, "an error", show(v), src)
		}
	case "call":
		if err != nil && c.Name != "left" {
			w.Violation("builtin-bridge", "C11/builtin-unexpected-error", c, "a value", err.Error(), src)
		}
	}
})

func init() { c11.Run = runC11 }

func randSig(r *rand.Rand) SigSpec {
	n := r.Intn(4)
	s := SigSpec{Ctx: r.Intn(3) == 0, Ret: []string{"int", "int32", "int64", "float32", "float64", "string", "any", "bool"}[r.Intn(8)], Fail: r.Intn(8) == 0}
	for i := 0; i < n; i++ {
		s.Params = append(s.Params, paramKinds[r.Intn(len(paramKinds))])
	}
	if n > 0 && r.Intn(3) == 0 {
		s.Variadic = true
		// the variadic element kind: scalars and any
		s.Params[n-1] = []string{"string", "int", "float64", "any", "dec", "int64", "bool", "strs"}[r.Intn(8)]
	}
	if s.Params == nil {
		s.Params = []string{}
	}
	return s
}

func runC11(w *core.W) {
	runC11PathArgs(w)
	runC11ErrSigs(w)
	// (one sweep per shard: a different stream each)
	c11FloatSweep(w, &FloatSweepCase{Seed: w.Seed*1009 + int64(w.Shard), N: w.Pick(60000, 600000)})
	// the spread marker without any argument, `f(...)`: nothing to spread - never a call
	zi0 := 0
	for _, ctx := range []bool{false, true} {
		for _, sg := range []SigSpec{{Params: []string{}, Ret: "int"}, {Params: []string{"any"}, Variadic: true, Ret: "int"}, {Params: []string{"string"}, Variadic: true, Ret: "any"}, {Params: []string{"int"}, Ret: "int"},
			{Params: []string{"string", "ints"}, Ret: "string"}, {Params: []string{"any", "int"}, Variadic: true, Ret: "float64"}} {
			sg.Ctx = ctx
			if zi0++; w.Mine(zi0) {
				c11Bridge(w, &BridgeCase{Sig: sg, Args: []ArgSpec{}, Spread: true})
				w.Count("spread_without_arguments")
			}
		}
	}
	r := w.RNG("sigs")
	idx := 0
	run := func(c *BridgeCase) {
		c11Bridge(w, c)
		idx++
		if idx%4001 == 0 {
			var p []string
			for _, a := range c.Args {
				p = append(p, a.src())
			}
			w.Sample("bridge", sigString(c.Sig)+" <- ("+strings.Join(p, ", ")+map[bool]string{true: "...", false: ""}[c.Spread]+")")
		}
	}
	// 1. every single-parameter signature x every argument (plain, variadic, with context)
	si := 0
	for _, k := range paramKinds {
		for _, variadic := range []bool{false, true} {
			for _, ctx := range []bool{false, true} {
				si++
				if !w.Mine(si) {
					continue
				}
				sig := SigSpec{Ctx: ctx, Params: []string{k}, Variadic: variadic, Ret: "int"}
				run(&BridgeCase{Sig: sig, Args: []ArgSpec{}})
				for _, a := range argPool {
					run(&BridgeCase{Sig: sig, Args: []ArgSpec{a}})
					run(&BridgeCase{Sig: sig, Args: []ArgSpec{a}, Spread: true})
					for _, b := range argPool {
						run(&BridgeCase{Sig: sig, Args: []ArgSpec{a, b}})
					}
				}
			}
		}
	}
	w.ExhaustivePart("every one-parameter signature (18 kinds x plain/variadic x with/without context) x every argument list of length 0..2 over 25 argument values, plus spread")
	// 2. two-parameter signatures x argument pairs (sampled per shard), return kinds and failures
	for i, n := 0, w.Pick(75000, 1200000); i < n; i++ {
		sig := randSig(r)
		na := len(sig.Params) + r.Intn(4) - 1
		if na < 0 {
			na = 0
		}
		c := &BridgeCase{Sig: sig}
		for j := 0; j < na; j++ {
			a := argPool[r.Intn(len(argPool))]
			// bias towards convertible arguments so that calls happen
			if j < len(sig.Params) && r.Intn(3) != 0 {
				a = fitting(r, sig.Params[minInt(j, len(sig.Params)-1)])
			}
			c.Args = append(c.Args, a)
		}
		if c.Args == nil {
			c.Args = []ArgSpec{}
		}
		if r.Intn(5) == 0 && na > 0 {
			c.Spread = true
			if sig.Variadic && r.Intn(2) == 0 {
				ek := sig.Params[len(sig.Params)-1]
				arr := ArgSpec{K: "arr", Elems: []ArgSpec{}}
				for k := r.Intn(4); k > 0; k-- {
					arr.Elems = append(arr.Elems, fitting(r, ek))
				}
				c.Args[len(c.Args)-1] = arr
			}
		}
		run(c)
	}
	// 2b. one parsed call site, two signatures of hostfn (a cache keyed by call site must not leak between evaluations)
	for i, n := 0, w.Pick(20000, 300000); i < n; i++ {
		a, b := randSig(r), randSig(r)
		if i%3 == 0 { // same parameters, but variadic / context flipped
			b = a
			b.Params = append([]string{}, a.Params...)
			switch r.Intn(3) {
			case 0:
				b.Ctx = !a.Ctx
			case 1:
				if len(b.Params) > 0 {
					b.Variadic = !a.Variadic
					if b.Variadic {
						b.Params[len(b.Params)-1] = []string{"string", "int", "float64", "any"}[r.Intn(4)]
					}
				}
			default:
				b.Params = append(b.Params, "any")
			}
		}
		c := &SharedTreeCase{SigA: a, SigB: b, Args: []ArgSpec{}}
		na := len(a.Params) + r.Intn(3) - 1
		for j := 0; j < na; j++ {
			if len(a.Params) == 0 {
				c.Args = append(c.Args, argPool[r.Intn(len(argPool))])
				continue
			}
			c.Args = append(c.Args, fitting(r, a.Params[minInt(j, len(a.Params)-1)]))
		}
		c11Shared(w, c)
	}
	// 2c. sizes: argument lists and spread arrays around powers of two and beyond
	sizes := []int{0, 1, 2, 3, 7, 8, 9, 15, 16, 17, 31, 32, 33, 63, 64, 65, 127, 128, 129, 255, 256, 257, 1000}
	zi := 0
	for _, n := range sizes {
		for _, ek := range []string{"any", "int", "string", "float64", "dec"} {
			for _, fixed := range []int{0, 1, 2} {
				zi++
				if !w.Mine(zi) {
					continue
				}
				sig := SigSpec{Params: []string{}, Variadic: true, Ret: "int", Ctx: zi%2 == 0}
				for k := 0; k < fixed; k++ {
					sig.Params = append(sig.Params, []string{"string", "any"}[k%2])
				}
				sig.Params = append(sig.Params, ek)
				plain := &BridgeCase{Sig: sig, Args: []ArgSpec{}}
				spread := &BridgeCase{Sig: sig, Args: []ArgSpec{}, Spread: true}
				for k := 0; k < fixed; k++ {
					plain.Args = append(plain.Args, ArgSpec{K: "str", S: "f"})
					spread.Args = append(spread.Args, ArgSpec{K: "str", S: "f"})
				}
				arr := ArgSpec{K: "arr", Elems: []ArgSpec{}}
				for k := 0; k < n; k++ {
					a := ArgSpec{K: "num", Num: fmt.Sprint(k)}
					if ek == "string" {
						a = ArgSpec{K: "str", S: fmt.Sprint("s", k)}
					}
					plain.Args = append(plain.Args, a)
					arr.Elems = append(arr.Elems, a)
				}
				spread.Args = append(spread.Args, arr)
				w.Count("size_cases")
				run(plain)
				run(spread)
				// and as one array argument to a slice parameter
				sk := map[string]string{"any": "anys", "int": "ints", "string": "strs", "float64": "f64s", "dec": "anys"}[ek]
				run(&BridgeCase{Sig: SigSpec{Params: []string{sk}, Ret: "int"}, Args: []ArgSpec{arr}})
			}
		}
	}
	// 3. builtins
	bi := 0
	for name, params := range builtinArity {
		for na := 0; na <= len(params)+1; na++ {
			for rep := 0; rep < w.Pick(30, 200); rep++ {
				bi++
				if !w.Mine(bi) {
					continue
				}
				c := &BuiltinCallCase{Name: name, Args: []ArgSpec{}}
				for j := 0; j < na; j++ {
					if j < len(params) && r.Intn(2) == 0 {
						c.Args = append(c.Args, fitting(r, params[j]))
					} else {
						c.Args = append(c.Args, argPool[r.Intn(len(argPool))])
					}
				}
				c11Builtin(w, c)
			}
		}
	}
	_ = gen.Builtins
	_ = big.NewInt
	runC11b(w)
}

// fitting draws an argument that converts to the parameter kind.
func fitting(r *rand.Rand, kind string) ArgSpec {
	num := func() ArgSpec {
		return ArgSpec{K: "num", Num: []string{"3", "2.7", "-2.7", "0", "100", "0.1", "-0.5", "7.999", "-1", "12e1", "1e-20", "-3e-25", "0.00000000000000000001", "99.99999999999999999999999"}[r.Intn(14)]}
	}
	switch kind {
	case "string":
		return []ArgSpec{{K: "str", S: "s"}, {K: "str", S: ""}, num(), {K: "bool", B: true}}[r.Intn(4)]
	case "bool":
		return ArgSpec{K: "bool", B: r.Intn(2) == 0}
	case "int", "int8", "int16", "int32", "int64", "float32", "float64", "dec":
		return num()
	case "any":
		return argPool[r.Intn(len(argPool))]
	case "time":
		return ArgSpec{K: "time"}
	case "strs":
		return ArgSpec{K: "arr", Elems: []ArgSpec{{K: "str", S: "a"}, {K: "str", S: "b"}}}
	case "ints", "f64s", "i32s":
		return ArgSpec{K: "arr", Elems: []ArgSpec{num(), num()}}
	case "i32ss":
		return ArgSpec{K: "arr", Elems: []ArgSpec{{K: "arr", Elems: []ArgSpec{num()}}, {K: "arr", Elems: []ArgSpec{num(), num()}}}}
	case "bytes":
		return ArgSpec{K: "str", S: "bytes?"}
	case "anys":
		return ArgSpec{K: "arr", Elems: []ArgSpec{num(), {K: "str", S: "x"}, {K: "null"}}}
	case "mapany", "mapint":
		return ArgSpec{K: "map"}
	}
	return ArgSpec{K: "null"}
}
