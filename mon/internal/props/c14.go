package props

import (
	"fmt"
	"strings"
	"unicode/utf8"

	"github.com/aundis/formula"

	"verifmon/internal/core"
	"verifmon/internal/gen"
	"verifmon/internal/obs"
	"verifmon/internal/ref"
)

var c14 = core.Register(&core.Prop{
	ID:    "C14",
	Title: "Tokens tile the input; longest match; spacing is insignificant",
	Rule: "tiling: random/mutated/pathological byte strings up to 64 KiB driven through CreateScanner/Scan; classes: every code point 0..0x10FFFF; tokens: concatenations of <= k lexemes (62-lexeme set) x 8 separators vs the reference tokenizer; " +
		"spacing: accepted programs re-laid-out with random legal separators; non-trivial = >= 2 tokens (tiling/tokens), every code point (classes), >= 3 lexemes (spacing); distinct by input bytes / code point",
	Assumptions: []string{
		"U+200B and U+180E (category changed across Unicode versions) are left open for IsWhiteSpace",
		"the ES5 identifier tables are derived from perl's UCD by tools/gen_es5_ref.pl (Unicode 6.2 categories)",
	},
	Shards:           func(tier string) int { return pickTier(tier, 8, 16) },
	CrashIsViolation: true,
	Floors: func(c map[string]int64, tier string) []string {
		var out []string
		for _, k := range []string{"tiling_cases", "class_codepoints", "token_cases", "spacing_layouts", "lexerr_agree"} {
			if c[k] == 0 {
				out = append(out, "coverage floor: no "+k)
			}
		}
		if c["class_codepoints"] != 0x110000 {
			out = append(out, fmt.Sprintf("class sweep covered %d of %d code points", c["class_codepoints"], 0x110000))
		}
		return out
	},
})

type impTok struct {
	Kind            formula.SyntaxKind
	Start, Pos, End int
	NL              bool
	Value           string
}

// scanAll drives the real scanner to EOF (or until it misbehaves).
func scanAll(src []byte) (toks []impTok, errs int, problem string) {
	sc := formula.CreateScanner(src, func(msg *formula.DiagnosticMessage, pos int, length int) { errs++ })
	prevEnd := 0
	for i := 0; ; i++ {
		if i > len(src)+1 {
			return toks, errs, fmt.Sprintf("more than len+1 = %d tokens", len(src)+1)
		}
		ret := sc.Scan()
		t := impTok{Kind: sc.GetToken(), Start: sc.GetStartPos(), Pos: sc.GetTokenPos(), End: sc.GetTextPos(), NL: sc.HasPrecedingLineBreak(), Value: sc.GetTokenValue()}
		toks = append(toks, t)
		if ret != t.Kind {
			return toks, errs, fmt.Sprintf("token %d: Scan() returned %s but GetToken() is %s", i, obs.TokText(ret), obs.TokText(t.Kind))
		}
		if t.Start != prevEnd {
			return toks, errs, fmt.Sprintf("token %d starts at %d, previous ended at %d (not contiguous)", i, t.Start, prevEnd)
		}
		if !(t.Start <= t.Pos && t.Pos <= t.End) {
			return toks, errs, fmt.Sprintf("token %d: start %d <= tokenPos %d <= textPos %d violated", i, t.Start, t.Pos, t.End)
		}
		if t.End > len(src) {
			return toks, errs, fmt.Sprintf("token %d ends at %d beyond len %d", i, t.End, len(src))
		}
		// only white space / line breaks in the leading trivia
		for p := t.Start; p < t.Pos; {
			r, sz := utf8.DecodeRune(src[p:])
			if !(ref.IsSpace(r) || ref.IsLineBreak(r) || ref.IsSpaceOpen(r)) || (r == utf8.RuneError && sz == 1) {
				return toks, errs, fmt.Sprintf("token %d: byte at %d (%U) inside leading trivia is not white space", i, p, r)
			}
			p += sz
		}
		if t.Kind == formula.SK_EndOfFile {
			if t.End != len(src) {
				return toks, errs, fmt.Sprintf("EOF token ends at %d, len is %d", t.End, len(src))
			}
			return toks, errs, ""
		}
		if t.End <= t.Pos {
			return toks, errs, fmt.Sprintf("token %d (%s) does not advance: tokenPos %d textPos %d", i, obs.TokText(t.Kind), t.Pos, t.End)
		}
		prevEnd = t.End
	}
}

// snapTok reads the scanner's view of its current token.
func snapTok(sc *formula.Scanner) impTok {
	t := impTok{Kind: sc.GetToken(), Start: sc.GetStartPos(), Pos: sc.GetTokenPos(), End: sc.GetTextPos(), NL: sc.HasPrecedingLineBreak()}
	if t.Kind.IsLiteral() || t.Kind.IsIdentifier() || t.Kind.IsKeyword() {
		t.Value = sc.GetTokenValue() // (the value of other tokens is whatever the last name or literal left behind)
	}
	return t
}

// scanRest scans to the end of input (bounded) and returns the tokens.
func scanRest(sc *formula.Scanner, limit int) []impTok {
	var out []impTok
	for i := 0; i <= limit; i++ {
		sc.Scan()
		t := snapTok(sc)
		out = append(out, t)
		if t.Kind == formula.SK_EndOfFile {
			break
		}
	}
	return out
}

func sameToks(a, b []impTok) (int, bool) {
	if len(a) != len(b) {
		return minInt(len(a), len(b)), false
	}
	for i := range a {
		if a[i] != b[i] {
			return i, false
		}
	}
	return 0, true
}

// The scanner's other entry points give the same tokens as a fresh scan: a scanner re-used for a new text (SetText), a
// scan resumed at a token's full start (SetTextPos), and scanning continued after a look-ahead or a failed speculation
// (LookHead / TryScan restore the position, the current token and its flags).
var c14Reuse = core.Mon(c14, "scanner-entry-points", func(w *core.W, c *ParseCase) {
	w.Eval(1)
	var base []impTok
	var problem string
	panicked, pv := core.Call(func() { base, _, problem = scanAll(c.Src) })
	if panicked || problem != "" {
		return // reported by the tiling monitor
	}
	for i := range base {
		if k := base[i].Kind; !(k.IsLiteral() || k.IsIdentifier() || k.IsKeyword()) {
			base[i].Value = ""
		}
	}
	w.Count("scanner_entry_point_cases")
	if len(base) >= 3 {
		w.Nontrivial("entry:" + string(c.Src))
	}
	limit := len(c.Src) + 1
	noErr := func(msg *formula.DiagnosticMessage, pos int, length int) {}
	bad := func(sig string, at int, got []impTok, how string) {
		w.Violation("scanner-entry-points", "C14/"+sig, c, fmt.Sprint(base), fmt.Sprint(got), fmt.Sprintf("%s: token %d differs from a fresh scan of %s", how, at, c.Quoted()))
	}
	var got []impTok
	// (a) a scanner that has scanned other texts before
	panicked, pv = core.Call(func() {
		sc := formula.CreateScanner([]byte("'pre\\u0041vious' + 1_0e-3 !. $x\n"), noErr)
		scanRest(sc, 40)
		sc.SetText([]byte("\"unterminated"))
		scanRest(sc, 40)
		sc.SetText(c.Src)
		got = scanRest(sc, limit)
	})
	if panicked {
		w.Violation("scanner-entry-points", "C14/scan-panic", c, "tokens", fmt.Sprint(pv), "re-used scanner on "+c.Quoted())
		return
	}
	if at, ok := sameToks(base, got); !ok {
		bad("scanner-reuse", at, got, "a scanner re-used through SetText")
		return
	}
	// (b) resume at the full start of token k; (c) look ahead j tokens after k tokens, then go on
	for _, k := range []int{0, 1, len(base) / 2, len(base) - 2} {
		if k < 0 || k >= len(base) {
			continue
		}
		panicked, pv = core.Call(func() {
			sc := formula.CreateScanner(c.Src, noErr)
			sc.SetTextPos(base[k].Start)
			got = scanRest(sc, limit)
		})
		if panicked {
			w.Violation("scanner-entry-points", "C14/scan-panic", c, "tokens", fmt.Sprint(pv), "SetTextPos on "+c.Quoted())
			return
		}
		if at, ok := sameToks(base[k:], got); !ok {
			bad("scanner-resume", k+at, got, fmt.Sprintf("a scan resumed with SetTextPos(%d)", base[k].Start))
			return
		}
		for _, j := range []int{1, 3} {
			var before, after, afterTry impTok
			panicked, pv = core.Call(func() {
				sc := formula.CreateScanner(c.Src, noErr)
				for i := 0; i < k; i++ {
					sc.Scan()
				}
				before = snapTok(sc)
				formula.LookHead(sc, func() bool {
					for i := 0; i < j; i++ {
						sc.Scan()
					}
					return true
				})
				after = snapTok(sc)
				formula.TryScan(sc, func() interface{} {
					for i := 0; i < j; i++ {
						sc.Scan()
					}
					return nil // a speculation that did not work out
				})
				afterTry = snapTok(sc)
				got = scanRest(sc, limit)
			})
			if panicked {
				w.Violation("scanner-entry-points", "C14/scan-panic", c, "tokens", fmt.Sprint(pv), "speculation on "+c.Quoted())
				return
			}
			if after != before || afterTry != before {
				w.Violation("scanner-entry-points", "C14/speculation-not-restored", c, fmt.Sprint(before), fmt.Sprint(after, afterTry), fmt.Sprintf("after %d tokens, looking ahead %d tokens changed the current token on %s", k, j, c.Quoted()))
				return
			}
			if at, ok := sameToks(base[k:], got); !ok {
				bad("scan-after-speculation", k+at, got, fmt.Sprintf("scanning on after a look-ahead of %d tokens at token %d", j, k))
				return
			}
		}
	}
})

var c14Tiling = core.Mon(c14, "tiling", func(w *core.W, c *ParseCase) {
	if len(c.Src) >= 512 || w.Replay {
		w.Cur("tiling", c)
	}
	w.Eval(1)
	var toks []impTok
	var problem string
	panicked, pv := core.Call(func() { toks, _, problem = scanAll(c.Src) })
	if panicked {
		w.Violation("tiling", "C14/scan-panic", c, "tokens to EOF", fmt.Sprint(pv), "panic escaped Scanner.Scan on "+c.Quoted())
		return
	}
	if problem != "" {
		w.Violation("tiling", "C14/tiling", c, "contiguous advancing tokens ending at len", problem, "input "+c.Quoted())
		return
	}
	if len(toks) >= 3 {
		w.Nontrivial(string(c.Src))
	}
})

// ClassCase is a range of code points.
type ClassCase struct {
	Lo, Hi int32
}

var c14Classes = core.Mon(c14, "classes", func(w *core.W, c *ClassCase) {
	for cp := c.Lo; cp <= c.Hi; cp++ {
		r := rune(cp)
		w.Eval(1)
		w.Count("class_codepoints")
		w.Nontrivial(fmt.Sprintf("U+%04X", cp))
		bad := func(fn string, exp, got bool) {
			w.Violation("classes", "C14/class:"+fn, &ClassCase{cp, cp}, exp, got, fmt.Sprintf("%s(%U) = %v, reference says %v", fn, r, got, exp))
		}
		if g, e := formula.IsIdentifierStart(r), ref.IsIDStart(r); g != e {
			bad("IsIdentifierStart", e, g)
		}
		if g, e := formula.IsIdentifierPart(r), ref.IsIDPart(r); g != e {
			bad("IsIdentifierPart", e, g)
		}
		if g, e := formula.IsLineBreak(r), ref.IsLineBreak(r); g != e {
			bad("IsLineBreak", e, g)
		}
		if !ref.IsSpaceOpen(r) {
			if g, e := formula.IsWhiteSpace(r), ref.IsSpace(r); g != e {
				bad("IsWhiteSpace", e, g)
			}
		} else {
			w.Skip("IsWhiteSpace on U+200B/U+180E")
		}
	}
})

// LookupCase: binary search over a range table vs a linear scan of the same table.
type LookupCase struct {
	Table []rune `json:"table"`
	Code  rune   `json:"code"`
}

var c14Lookup = core.Mon(c14, "range-lookup", func(w *core.W, c *LookupCase) {
	w.Eval(1)
	exp := false
	for i := 0; i+1 < len(c.Table); i += 2 {
		if c.Table[i] <= c.Code && c.Code <= c.Table[i+1] {
			exp = true
		}
	}
	var got bool
	panicked, pv := core.Call(func() { got = formula.LookupInUnicodeMap(c.Code, c.Table) })
	if panicked {
		w.Violation("range-lookup", "C14/lookup-panic", c, exp, fmt.Sprint(pv), "LookupInUnicodeMap panicked")
		return
	}
	if got != exp {
		w.Violation("range-lookup", "C14/lookup", c, exp, got, fmt.Sprintf("binary search disagrees with linear scan for %U in a table of %d ranges", c.Code, len(c.Table)/2))
	}
})

func kindOfRef(t ref.Token) formula.SyntaxKind {
	switch t.Kind {
	case ref.TEOF:
		return formula.SK_EndOfFile
	case ref.TNum:
		return formula.SK_NumberLiteral
	case ref.TStr:
		return formula.SK_StringLiteral
	case ref.TIdent:
		return formula.SK_Identifier
	case ref.TKeyword:
		return map[string]formula.SyntaxKind{"true": formula.SK_TrueKeyword, "false": formula.SK_FalseKeyword, "null": formula.SK_NullKeyword,
			"this": formula.SK_ThisKeyword, "ctx": formula.SK_CtxKeyword, "typeof": formula.SK_TypeofKeyword}[t.Text]
	}
	return punctKind[t.Text]
}

var punctKind = map[string]formula.SyntaxKind{
	"(": formula.SK_OpenParen, ")": formula.SK_CloseParen, "[": formula.SK_OpenBracket, "]": formula.SK_CloseBracket, ".": formula.SK_Dot, "...": formula.SK_DotDotDot,
	",": formula.SK_Comma, "<": formula.SK_LessThan, ">": formula.SK_GreaterThan, "<=": formula.SK_LessThanEquals, ">=": formula.SK_GreaterThanEquals,
	"==": formula.SK_EqualsEquals, "===": formula.SK_EqualsEqualsEquals, "!=": formula.SK_ExclamationEquals, "!==": formula.SK_ExclamationEqualsEquals,
	"+": formula.SK_Plus, "-": formula.SK_Minus, "*": formula.SK_Asterisk, "/": formula.SK_Slash, "%": formula.SK_Percent, "&": formula.SK_Ampersand,
	"|": formula.SK_Bar, "^": formula.SK_Caret, "&&": formula.SK_AmpersandAmpersand, "||": formula.SK_BarBar, "??": formula.SK_QuestionQuestion,
	"!": formula.SK_Exclamation, "!.": formula.SK_ExclamationDot, "!!": formula.SK_ExclamationExclamation, "~": formula.SK_Tilde, "?": formula.SK_Question,
	":": formula.SK_Colon, "=": formula.SK_Equals,
}

var c14Tokens = core.Mon(c14, "tokens-vs-reference", func(w *core.W, c *ParseCase) {
	w.Eval(1)
	lr := ref.Lex(c.Src)
	var toks []impTok
	var errs int
	var problem string
	panicked, pv := core.Call(func() { toks, errs, problem = scanAll(c.Src) })
	if panicked {
		w.Violation("tokens-vs-reference", "C14/scan-panic", c, "tokens", fmt.Sprint(pv), "panic escaped Scanner.Scan on "+c.Quoted())
		return
	}
	if problem != "" {
		w.Violation("tokens-vs-reference", "C14/tiling", c, "contiguous tokens", problem, "input "+c.Quoted())
		return
	}
	if lr.Open {
		w.Skip("unclassified-code-point-or-escape")
		return
	}
	if lr.Err != nil {
		if errs == 0 {
			unknown := false
			for _, t := range toks {
				if t.Kind == formula.SK_Unknown {
					unknown = true
				}
			}
			if !unknown {
				w.Violation("tokens-vs-reference", "C14/lexical-error-missed", c, "lexical error: "+lr.Err.What, "no error reported", "input "+c.Quoted())
				return
			}
		}
		w.Count("lexerr_agree")
		return
	}
	if errs != 0 {
		w.Violation("tokens-vs-reference", "C14/spurious-lexical-error", c, "no lexical error", fmt.Sprintf("%d scanner errors", errs), "input "+c.Quoted())
		return
	}
	if len(lr.Toks) >= 3 {
		w.Nontrivial(string(c.Src))
	}
	describe := func() (string, string) {
		var e, g []string
		for _, t := range lr.Toks {
			e = append(e, fmt.Sprintf("%s[%d:%d]", obs.TokText(kindOfRef(t)), t.Pos, t.End))
		}
		for _, t := range toks {
			g = append(g, fmt.Sprintf("%s[%d:%d]", obs.TokText(t.Kind), t.Pos, t.End))
		}
		return strings.Join(e, " "), strings.Join(g, " ")
	}
	if len(toks) != len(lr.Toks) {
		e, g := describe()
		w.Violation("tokens-vs-reference", "C14/token-split", c, e, g, "token sequence differs from longest-match tokenization of "+c.Quoted())
		return
	}
	for i, rt := range lr.Toks {
		it := toks[i]
		if kindOfRef(rt) != it.Kind || rt.Pos != it.Pos || rt.End != it.End {
			e, g := describe()
			w.Violation("tokens-vs-reference", "C14/token-split", c, e, g, fmt.Sprintf("token %d differs on %s", i, c.Quoted()))
			return
		}
		if rt.NLBefore != it.NL {
			w.Violation("tokens-vs-reference", "C14/line-break-flag", c, rt.NLBefore, it.NL, fmt.Sprintf("preceding-line-break flag of token %d on %s", i, c.Quoted()))
			return
		}
		if (rt.Kind == ref.TIdent || rt.Kind == ref.TKeyword) && it.Value != rt.Text {
			w.Violation("tokens-vs-reference", "C14/identifier-text", c, rt.Text, it.Value, "identifier token value on "+c.Quoted())
			return
		}
	}
	w.Count("tokens_agree")
})

// SpacingCase: one program (as lexemes) and a layout; the tree must not depend on the layout.
type SpacingCase struct {
	Lex  []string `json:"lex"`
	Sep  []string `json:"sep"`
	Base string   `json:"base"` // canonical tree of the minimal layout
}

var c14Spacing = core.Mon(c14, "spacing", func(w *core.W, c *SpacingCase) {
	w.Eval(1)
	src := []byte(ref.JoinLexemes(c.Lex, c.Sep))
	var sc *formula.SourceCode
	var err error
	panicked, pv := core.Call(func() { sc, err = hostParse(src, true) })
	if panicked {
		w.Violation("spacing", "C14/escaped-panic", c, c.Base, fmt.Sprint(pv), "")
		return
	}
	w.Count("spacing_layouts")
	if len(c.Lex) >= 3 {
		w.Nontrivial(string(src))
	}
	if c.Base == "REJECT" {
		if err == nil {
			w.Violation("spacing", "C14/line-break-before-postfix-accepted", c, "syntax error", "accepted", fmt.Sprintf("%q", clipS(string(src), 200)))
		}
		return
	}
	if err != nil {
		w.Violation("spacing", "C14/spacing-changes-outcome", c, c.Base, err.Error(), fmt.Sprintf("re-spaced program rejected: %q", clipS(string(src), 200)))
		return
	}
	if got := obs.Canon(sc.Expression); got != c.Base {
		w.Violation("spacing", "C14/spacing-changes-tree", c, c.Base, got, fmt.Sprintf("re-spaced program parses differently: %q", clipS(string(src), 200)))
	}
})

// C14Lexemes: the lexeme set for concatenation tests.
var C14Lexemes = append(append([]string{}, ref.Operators...),
	"a", "truex", "nul", "$", "_1", "é", "中a", "typeofx", "thi",
	"true", "false", "null", "this", "ctx", "typeof",
	"1", "12", "1.", ".5", "1.5", "1e5", "1E+5", "1_0", "0",
	"'s'", "\"d\"", "''", "'a b'", "'\\''",
)

var c14Seps = []string{"", " ", "\t", "\u00a0", "\n", "\r\n", "\u2028", "\u3000\ufeff"}

func init() { c14.Run = runC14 }

func runC14(w *core.W) {
	// (a) tiling on hostile byte strings
	tile := func(genName string, src []byte) {
		if len(src) > 65536 {
			src = src[:65536]
		}
		c := &ParseCase{Src: src, Gen: genName}
		c14Tiling(w, c)
		w.Count("tiling_cases")
		if w.Counter("tiling_cases")%4999 == 1 {
			w.Sample("tiling/"+genName, c.Quoted())
		}
	}
	r := w.RNG("bytes")
	for i, n := 0, w.Pick(40000, 800000); i < n; i++ {
		tile("bytes", gen.RandBytes(r, 200))
	}
	for i, n := 0, w.Pick(2, 10); i < n; i++ {
		size := []int{4096, 65536}[i%2]
		b := gen.RandBytes(r, size)
		for len(b) < size/2 {
			b = append(b, gen.RandBytes(r, size)...)
		}
		tile("bytes-large", b)
	}
	corpus := gen.CorpusBytes()
	r = w.RNG("mut")
	for i, n := 0, w.Pick(40000, 800000); i < n; i++ {
		tile("mutant", gen.Mutate(r, corpus[r.Intn(len(corpus))], corpus))
	}
	r = w.RNG("pool")
	for i, n := 0, w.Pick(20000, 400000); i < n; i++ {
		tile("pool", gen.RandTokens(r, gen.LexPool, 40))
	}
	si := 0
	for _, sh := range gen.Shapes {
		for _, n := range gen.ShapeSizes {
			si++
			if w.Mine(si) {
				tile("shape:"+sh.Name, gen.ShapeBytes(sh, n))
			}
		}
	}
	// (b) classes, exhaustive; each shard takes a slice of the code space
	const block = 0x1000
	for b := 0; b < 0x110000/block; b++ {
		if w.Mine(b) {
			c14Classes(w, &ClassCase{int32(b * block), int32(b*block + block - 1)})
		}
	}
	w.ExhaustivePart("IsIdentifierStart/IsIdentifierPart/IsLineBreak/IsWhiteSpace on every code point 0..0x10FFFF")
	// range lookup: binary search vs linear scan on assorted tables
	r = w.RNG("lookup")
	for i, n := 0, w.Pick(300, 3000); i < n; i++ {
		nr := 1 + r.Intn(12)
		if i%10 == 0 {
			nr = 1 + r.Intn(400)
		}
		tab := make([]rune, 0, 2*nr)
		cur := rune(128 + r.Intn(50))
		for j := 0; j < nr; j++ {
			lo := cur + rune(1+r.Intn(5))
			hi := lo + rune(r.Intn(4))
			tab = append(tab, lo, hi)
			cur = hi
		}
		for code := tab[0] - 3; code <= cur+3; code++ {
			c14Lookup(w, &LookupCase{Table: tab, Code: code})
		}
		w.Count("lookup_tables")
	}
	// (c) lexeme concatenations vs the reference tokenizer
	lex := C14Lexemes
	kmax := w.Pick(2, 3)
	ti := 0
	tokCase := func(src []byte, genName string) {
		c := &ParseCase{Src: src, Gen: genName}
		c14Tokens(w, c)
		w.Count("token_cases")
		if w.Counter("token_cases")%4 == 0 || genName == "mutant" {
			c14Reuse(w, c)
		}
		if w.Counter("token_cases")%9973 == 1 {
			w.Sample("tokens/"+genName, c.Quoted())
		}
	}
	for k := 1; k <= kmax; k++ {
		total := gen.Pow(len(lex), k)
		for i := 0; i < total; i++ {
			ti++
			if !w.Mine(ti) {
				continue
			}
			toks := gen.TokSeq(lex, k, i)
			for _, sep := range c14Seps {
				tokCase([]byte(strings.Join(toks, sep)), fmt.Sprintf("concat%d", k))
				if k == 1 {
					break
				}
			}
		}
	}
	w.ExhaustivePart(fmt.Sprintf("all concatenations of <= %d lexemes from a %d-lexeme set x 8 separators", kmax, len(lex)))
	r = w.RNG("concat-sampled")
	for i, n := 0, w.Pick(120000, 1200000); i < n; i++ {
		k := kmax + 1 + r.Intn(4)
		var sb strings.Builder
		for j := 0; j < k; j++ {
			if j > 0 {
				sb.WriteString(c14Seps[r.Intn(len(c14Seps))])
			}
			sb.WriteString(lex[r.Intn(len(lex))])
		}
		tokCase([]byte(sb.String()), "concat-sampled")
	}
	r = w.RNG("tok-bytes")
	for i, n := 0, w.Pick(40000, 600000); i < n; i++ {
		tokCase(gen.Mutate(r, corpus[r.Intn(len(corpus))], corpus), "mutant")
		tokCase(gen.RandTokens(r, gen.LexPool, 12), "pool")
	}
	// (d) spacing metamorphism
	cfg := gen.FullSyntax()
	r = w.RNG("spacing")
	var progs []*ref.Flat
	for _, s := range gen.Corpus {
		if pr := ref.Parse([]byte(s)); pr.Verdict == ref.Accept {
			progs = append(progs, ref.Flatten(pr.Tree))
		}
	}
	for i, n := 0, w.Pick(3000, 60000); i < n; i++ {
		progs = append(progs, ref.Flatten(ref.Parenthesize(cfg.Node(r, 2+r.Intn(5)))))
	}
	layouts := w.Pick(6, 20)
	for _, f := range progs {
		base := []byte(ref.JoinLexemes(f.Lex, nil))
		sc, err := hostParse(base, true)
		if err != nil {
			w.Violation("spacing", "C14/baseline-rejected", &SpacingCase{Lex: f.Lex}, "accepted", err.Error(), fmt.Sprintf("minimal layout rejected: %q", clipS(string(base), 200)))
			continue
		}
		canon := obs.Canon(sc.Expression)
		for l := 0; l < layouts; l++ {
			c := &SpacingCase{Lex: f.Lex, Sep: gen.Layout(r, f, 1+l%2*1+0), Base: canon}
			if l >= 2 {
				c.Sep = gen.Layout(r, f, 2)
			}
			if l >= 4 || l == 2 {
				// also line breaks between '.' / '!.' and the member name: these are two tokens like any others
				c.Sep = gen.Layout(r, f, 3)
				w.Count("layouts_with_breaks_after_dot")
			}
			c14Spacing(w, c)
		}
		// the exception of the statement: a line break right before '.', '!.' or a call's '(' is not insignificant
		var at []int
		for j := range f.Lex {
			if f.Postfix[j] {
				at = append(at, j)
			}
		}
		if len(at) > 0 {
			sep := gen.Layout(r, f, 1)
			sep[at[r.Intn(len(at))]] = gen.BreakSeps[r.Intn(len(gen.BreakSeps))]
			src := []byte(ref.JoinLexemes(f.Lex, sep))
			var err2 error
			core.Call(func() { _, err2 = hostParse(src, true) })
			w.Eval(1)
			w.Count("postfix_break_cases")
			if err2 == nil && ref.Parse(src).Verdict == ref.Reject {
				w.Violation("spacing", "C14/line-break-before-postfix-accepted", &SpacingCase{Lex: f.Lex, Sep: sep, Base: "REJECT"}, "syntax error", "accepted",
					fmt.Sprintf("a line break before '.', '!.' or a call's '(' must not be accepted: %q", clipS(string(src), 200)))
			}
		}
		w.Count("spacing_programs")
		if w.Counter("spacing_programs")%997 == 1 {
			w.Sample("spacing", fmt.Sprintf("%q", clipS(string(base), 120)))
		}
	}
}
