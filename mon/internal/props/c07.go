package props

import (
	"context"
	"fmt"
	"reflect"
	"sort"
	"strings"
	"time"

	"github.com/aundis/formula"
	"github.com/ericlagergren/decimal"

	"verifmon/internal/core"
	"verifmon/internal/gen"
	"verifmon/internal/obs"
	"verifmon/internal/ref"
	"verifmon/internal/val"
)

var c07 = core.Register(&core.Prop{
	ID:    "C07",
	Title: "Locals bind and sequence left to right; caller data is never modified",
	Rule: "programs mixing assignments, reads, commas, arrays, recording calls, conditionals, parentheses and '+' over 5 local and 5 non-local names (re-assignment, read-before-write, assignment inside arguments, elements and branches), one or two consecutive evaluations per runner, " +
		"compared with a store-passing reference evaluation (result, final locals, ordered invocation log); forbidden assignment targets; deep before/after snapshot of the caller's map on these and on general programs over every builtin; " +
		"non-trivial = contains an assignment or a recording call; distinct by (programs, data)",
	Assumptions: []string{
		"the reference sub-language keeps '+' on integers/null so that every value is determined by the statement",
		"the frame condition compares a deep rendering of every non-$ entry (contents incl. decimals' internal representation, and the identity of maps, slices and pointers)",
	},
	Shards: func(tier string) int { return pickTier(tier, 8, 16) },
	Floors: func(c map[string]int64, tier string) []string {
		var out []string
		for _, k := range []string{"store_cases", "second_evaluation_cases", "assignments_checked", "log_entries_checked", "forbidden_target_cases", "binding_cases", "frame_checks", "frame_checks_general", "error_runs_frame_checked", "callee_not_a_function_cases", "calls_through_locals", "frame_checks_call_templates", "host_mutation_cases", "rebinding_cases"} {
			if c[k] == 0 {
				out = append(out, "coverage floor: no "+k)
			}
		}
		return out
	},
})

// StoreCase: programs evaluated in order on one runner over one data map.
type StoreCase struct {
	Progs []string      `json:"progs"`
	X     int64         `json:"x"`
	Y     int64         `json:"y"`
	Init  map[string]MV `json:"init,omitempty"` // locals present in the caller's map beforehand
}

func frameSnapshot(m map[string]interface{}) string {
	var keys []string
	for k := range m {
		if !strings.HasPrefix(k, "$") {
			keys = append(keys, k)
		}
	}
	sort.Strings(keys)
	var sb strings.Builder
	for _, k := range keys {
		sb.WriteString(k)
		sb.WriteByte('=')
		sb.WriteString(obs.Snapshot(m[k]))
		sb.WriteByte('\n')
	}
	return sb.String()
}

func firstDiff(a, b string) string {
	la, lb := strings.Split(a, "\n"), strings.Split(b, "\n")
	for i := 0; i < len(la) || i < len(lb); i++ {
		var x, y string
		if i < len(la) {
			x = la[i]
		}
		if i < len(lb) {
			y = lb[i]
		}
		if x != y {
			return fmt.Sprintf("before: %s | after: %s", clipS(x, 200), clipS(y, 200))
		}
	}
	return ""
}

var c07Store = core.Mon(c07, "store-passing", func(w *core.W, c *StoreCase) {
	var log []MV
	data := map[string]interface{}{
		"x": int(c.X), "y": c.Y, "l": []interface{}{1, "e"}, "s": "str",
		"m": map[string]interface{}{"k": 1, "n": map[string]interface{}{"j": "v"}}, "d": decimal.New(150, 2), "tl": []string{"a", "b"},
		"rec": func(vs ...interface{}) (interface{}, error) {
			if len(vs) == 0 {
				return nil, fmt.Errorf("rec needs an argument")
			}
			if len(vs) == 1 {
				log = append(log, goToMV(vs[0]))
			} else {
				log = append(log, goToMV(vs))
			}
			return vs[len(vs)-1], nil
		},
		"rec2": func(vs ...interface{}) (interface{}, error) {
			if len(vs) == 0 {
				return nil, fmt.Errorf("rec2 needs an argument")
			}
			log = append(log, goToMV(append([]interface{}{"rec2"}, vs...)))
			return vs[0], nil
		},
	}
	model := &refEval{Store: map[string]MV{"x": mvInt(c.X), "y": mvInt(c.Y), "l": {K: "arr", A: []MV{mvInt(1), {K: "str", S: "e"}}}, "s": {K: "str", S: "str"}}}
	for k, v := range c.Init {
		if v.K == "fn" {
			data[k] = data[v.S]
		} else {
			data[k] = mvGo(v)
		}
		model.Store[k] = v
	}
	before := frameSnapshot(data)
	r := formula.NewRunner()
	r.SetThis(data)
	w.Count("store_cases")
	nontrivial := false
	for pi, src := range c.Progs {
		pr := ref.Parse([]byte(src))
		if pr.Verdict != ref.Accept && pr.Verdict != ref.AcceptIfAccepted {
			w.Skip("program-not-derivable")
			return
		}
		sc, err := hostParse([]byte(src), true)
		if err != nil {
			w.Violation("store-passing", "C07/unparsable", c, "parses", err.Error(), src)
			return
		}
		if strings.Contains(src, "=") || strings.Contains(src, "rec(") {
			nontrivial = true
		}
		if strings.Contains(src, "$f(") || strings.Contains(src, "$g(") {
			w.Count("calls_through_locals")
		}
		if pi == 1 {
			w.Count("second_evaluation_cases")
		}
		log = log[:0]
		model.Log = nil
		mv, merr := model.eval(pr.Tree)
		if merr == errUnspec {
			w.Skip("outside-sub-language")
			return
		}
		var v interface{}
		var rerr error
		w.Eval(1)
		panicked, pv := core.Call(func() { v, rerr = r.Resolve(context.Background(), sc.Expression) })
		if panicked {
			w.Violation("store-passing", "C07/escaped-panic", c, mv.String(), fmt.Sprint(pv), src)
			return
		}
		if merr == errNotFn {
			w.Count("callee_not_a_function_cases")
			if rerr == nil {
				w.Violation("store-passing", "C07/callee-read-after-arguments", c, "an error: the callee is not a function when the call is reached", show(v),
					"a callee stands left of its arguments and is read before they are evaluated: "+src)
			}
			return
		}
		if merr != nil {
			if rerr == nil {
				w.Violation("store-passing", "C07/forbidden-assignment-accepted", c, "an error", show(v), "assignment to something other than a bare $name must be an error: "+src)
				return
			}
		} else {
			if rerr != nil {
				w.Violation("store-passing", "C07/unexpected-error", c, mv.String(), rerr.Error(), src)
				return
			}
			if !mvMatches(mv, v) {
				w.Violation("store-passing", "C07/result", c, mv.String(), show(v), fmt.Sprintf("program %d %q", pi, src))
				return
			}
		}
		// ordered invocation log
		w.CountN("log_entries_checked", int64(len(model.Log)))
		if len(log) != len(model.Log) {
			w.Violation("store-passing", "C07/invocation-log", c, describeLog(model.Log), describeLog(log), "recording calls, in order, for "+src)
			return
		}
		for i := range log {
			if log[i].String() != model.Log[i].String() {
				w.Violation("store-passing", "C07/invocation-order", c, describeLog(model.Log), describeLog(log), "recording calls, in order, for "+src)
				return
			}
		}
		// locals
		for k, mvv := range model.Store {
			if !strings.HasPrefix(k, "$") {
				continue
			}
			w.Count("assignments_checked")
			gv, ok := data[k]
			if !ok || !mvMatches(mvv, gv) {
				w.Violation("store-passing", "C07/local-binding", c, k+" = "+mvv.String(), show(gv), fmt.Sprintf("after program %d %q the local %s differs", pi, src, k))
				return
			}
		}
		for k := range data {
			if strings.HasPrefix(k, "$") {
				if _, ok := model.Store[k]; !ok {
					w.Violation("store-passing", "C07/spurious-local", c, "no "+k, show(data[k]), src)
					return
				}
			}
		}
		// frame
		w.Count("frame_checks")
		if merr != nil || rerr != nil {
			w.Count("error_runs_frame_checked")
		}
		if after := frameSnapshot(data); after != before {
			w.Violation("store-passing", "C07/caller-data-modified", c, "unchanged", firstDiff(before, after), "a non-$ entry of the caller's map (or something reachable from it) changed while evaluating "+src)
			return
		}
	}
	if nontrivial {
		w.Nontrivial(strings.Join(c.Progs, "\x00") + fmt.Sprint(c.X, c.Y, c.Init))
	}
})

func goToMV(v interface{}) MV {
	switch x := v.(type) {
	case nil:
		return mvNull
	case *decimal.Big:
		if i, ok := x.Int64(); ok && x.IsInt() {
			return mvInt(i)
		}
		return MV{K: "str", S: "dec:" + x.String()}
	case string:
		return MV{K: "str", S: x}
	case bool:
		return MV{K: "bool", B: x}
	case int:
		return mvInt(int64(x))
	case int64:
		return mvInt(x)
	case []interface{}:
		out := MV{K: "arr", A: []MV{}}
		for _, e := range x {
			out.A = append(out.A, goToMV(e))
		}
		return out
	}
	if v != nil && reflect.TypeOf(v).Kind() == reflect.Func {
		return MV{K: "fn"}
	}
	return MV{K: "str", S: fmt.Sprintf("%T", v)}
}

// ForbiddenCase: an assignment whose target is not a bare $name.
type ForbiddenCase struct {
	Src       string `json:"src"`
	AssignsSA bool   `json:"assigns_a,omitempty"` // the template also contains a legitimate "$a = ..."
}

var c07Forbidden = core.Mon(c07, "forbidden-target", func(w *core.W, c *ForbiddenCase) {
	data := map[string]interface{}{"a": 1, "m": map[string]interface{}{"b": 2}, "$a": map[string]interface{}{"b": 3}, "f": func() (int, error) { return 1, nil },
		"a$": 5, "a$b": 6, "_$x": 7, "price$": 10}
	snap := func() string {
		s := frameSnapshot(data)
		if !c.AssignsSA {
			s += "$a=" + obs.Snapshot(data["$a"])
		}
		return s
	}
	before := snap()
	w.Eval(1)
	w.Count("forbidden_target_cases")
	w.Nontrivial("forbidden:" + c.Src)
	sc, err := hostParse([]byte(c.Src), true)
	if err != nil {
		return // an error at parse time is fine
	}
	r := formula.NewRunner()
	r.SetThis(data)
	var v interface{}
	var rerr error
	panicked, pv := core.Call(func() { v, rerr = r.Resolve(context.Background(), sc.Expression) })
	if panicked {
		w.Violation("forbidden-target", "C07/escaped-panic", c, "an error", fmt.Sprint(pv), c.Src)
		return
	}
	if rerr == nil {
		w.Violation("forbidden-target", "C07/forbidden-assignment-accepted", c, "an error", show(v), "assigning to anything but a bare $name must be an error: "+c.Src)
		return
	}
	if after := snap(); after != before {
		w.Violation("forbidden-target", "C07/forbidden-assignment-changed-map", c, "unchanged map", firstDiff(before, after), c.Src)
	}
})

// BindCase: `$a = V` has V's value, exactly (not a rounded or re-formatted copy), now and on later reads.
type BindCase struct {
	Val  string `json:"val"`  // formula text of the value (literal or data name)
	Read string `json:"read"` // how the local is read back
}

var bindValues = []string{"1234567890123456789012345678901234567890", "0.1234567890123456789012345678901234567", "1.50", "1e40", "12345678901234567890123456789012345.5", "-0.000000000000000000000000000000000001234567",
	"dwide", "dwide2", "d150", "'text'", "[1.50, 'x']", "true", "null", "dt", "dm", "100", "0.0", "123456789012345678901234567890123456e10"}

var c07Bind = core.Mon(c07, "binding-exactness", func(w *core.W, c *BindCase) {
	wide, _ := new(decimal.Big).SetString("9876543210987654321098765432109876543210.123456789")
	wide2 := decimal.New(1234567890123456789, 0)
	data := func() map[string]interface{} {
		return map[string]interface{}{"dwide": wide, "dwide2": wide2, "d150": decimal.New(150, 2), "dt": time.Unix(1700000000, 5).UTC(), "dm": map[string]interface{}{"k": decimal.New(250, 2)},
			"fid": func(x interface{}) (interface{}, error) { return x, nil }}
	}
	w.Eval(1)
	w.Count("binding_cases")
	w.Nontrivial("bind:" + c.Val + "|" + c.Read)
	want, err0, p0, _ := resolveIn(data(), "["+c.Val+"]")
	if p0 || err0 != nil {
		w.Skip("value-not-evaluable")
		return
	}
	src := strings.ReplaceAll(c.Read, "V", c.Val)
	got, err, p, pv := resolveIn(data(), src)
	if p || err != nil {
		w.Violation("binding-exactness", "C07/binding-error", c, show(want), fmt.Sprint(pv, err), src)
		return
	}
	arr, _ := got.([]interface{})
	wv := want.([]interface{})[0]
	for i, g := range arr {
		if obs.SnapshotValues(g) != obs.SnapshotValues(wv) {
			w.Violation("binding-exactness", "C07/binding-changes-value", c, show(wv)+" "+clipS(obs.SnapshotValues(wv), 160), show(g)+" "+clipS(obs.SnapshotValues(g), 160),
				fmt.Sprintf("element %d of %s must be exactly the value of %s", i, src, c.Val))
			return
		}
	}
	// and across evaluations of one runner
	d := data()
	r := formula.NewRunner()
	r.SetThis(d)
	for _, f := range []string{"$keep = " + c.Val, "1 + 1", "[$keep]"} {
		sc, perr := hostParse([]byte(f), true)
		if perr != nil {
			return
		}
		var v interface{}
		var rerr error
		pp, _ := core.Call(func() { v, rerr = r.Resolve(context.Background(), sc.Expression) })
		if pp || rerr != nil {
			w.Violation("binding-exactness", "C07/binding-error", c, show(want), fmt.Sprint(rerr), f)
			return
		}
		if f == "[$keep]" {
			g := v.([]interface{})[0]
			if obs.SnapshotValues(g) != obs.SnapshotValues(wv) {
				w.Violation("binding-exactness", "C07/binding-changes-value", c, show(wv)+" "+clipS(obs.SnapshotValues(wv), 160), show(g)+" "+clipS(obs.SnapshotValues(g), 160),
					"a local read in a later evaluation must still be exactly the value bound by `$keep = "+c.Val+"` (which was that evaluation's top-level result)")
				return
			}
		}
	}
})

// RebindCase: a local that already holds a value is bound again - to an equal number written differently, to NaN, to a
// value of another kind that compares equal under some notion of equality. The second binding wins, exactly.
type RebindCase struct {
	First  string `json:"first"`
	Second string `json:"second"`
}

var rebindPairs = [][2]string{{"7", "7.000"}, {"7.000", "7"}, {"1.50", "1.5"}, {"2", "1.5 + 0.5"}, {"5", "toFloat('oops')"}, {"toFloat('oops')", "5"}, {"toFloat('x')", "toFloat('y')"}, {"0", "(0 * -1)"}, {"1e2", "100"},
	{"100", "1e2"}, {"null", "0"}, {"0", "null"}, {"0", "false"}, {"false", "0"}, {"''", "0"}, {"0", "''"}, {"1", "true"}, {"true", "1"}, {"'1'", "1"}, {"1", "'1'"}, {"d150", "1.5"}, {"1.5", "d150"}, {"[1]", "[1]"},
	{"'a'", "'a'"}, {"null", "null"}, {"nothing", "null"}, {"0.1 + 0.2", "0.3"}, {"0.30", "0.1 + 0.2"}, {"1 / 3", "0.3333333333333333333333333333333333"}, {"9007199254740993", "9007199254740992 + 1"}}

var c07Rebind = core.Mon(c07, "rebinding", func(w *core.W, c *RebindCase) {
	data := func() map[string]interface{} { return map[string]interface{}{"d150": decimal.New(150, 2), "x": 3} }
	w.Eval(2)
	w.Count("rebinding_cases")
	w.Nontrivial("rebind:" + c.First + "|" + c.Second)
	one, err, p, pv := resolveIn(data(), "$a = "+c.First+", $a = "+c.Second+", [$a, "+c.Second+"]")
	if p || err != nil {
		w.Skip("rebinding-not-evaluable")
		_ = pv
		return
	}
	check := func(v interface{}, how string) bool {
		arr, _ := v.([]interface{})
		if len(arr) != 2 || obs.SnapshotValues(arr[0]) != obs.SnapshotValues(arr[1]) {
			w.Violation("rebinding", "C07/rebinding-lost", c, "["+c.Second+" twice]", show(v), "after `$a = "+c.First+"` and then `$a = "+c.Second+"` the local must hold exactly the second value ("+how+")")
			return false
		}
		return true
	}
	if !check(one, "one evaluation") {
		return
	}
	// across evaluations on one runner, and in the caller's map
	d := data()
	r := formula.NewRunner()
	r.SetThis(d)
	var last interface{}
	for _, f := range []string{"$a = " + c.First, "$a = " + c.Second, "[$a, " + c.Second + "]"} {
		sc, perr := hostParse([]byte(f), true)
		if perr != nil {
			return
		}
		var rerr error
		if pp, _ := core.Call(func() { last, rerr = r.Resolve(context.Background(), sc.Expression) }); pp || rerr != nil {
			w.Violation("rebinding", "C07/binding-error", c, "a value", fmt.Sprint(rerr), f)
			return
		}
	}
	if !check(last, "three evaluations on one runner") {
		return
	}
	if arr, _ := last.([]interface{}); len(arr) == 2 && obs.SnapshotValues(d["$a"]) != obs.SnapshotValues(arr[1]) {
		w.Violation("rebinding", "C07/rebinding-lost", c, show(arr[1]), show(d["$a"]), "the caller's map entry $a after the second binding")
	}
})

var c07Frame = core.Mon(c07, "frame", func(w *core.W, c *EvalCase) {
	sc, err := hostParse([]byte(c.Src), true)
	if err != nil {
		return
	}
	var log []val.Invocation
	m, _ := val.Build(c.Data, &val.Env{Log: &log}).(map[string]interface{})
	before := frameSnapshot(m)
	r := formula.NewRunner()
	r.SetThis(m)
	w.Eval(1)
	var rerr error
	panicked, _ := core.Call(func() { _, rerr = r.Resolve(context.Background(), sc.Expression) })
	w.Count("frame_checks_general")
	if panicked || rerr != nil {
		w.Count("error_runs_frame_checked")
	}
	if strings.Contains(c.Src, "(") {
		w.Nontrivial(c.Src + "\x00" + core.HashStr(c.Data))
	}
	if after := frameSnapshot(m); after != before {
		w.Violation("frame", "C07/caller-data-modified", c, "unchanged", firstDiff(before, after), "caller data changed while evaluating "+c.Quoted())
	}
})

// HostMutCase: a host function that changes the slice or map it was handed (sorts it, deletes from it). What the
// evaluator hands over for a parameter is the callee's own copy: the caller's data and the formula's locals stay as
// they were.
type HostMutCase struct {
	Src string `json:"src"`
}

var c07HostMut = core.Mon(c07, "host-mutates-its-argument", func(w *core.W, c *HostMutCase) { hostMutCheck(w, "C07", c) })
var c20HostMut = core.Mon(c20, "host-mutates-its-argument", func(w *core.W, c *HostMutCase) { hostMutCheck(w, "C20", c) })

func hostMutCheck(w *core.W, id string, c *HostMutCase) {
	build := func(mutating bool) map[string]interface{} {
		return map[string]interface{}{
			"xs": []interface{}{3, 1, 2}, "ss": []string{"c", "a", "b"}, "mm": map[string]interface{}{"x": 1, "y": 2}, "nest": map[string]interface{}{"l": []interface{}{9, 8}},
			"scramble": func(xs []interface{}) (int, error) {
				if mutating {
					for i, j := 0, len(xs)-1; i < j; i, j = i+1, j-1 {
						xs[i], xs[j] = xs[j], xs[i]
					}
					if len(xs) > 0 {
						xs[0] = "scrambled"
					}
				}
				return len(xs), nil
			},
			"scrambles": func(xs []string) (int, error) {
				if mutating && len(xs) > 0 {
					xs[0] = "scrambled"
				}
				return len(xs), nil
			},
			"prune": func(m map[string]interface{}) (int, error) {
				n := len(m)
				if mutating {
					for k := range m {
						delete(m, k)
					}
					m["pruned"] = true
				}
				return n, nil
			},
			// the decimal package's idiom: the argument is used as the receiver of the result
			"quant": func(x *decimal.Big) (int, error) {
				if mutating && x != nil {
					x.Quantize(2)
					x.Add(x, decimal.New(1, 0))
				}
				return 0, nil
			},
			"n3": 3, "i64": int64(200), "f25": 2.5,
			"variadic": func(xs ...interface{}) (int, error) {
				if mutating && len(xs) > 0 {
					xs[0] = "scrambled"
				}
				return len(xs), nil
			},
		}
	}
	w.Eval(2)
	w.Count("host_mutation_cases")
	w.Nontrivial("hostmut:" + c.Src)
	quiet, e1, p1, pv1 := resolveIn(build(false), c.Src)
	data := build(true)
	before := frameSnapshot(data)
	loud, e2, p2, pv2 := resolveIn(data, c.Src)
	if o1, o2 := outcome(quiet, e1, p1, pv1), outcome(loud, e2, p2, pv2); o1 != o2 {
		w.Violation("host-mutates-its-argument", id+"/host-function-reached-the-original", c, clipS(o1, 300), clipS(o2, 300),
			"the same formula with host functions that modify their slice/map parameters gives another result: they were handed the caller's (or the local's) own container: "+c.Src)
		return
	}
	if after := frameSnapshot(data); after != before {
		w.Violation("host-mutates-its-argument", id+"/caller-data-modified", c, "unchanged", firstDiff(before, after), "a host function modifying its parameter changed the caller's data: "+c.Src)
	}
}

var hostMutFormulas = []string{"scramble(xs), xs", "[scramble(xs), xs, scramble(xs), xs]", "$a = [3, 1, 2], scramble($a), $a", "$a = xs, scramble($a), [$a, xs]", "prune(mm), mm", "prune(this), [xs, mm]",
	"$m = mm, prune($m), [$m, mm]", "prune(nest), nest.l", "scramble(nest.l), nest", "scrambles(ss), ss", "scrambles(['q', 'r']), ss", "variadic(xs...), xs", "$a = [1, 2], variadic($a...), $a", "variadic(1, 2), xs",
	"scramble([xs, xs]), xs", "$a = [5, 6], $b = $a, scramble($b), [$a, $b]", "scramble(xs) + scramble(xs), xs",
	"quant(n3), [n3, n3 + 0, 3, len('abc')]", "quant(len('abc')), [len('abc'), len('xyz'), n3]", "quant(i64), [i64, 200]", "quant(f25), f25", "quant(1 + 2), [1 + 2, 3]", "quant(3), [3, 3.0]",
	"quant(year(date(2020, 1, 1))), year(date(2020, 1, 1))", "quant(find('abc', 'c')), find('xbc', 'c')", "quant(n3), quant(n3), n3"}

var forbiddenTargets = []string{"a", "a.b", "m.b", "$a.b", "($a)", "1", "f()", "this", "true", "null", "[$a]", "$a + 1", "'$a'", "this.$a", "-$a", "!$a", "typeof $a", "m!.b", "(a)", "($a ? $b : $c)", "a + $a", "$a()", "this.a", "ctx",
	"a$", "a$b", "_$x", "price$", "new$name", "x$$", "_$", "a$.b"}

func init() { c07.Run = runC07 }

// NoMapCase: a runner that was never given a data map (or was given nil, or only single entries): locals bound by one
// evaluation are read by later evaluations of the same runner, and long lists see them element after element.
type NoMapCase struct {
	Mode int   `json:"mode"` // 0 never set, 1 SetThis(nil), 2 SetThisValue only, 3 SetThis(nil) then SetThisValue
	X    int64 `json:"x"`
	N    int   `json:"n"` // length of the long list
}

var c07NoMap = core.Mon(c07, "runner-without-map", func(w *core.W, c *NoMapCase) {
	w.Count("runner_without_map_cases")
	w.Nontrivial(fmt.Sprintf("nomap|%d|%d|%d", c.Mode, c.X, c.N))
	r := formula.NewRunner()
	switch c.Mode {
	case 1:
		r.SetThis(nil)
	case 2:
		r.SetThisValue("seed", 1)
	case 3:
		r.SetThis(nil)
		r.SetThisValue("seed", 1)
	}
	x := c.X
	long := "[$c = " + fmt.Sprint(x) + strings.Repeat(", $c", c.N-2) + ", $c = $c + 1]"
	wantLong := "[" + fmt.Sprint(x) + strings.Repeat(" "+fmt.Sprint(x), c.N-2) + " " + fmt.Sprint(x+1) + "]"
	steps := []struct{ src, want string }{
		{fmt.Sprintf("$a = %d, $a + 1", x), fmt.Sprint(x + 1)},
		{"$a", fmt.Sprint(x)},
		{"[$a, $b = $a * 2, $b]", fmt.Sprintf("[%d %d %d]", x, 2*x, 2*x)},
		{"$b - $a", fmt.Sprint(x)},
		{long, wantLong},
		{"[$c, $a, $b]", fmt.Sprintf("[%d %d %d]", x+1, x, 2*x)},
		{"$a = $a + $c, [$a, $zz]", fmt.Sprintf("[%d <nil>]", 2*x+1)},
		{"$a", fmt.Sprint(2*x + 1)},
	}
	for i, st := range steps {
		sc, err := hostParse([]byte(st.src), true)
		if err != nil {
			w.Violation("runner-without-map", "C07/unparsable", c, "parses", err.Error(), clipS(st.src, 120))
			return
		}
		var v interface{}
		var rerr error
		w.Eval(1)
		panicked, pv := core.Call(func() { v, rerr = r.Resolve(context.Background(), sc.Expression) })
		if got := plainNums(v); panicked || rerr != nil || got != st.want {
			w.Violation("runner-without-map", "C07/local-lost-between-evaluations", c, clipS(st.want, 200), clipS(fmt.Sprint(got, " ", rerr, pv), 200),
				fmt.Sprintf("evaluation %d (%s) on a runner without a caller-supplied data map", i+1, clipS(st.src, 120)))
			return
		}
	}
})

func runC07(w *core.W) {
	runC07Once(w)
	for i := 0; i < 8; i++ {
		if w.Mine(i) {
			c07TwoMaps(w, &TwoMapsCase{X: int64(7 + i*3), Rounds: 1 + i%3})
		}
	}
	ni := 0
	for mode := 0; mode < 4; mode++ {
		for _, n := range []int{3, 17, 127, 128, 129, 256, 1000, 4097} {
			if ni++; w.Mine(ni) {
				c07NoMap(w, &NoMapCase{Mode: mode, X: int64(3 + ni), N: n})
			}
		}
	}
	r := w.RNG("store")
	g := defaultSubGen(r)
	for i, n := 0, w.Pick(25000, 400000); i < n; i++ {
		c := &StoreCase{X: int64(r.Intn(20) - 5), Y: int64(r.Intn(3))}
		np := 1 + r.Intn(2)
		for p := 0; p < np; p++ {
			var t *ref.Node
			if r.Intn(2) == 0 {
				t = g.intExpr(1 + r.Intn(4))
			} else {
				t = g.anyExpr(1 + r.Intn(4))
			}
			c.Progs = append(c.Progs, ref.Print(t))
		}
		switch r.Intn(6) {
		case 0:
			c.Init = map[string]MV{"$i": mvInt(int64(r.Intn(9))), "$p": {K: "arr", A: []MV{mvInt(7)}}}
		case 1, 2:
			c.Init = map[string]MV{"$f": {K: "fn", S: "rec"}, "$g": {K: "fn", S: "rec2"}}
		}
		c07Store(w, c)
		if i%2503 == 0 {
			w.Sample("store", strings.Join(c.Progs, "  ;;  "))
		}
	}
	// classic shapes, exhaustively combined
	shapes := []string{"$i = 1, $j = 2, $i + $j", "$i = $i + 1", "$i, $i = 5, $i", "[$i = 1, $i, $i = 2, $i]", "rec($i = 3), rec($i)", "[rec(1), rec(2), rec(3)]",
		"rec($i = 1) + rec($i = $i + 1) + $i", "x ? ($i = 1) : ($j = 2)", "zz ? ($i = 1) : ($j = 2)", "($i = 2, $i) + ($i = 3, $i)", "$p = [$i = 4, $i + 1], $p", "$i = $j = $k = 9, [$i, $j, $k]",
		"$k", "this.$i", "$i = x, $i + this.x", "rec(rec(1) + rec(2))", "[[rec(1)], [rec(2), [rec(3)]]]", "rec($i = 1, $i, $i = 2, $i)", "rec(rec(1), rec(2), rec(3))", "rec($j, $j = 5, $j)", "$q = ($p = [1]), $q", "$i = 1, x = 2", "$i = 1, rec($i), m.k = 2",
		"$f = rec, $f(($f = rec2, 5), 9)", "$f = rec2, $f(($f = rec, 5), 9)", "$f(($f = rec2, 1), 2)", "$f = rec, $g = rec2, $f($g(1, 2), ($g = rec, $g(3, 4)))", "$f = rec, [$f(1, 2), ($f = rec2, 0), $f(1, 2)]",
		"$g = rec2, $g(($g = 7, $i = 3), $g)", "$f = rec, $f($f = rec2, 1) + $f(5, 6)",
		"$i = 0, rec([$i = $i + 1]...)", "$j = 5, rec([$p = $j, $j = $j + 1]...), $p", "rec2([$i = $i + 1, $i = $i + 1]...), $i", "$i = 2, rec([rec($i = $i + 1)]...) + $i"}
	for i, a := range shapes {
		for j, b := range shapes {
			if w.Mine(i*len(shapes) + j) {
				c07Store(w, &StoreCase{Progs: []string{a, b}, X: 3, Y: 0})
			}
		}
	}
	// long lists: elements and arguments evaluated in source order whatever their number
	for zi, n := range []int{2, 3, 7, 8, 9, 15, 16, 17, 31, 32, 33, 64, 65, 127, 128, 129, 256, 500} {
		if !w.Mine(zi) {
			continue
		}
		var el []string
		for k := 0; k < n; k++ {
			switch k % 3 {
			case 0:
				el = append(el, fmt.Sprintf("rec(%d)", k))
			case 1:
				el = append(el, fmt.Sprintf("($i = %d)", k))
			default:
				el = append(el, "$i")
			}
		}
		c07Store(w, &StoreCase{Progs: []string{"[" + strings.Join(el, ", ") + "]", "rec(" + strings.Join(el, ", ") + ")", "$i"}, X: 1, Y: 2})
		w.Count("long_list_cases")
	}
	// forbidden targets in several positions
	for i, t := range forbiddenTargets {
		for j, tmpl := range []string{"%s = 1", "$z = 1, %s = 2", "[%s = 1]", "rec(%s = 1)", "true ? (%s = 1) : 0", "(%s = 1)", "%s = $a = 1", "$b = %s = 1"} {
			if w.Mine(i*8 + j) {
				c07Forbidden(w, &ForbiddenCase{Src: fmt.Sprintf(tmpl, t), AssignsSA: strings.Contains(tmpl, "$a =")})
			}
		}
	}
	for i, f := range hostMutFormulas {
		if w.Mine(i) {
			c07HostMut(w, &HostMutCase{Src: f})
		}
	}
	for i, pr := range rebindPairs {
		if w.Mine(i) {
			c07Rebind(w, &RebindCase{First: pr[0], Second: pr[1]})
		}
	}
	// exactness of bindings
	bi := 0
	for _, v := range bindValues {
		for _, rd := range []string{"[$a = V]", "[$a = V, $a]", "$a = V, [$a]", "[($a = V), $a, $a]", "$a = $b = V, [$a, $b]", "[true ? ($a = V) : 0, $a]", "$a = V, $b = $a, [$b]", "[fid($a = V), $a]"} {
			bi++
			if w.Mine(bi) {
				c07Bind(w, &BindCase{Val: v, Read: rd})
			}
		}
	}
	// frame condition on general programs over every builtin and data kind
	cfg := fixNums(EvalSyntax())
	r = w.RNG("frame")
	datas := make([]val.V, 4)
	for i, n := 0, w.Pick(15000, 250000); i < n; i++ {
		if i%64 == 0 {
			for j := range datas {
				datas[j] = StdData(r)
			}
		}
		src := ref.Print(NoSelfStore(cfg.Node(r, 1+r.Intn(5))))
		c := &EvalCase{Src: src, Data: datas[r.Intn(len(datas))], Gen: "frame"}
		c07Frame(w, c)
		if i%5003 == 0 {
			w.Sample("frame", c.Quoted())
		}
	}
	// every callable x every data name, handed over directly, repeatedly, through a local and spread: whatever a
	// call or an operator does with a container or a number of the caller (convert it for a parameter, normalise
	// it, truncate it, negate it), it does on a copy
	names := append(append([]string{}, stdNames...), "m.k", "m.b", "m.name", "st.M")
	callT := []string{"%f(%x)", "%f(%x, %x)", "%f(1, %x)", "%f(%x...)", "%f(1, %x...)", "%f(%x, %x, %x, %x)", "$v = %x, %f($v...)", "$v = %x, [%f($v), %f($v, $v, $v, $v), $v]", "%f([%x][0]...)",
		// an operator applied directly to the call (what the call hands back may be its argument itself)
		"-%f(%x)", "-%f(%x, 1)", "~%f(%x)", "!%f(%x)", "+%f(%x)", "%f(%x) + 1", "%f(%x, 0) * 2 - %f(%x, 0)", "1 - %f(%x)", "-%f(%f(%x))", "[-%f(%x), %x]", "$v = %x, -%f($v, 0), $v"}
	opT := []string{"~%x", "-%x", "+%x", "!%x", "%x + %x", "%x * 1", "%x % 2", "%x & %x", "%x | 1", "%x ^ %x", "[%x][0]", "%x ?? 1", "%x == %x", "%x < 1", "typeof %x", "%x ? %x : %x", "$v = %x, ~$v, -$v, $v", "[%x, %x]", "%x + ''"}
	fd := StdData(w.RNG("frame-data"))
	idx := 0
	for _, f := range append(append([]string{}, stdFuncs...), safeBuiltins()...) {
		for _, x := range names {
			for _, t := range callT {
				idx++
				if w.Mine(idx) {
					c07Frame(w, &EvalCase{Src: strings.ReplaceAll(strings.ReplaceAll(t, "%f", f), "%x", x), Data: fd, Gen: "frame-call"})
					w.Count("frame_checks_call_templates")
				}
			}
		}
	}
	for _, x := range names {
		for _, t := range opT {
			idx++
			if w.Mine(idx) {
				c07Frame(w, &EvalCase{Src: strings.ReplaceAll(t, "%x", x), Data: fd, Gen: "frame-op"})
			}
		}
	}
}

// OnceCase: an assignment standing as an argument of a builtin (or host function) is evaluated exactly once, whatever the
// function does with the value - also when the value is not of the kind the parameter wants.
type OnceCase struct {
	Fn    string `json:"fn"`
	Args  int    `json:"args"`
	Start string `json:"start"` // initial value of the counter local (number, numeric text, text)
}

var c07Once = core.Mon(c07, "argument-evaluated-once", func(w *core.W, c *OnceCase) {
	w.Count("argument_once_cases")
	w.Nontrivial("once:" + core.HashStr(c))
	var args []string
	for i := 0; i < c.Args; i++ {
		args = append(args, "$k = $k + 1")
	}
	src := "$k = 0, $v = " + c.Start + ", [" + c.Fn + "(" + strings.Join(args, ", ") + ")], $k"
	if c.Start != "0" {
		// the argument's VALUE is of another kind (text, null, a list), the counter still advances once per argument
		for i := range args {
			args[i] = "($k = $k + 1, $v)"
		}
		src = "$k = 0, $v = " + c.Start + ", [" + c.Fn + "(" + strings.Join(args, ", ") + ")], $k"
	}
	data := map[string]interface{}{"fone": func(x interface{}) (interface{}, error) { return x, nil }, "fstr": func(s string) (string, error) { return s, nil }, "fvar": func(xs ...interface{}) (int, error) { return len(xs), nil }}
	v, err, panicked, pv := resolveInOnce(data, src)
	w.Eval(1)
	if panicked {
		w.Violation("argument-evaluated-once", "C07/escaped-panic", c, fmt.Sprint(c.Args), fmt.Sprint(pv), src)
		return
	}
	if err != nil {
		// the call was refused (count or kind): how far the arguments got is not compared, but the counter never exceeds their number
		w.Count("argument_once_refused")
		k, _ := data["$k"].(*decimal.Big)
		if k != nil {
			if n, ok := k.Int64(); !ok || n > int64(c.Args) || n < 0 {
				w.Violation("argument-evaluated-once", "C07/argument-evaluated-more-than-once", c, fmt.Sprintf("$k <= %d", c.Args), k.String(), src+" (refused: "+err.Error()+")")
			}
		}
		return
	}
	if got := plainNums(v); got != fmt.Sprint(c.Args) {
		w.Violation("argument-evaluated-once", "C07/argument-evaluated-more-than-once", c, fmt.Sprint(c.Args), got, src+": every written argument is evaluated exactly once")
	}
})

func runC07Once(w *core.W) {
	i := 0
	fns := append(append([]string{}, gen.Builtins...), "fone", "fstr", "fvar")
	for _, fn := range fns {
		if fn == "now" || fn == "toDay" {
			continue
		}
		for args := 1; args <= 3; args++ {
			for _, start := range []string{"0", "'12'", "'ab'", "null", "[1, 2]", "2.5"} {
				if i++; w.Mine(i) {
					c07Once(w, &OnceCase{Fn: fn, Args: args, Start: start})
				}
			}
		}
	}
}

// TwoMapsCase: one runner serves two records in turn. The locals an evaluation bound sit in the map it ran against and are
// there again when that map comes back; switching maps neither removes nor copies anything.
type TwoMapsCase struct {
	X      int64 `json:"x"`
	Rounds int   `json:"rounds"`
}

var c07TwoMaps = core.Mon(c07, "two-maps-in-turn", func(w *core.W, c *TwoMapsCase) {
	w.Count("two_maps_cases")
	w.Nontrivial(fmt.Sprintf("twomaps|%d|%d", c.X, c.Rounds))
	m1 := map[string]interface{}{"price": int(c.X), "$keep": "k1"}
	m2 := map[string]interface{}{"price": int(c.X) * 10}
	r := formula.NewRunner()
	eval := func(src string) string {
		sc, err := hostParse([]byte(src), true)
		if err != nil {
			return "PARSE " + err.Error()
		}
		var v interface{}
		var rerr error
		w.Eval(1)
		p, pv := core.Call(func() { v, rerr = r.Resolve(context.Background(), sc.Expression) })
		if p || rerr != nil {
			return fmt.Sprint("ERROR ", rerr, pv)
		}
		return plainNums(v)
	}
	bad := func(step string, want, got interface{}) {
		w.Violation("two-maps-in-turn", "C07/locals-do-not-stay-with-their-map", c, want, got, step)
	}
	r.SetThis(m1)
	if got := eval("$a = price + 1"); got != fmt.Sprint(c.X+1) {
		bad("$a = price + 1 on the first map", c.X+1, got)
		return
	}
	for round := 0; round < c.Rounds; round++ {
		r.SetThis(m2)
		if got := eval("[$a, $keep, $b = price + 2]"); got != fmt.Sprintf("[<nil> <nil> %d]", c.X*10+2) {
			bad("[$a, $keep, $b = price + 2] on the second map", fmt.Sprintf("[<nil> <nil> %d]", c.X*10+2), got)
			return
		}
		if _, has := m1["$a"]; !has || m1["$keep"] != "k1" || len(m1) != 3 {
			bad("the first map after the runner moved to the second", "price, $keep, $a", fmt.Sprint(m1))
			return
		}
		r.SetThis(m1)
		if got := eval("[$a, $keep, $b, price]"); got != fmt.Sprintf("[%d k1 <nil> %d]", c.X+1, c.X) {
			bad("[$a, $keep, $b, price] back on the first map", fmt.Sprintf("[%d k1 <nil> %d]", c.X+1, c.X), got)
			return
		}
		if _, has := m2["$b"]; !has || len(m2) != 2 {
			bad("the second map after the runner moved back", "price, $b", fmt.Sprint(m2))
			return
		}
		r.SetThis(m1) // the same map again: nothing changes
		if got := eval("$a"); got != fmt.Sprint(c.X+1) {
			bad("$a after the same map was set again", c.X+1, got)
			return
		}
	}
})
