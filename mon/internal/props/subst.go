package props

import (
	"fmt"
	"strings"

	"github.com/ericlagergren/decimal"

	"verifmon/internal/core"
	"verifmon/internal/obs"
	"verifmon/internal/ref"
)

// substTemplates: contexts in which an expression and the literal spelling of its value must behave alike (a number is
// a number wherever it came from: a builtin, an operator, a host function, the data). %s is the expression or the
// literal, %v always the literal.
var substTemplates = []string{"%s + 1", "1 + %s", "%s * 3", "%s - 0.5", "%s / 4", "%s % 7", "7 % %s", "-%s", "+%s", "%s == %v", "%s === %v", "%v === %s", "%s != %v", "%s < %v", "%s <= %v", "%s >= %v",
	"%s > 0", "0 > %s", "!%s", "!!%s", "%s ? 1 : 2", "%s && 5", "%s || 5", "%s ?? 5", "max(%s, 0)", "min(%s, %v)", "max(%v, %s)", "abs(%s)", "floor(%s)", "ceil(%s)", "round(%s)", "toInt(%s)",
	"[%s, %s]", "typeof %s", "finite(%s)", "%s * %s", "%s - %s", "%s + %s === %v + %v", "sqrt(%s * %s) >= 0", "%s & 255", "%s | 1", "%s ^ %s", "~%s"}

// substitutionCheck evaluates every template with src and with the literal that spells src's value d exactly, and
// compares. It reports at most one violation (under monitor mon of property id, replayable through case c).
func substitutionCheck(w *core.W, mon, id string, c interface{}, src string, d *decimal.Big, data map[string]interface{}) bool {
	x := obs.DecOf(d)
	if !x.Finite() || x.Digits() > 34 {
		return true
	}
	lit := x.Coef.String()
	if x.Exp != 0 {
		lit += fmt.Sprintf("e%d", x.Exp)
	}
	if x.Neg {
		lit = "(-" + lit + ")" // exact for up to 34 digits
	}
	w.Count("substitution_checks")
	for _, t := range substTemplates {
		if strings.ContainsAny(t, "&|^~") && (!x.IsInt() || x.Digits()+x.Exp > 15) {
			continue
		}
		a := strings.ReplaceAll(strings.ReplaceAll(t, "%s", "("+src+")"), "%v", lit)
		b := strings.ReplaceAll(strings.ReplaceAll(t, "%s", lit), "%v", lit)
		va, ea, pa, pva := evalArray1("["+a+"]", data)
		vb, eb, pb, pvb := evalArray1("["+b+"]", data)
		w.Eval(2)
		same := false
		switch {
		case pa || pb || ea != nil || eb != nil:
			same = outcome(nil, ea, pa, pva) == outcome(nil, eb, pb, pvb)
		default:
			da, oka := elem0(va)
			db, okb := elem0(vb)
			if oka && okb {
				xa, xb := obs.DecOf(da), obs.DecOf(db)
				same = sameNumber(xa, xb)
			} else {
				same = obs.SnapshotValues(va) == obs.SnapshotValues(vb) || numericallySame(va, vb)
			}
		}
		if !same {
			w.Violation(mon, id+"/value-behaves-differently-from-its-literal", c, clipS(outcome(vb, eb, pb, pvb), 200), clipS(outcome(va, ea, pa, pva), 200),
				fmt.Sprintf("%s evaluates to %s, yet %q differs from %q", src, lit, a, b))
			return false
		}
	}
	return true
}

func sameNumber(a, b ref.Dec) bool {
	switch {
	case a.IsNaN() || b.IsNaN():
		return a.IsNaN() && b.IsNaN()
	case !a.Finite() || !b.Finite():
		return !a.Finite() && !b.Finite() && a.Neg == b.Neg
	}
	return a.Equal(b)
}

// numericallySame compares arrays of numbers element-wise by value.
func numericallySame(a, b interface{}) bool {
	aa, ok1 := a.([]interface{})
	bb, ok2 := b.([]interface{})
	if !ok1 || !ok2 || len(aa) != len(bb) {
		return false
	}
	for i := range aa {
		if x, ok := aa[i].([]interface{}); ok {
			if !numericallySame(x, bb[i]) {
				return false
			}
			continue
		}
		da, oka := aa[i].(*decimal.Big)
		db, okb := bb[i].(*decimal.Big)
		if !oka || !okb || da == nil || db == nil {
			if obs.SnapshotValues(aa[i]) != obs.SnapshotValues(bb[i]) {
				return false
			}
			continue
		}
		xa, xb := obs.DecOf(da), obs.DecOf(db)
		if !sameNumber(xa, xb) {
			return false
		}
	}
	return true
}
