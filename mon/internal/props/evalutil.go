package props

import (
	"context"
	"encoding/json"
	"fmt"
	"math/rand"
	"reflect"
	"regexp"
	"strings"
	"time"

	"github.com/aundis/formula"
	"github.com/ericlagergren/decimal"

	"verifmon/internal/core"
	"verifmon/internal/gen"
	"verifmon/internal/obs"
	"verifmon/internal/ref"
	"verifmon/internal/val"
)

// EvalCase: a formula and the data map it is evaluated against.
type EvalCase struct {
	Src  string `json:"src"`
	Data val.V  `json:"data"`
	Gen  string `json:"gen,omitempty"`
}

var crumbCache = map[*val.KV][]byte{}

// Crumb renders the case as JSON cheaply (the data part is cached per data map).
func (c *EvalCase) Crumb() []byte {
	var key *val.KV
	if len(c.Data.M) > 0 {
		key = &c.Data.M[0]
	}
	d, ok := crumbCache[key]
	if !ok || key == nil {
		d, _ = json.Marshal(c.Data)
		if len(crumbCache) > 64 {
			crumbCache = map[*val.KV][]byte{}
		}
		crumbCache[key] = d
	}
	sb, _ := json.Marshal(c.Src)
	out := make([]byte, 0, len(d)+len(sb)+32)
	out = append(out, `{"src":`...)
	out = append(out, sb...)
	out = append(out, `,"data":`...)
	out = append(out, d...)
	out = append(out, '}')
	return out
}

// NoSelfStore rewrites a tree so that the data map itself is never stored into a
// local ("$v = this" makes the data cyclic; see known_findings.json).
func NoSelfStore(n *ref.Node) *ref.Node {
	var fix func(n *ref.Node, inRHS bool)
	fix = func(n *ref.Node, inRHS bool) {
		if inRHS && n.K == "kw" && n.S == "this" {
			n.K, n.S = "id", "m"
		}
		for i, k := range n.Kids {
			fix(k, inRHS || (n.K == "bin" && n.Op == "=" && i == 1))
		}
	}
	fix(n, false)
	return n
}

func (c EvalCase) Quoted() string { return fmt.Sprintf("%q", clipS(c.Src, 160)) }

// EvalOut is what one evaluation produced.
type EvalOut struct {
	ParseErr error
	Panicked bool
	PanicVal interface{}
	Val      interface{}
	Err      error
	Visits   int64
	Nodes    int
	Log      []val.Invocation
	Map      map[string]interface{}
	Src      *formula.SourceCode
}

type evalOpts struct {
	rawArray   bool // (unused placeholder for symmetry)
	ctx        context.Context
	noMap      bool
	zeroRunner bool // a Runner the host declared itself (`new(formula.Runner)`) instead of asking NewRunner for one
}

// evaluate parses src, builds data, evaluates once in a fresh runner.
func evaluate(src string, data val.V, opts *evalOpts) *EvalOut {
	out := &EvalOut{}
	sc, err := hostParse([]byte(src), true)
	if err != nil {
		out.ParseErr = err
		return out
	}
	out.Src = sc
	out.Nodes = obs.CountNodes(sc.Expression)
	env := &val.Env{Log: &out.Log}
	r := formula.NewRunner()
	if opts != nil && opts.zeroRunner {
		r = new(formula.Runner)
	}
	if opts == nil || !opts.noMap {
		m, _ := val.Build(data, env).(map[string]interface{})
		out.Map = m
		r.SetThis(m)
	}
	ctx, release := hostCtx(src)
	defer release()
	if opts != nil && opts.ctx != nil {
		ctx = opts.ctx
	}
	var tc obs.TickCounter
	if obs.HookAvailable() {
		obs.SetHook(tc.Hook)
	}
	out.Panicked, out.PanicVal = core.Call(func() { out.Val, out.Err = r.Resolve(ctx, sc.Expression) })
	obs.SetHook(nil)
	out.Visits = tc.Resolve
	if !out.Panicked && out.Err == nil && (opts == nil || !opts.noMap) {
		// the second evaluation runs over its own top-level map but the same nested objects (addresses that fmt formats
		// into texts stay what they were; evaluation does not modify nested data, C07)
		m2 := map[string]interface{}{}
		for k, v := range out.Map {
			m2[k] = v
		}
		if e2 := secondEvaluation(sc, src, ctx, m2, outcome(out.Val, nil, false, nil)); e2 != nil {
			out.Val, out.Err = nil, e2
		}
	}
	return out
}

type hostCtxKey struct{}

// hostCtx gives the evaluation the kind of context a host really passes (decided by the formula text, so that a
// case replays identically): the background context, a cancellable one, one with a (far) deadline, one carrying
// values. None of them is ever cancelled while the evaluation runs.
func hostCtx(src string) (context.Context, func()) {
	if strings.Contains(src, "ctx") {
		// the formula can see the context (keyword ctx): keep it the same value in every evaluation that is compared
		return context.Background(), func() {}
	}
	switch core.Hash64(src) % 4 {
	case 1:
		return context.WithCancel(context.Background())
	case 2:
		return context.WithTimeout(context.Background(), 6*time.Hour)
	case 3:
		ctx, cancel := context.WithCancel(context.WithValue(context.Background(), hostCtxKey{}, "request-17"))
		return ctx, cancel
	}
	return context.Background(), func() {}
}

// hostCtxFor is hostCtx for a tree whose text is not at hand.
func hostCtxFor(sc *formula.SourceCode) (context.Context, func()) {
	uses := false
	obs.Walk(sc.Expression, func(e formula.Expression) {
		if l, ok := e.(*formula.LiteralExpression); ok && l.Token == formula.SK_CtxKeyword {
			uses = true
		}
	})
	if uses {
		return context.Background(), func() {}
	}
	return hostCtx(fmt.Sprint(len(sc.Text)))
}

var sideEffectRE = regexp.MustCompile(`(^|[^=!<>])=([^=]|$)|\bnow\b|\btoDay\b|\brec\(|\bt\(|\bhostfn\(`)

// secondEvaluation evaluates an already evaluated tree once more in a fresh runner (formulas with side
// effects of their own, clock functions and recording calls excepted): a parsed formula is immutable, so
// the second outcome must be the first. A difference comes back as an error, which every value-expecting
// monitor reports as a violation of its own property (with its own replayable case).
func secondEvaluation(sc *formula.SourceCode, src string, ctx context.Context, data map[string]interface{}, first string) error {
	return secondEvaluationOn(nil, sc, src, ctx, data, first)
}

// secondEvaluationOn additionally repeats the evaluation on the runner that did the first one (a side-effect-free
// formula must give the same outcome again on the same runner: no per-runner memo may leak).
func secondEvaluationOn(same *formula.Runner, sc *formula.SourceCode, src string, ctx context.Context, data map[string]interface{}, first string) error {
	if sideEffectRE.MatchString(src) {
		return nil
	}
	runners := []*formula.Runner{formula.NewRunner()}
	if data != nil {
		runners[0].SetThis(data)
	}
	if same != nil {
		runners = append(runners, same)
	}
	for i, r := range runners {
		var v interface{}
		var err error
		p, pv := core.Call(func() { v, err = r.Resolve(ctx, sc.Expression) })
		if second := outcome(v, err, p, pv); second != first {
			where := "in a fresh runner"
			if i == 1 {
				where = "on the same runner"
			}
			return fmt.Errorf("evaluating the same parsed formula again %s differs from the first evaluation: first %s, then %s", where, clipS(first, 200), clipS(second, 200))
		}
	}
	return nil
}

// panicClass shortens a panic value to a stable class for signatures.
func panicClass(v interface{}) string {
	s := fmt.Sprint(v)
	for _, cut := range []string{" [", ": ", " ("} {
		if i := strings.Index(s, cut); i > 8 {
			s = s[:i]
		}
	}
	if len(s) > 60 {
		s = s[:60]
	}
	return s
}

// show renders a result value compactly.
func show(v interface{}) string {
	switch x := v.(type) {
	case nil:
		return "null"
	case *decimal.Big:
		if x == nil {
			return "(*decimal.Big)(nil)"
		}
		return "dec:" + x.String()
	case float64:
		return fmt.Sprintf("f64:%v", x)
	case string:
		return fmt.Sprintf("%q", clipS(x, 80))
	case []interface{}:
		var parts []string
		for i, e := range x {
			if i >= 8 {
				parts = append(parts, "...")
				break
			}
			parts = append(parts, show(e))
		}
		return "[" + strings.Join(parts, ", ") + "]"
	case error:
		return "error:" + x.Error()
	}
	// containers are rendered by the cycle-safe observer (a data map may contain itself after `$s = this`)
	switch reflect.ValueOf(v).Kind() {
	case reflect.Map, reflect.Slice, reflect.Ptr, reflect.Struct, reflect.Array, reflect.Interface:
		return clipS(fmt.Sprintf("%T:", v)+obs.SnapshotValues(v), 100)
	}
	return clipS(fmt.Sprintf("%T:%v", v, v), 100)
}

// ---- the standard data map of the evaluation monitors ---------------------------------

// StdData builds a data map with a fixed set of names and random values of the
// expected broad kind (so that programs over these names are mostly meaningful)
// plus a few entries of random kinds.
func StdData(r *rand.Rand) val.V {
	num := func() val.V {
		switch r.Intn(6) {
		case 0:
			return val.Int("int", int64(r.Intn(21)-10))
		case 1:
			return val.F64(float64(r.Intn(400)-200) / 8)
		case 2:
			return val.Int("int64", int64(r.Intn(2000000)-1000000))
		case 3:
			return val.Int("int32", int64(r.Intn(100)))
		case 4:
			return val.F64([]float64{0.1, 0.3, 2.5, -0.0, 1e15, 123456.789, 0.5}[r.Intn(7)])
		default:
			return val.Int("int", int64(r.Intn(5)))
		}
	}
	str := func() val.V {
		return val.Str([]string{"", "a", "abc", "abab", "hello world", " x ", "中文", "0", "12.5", "A,b"}[r.Intn(10)])
	}
	kv := []val.KV{
		{K: "n0", V: num()}, {K: "n1", V: num()}, {K: "s0", V: str()}, {K: "s1", V: str()}, {K: "b0", V: val.Bool(r.Intn(2) == 0)},
		{K: "z", V: val.Nil()},
		{K: "m", V: val.Map(val.KV{K: "k", V: num()}, val.KV{K: "name", V: str()}, val.KV{K: "b", V: val.Map(val.KV{K: "k", V: num()})}, val.KV{K: "f", V: val.Fn("id")})},
		{K: "tm", V: val.TMap("mapsi", val.KV{K: "k", V: val.Int("int", 0)}, val.KV{K: "b", V: val.Int("int", 2)})},
		{K: "arr", V: val.List(num(), str(), val.Nil())},
		{K: "strs", V: val.Typed("strs", str(), str())},
		{K: "ms", V: val.Typed("maps", val.Map(val.KV{K: "name", V: str()}), val.Map(val.KV{K: "name", V: str()}))},
		{K: "st", V: val.Struct(val.KV{K: "A", V: val.Int("int", 3)}, val.KV{K: "S", V: str()}, val.KV{K: "priv", V: val.Int("int", 1)}, val.KV{K: "M", V: val.Map(val.KV{K: "k", V: num()})})},
		{K: "pst", V: val.PStruct(val.KV{K: "A", V: val.Int("int", 4)}, val.KV{K: "S", V: str()})},
		{K: "nilp", V: val.V{K: "nilptr"}}, {K: "nd", V: val.V{K: "nildec"}}, {K: "__u", V: num()}, {K: "_u", V: str()}, {K: "ym", V: val.V{K: "yamlmap", S: "yaml"}},
		// decimals whose coefficient does not fit a machine word (their digits live in shared storage when the struct is copied)
		{K: "dw", V: val.Dec([]string{"12345678901234567890123.75", "3.00000000000000000000001", "99999999999999999999.5", "-18446744073709551616.25"}[r.Intn(4)])},
		{K: "se", V: val.V{K: []string{"selfembed", "selfembed1"}[r.Intn(2)], S: "node"}}, {K: "mu", V: val.V{K: "mutual", S: "left"}},
		{K: "ra", V: val.V{K: "rowA", M: []val.KV{{K: "Qty", V: val.Int("int", 7)}, {K: "Price", V: val.Int("int", 3)}, {K: "Note", V: val.Str("n")}}}},
		{K: "rb", V: val.V{K: "rowB", M: []val.KV{{K: "Qty", V: val.Int("int", 2)}, {K: "Price", V: val.Int("int", 50)}}}},
		{K: "z.k", V: val.Int("int", 42)}, {K: "undefinedname.name", V: val.Str("flat")}, {K: "m.missing", V: val.Int("int", 7)}, {K: "nilp.k", V: val.Str("flat2")}, {K: "$v.k", V: val.Int("int", 9)},
		{K: "t0", V: val.Time(int64(r.Intn(2e9)), 0, []string{"UTC", "Local", "Asia/Shanghai"}[r.Intn(3)])},
		{K: "d0", V: val.Dec([]string{"1.50", "0", "-2.25", "1E+3", "0.1"}[r.Intn(5)])},
		{K: "u0", V: val.Uint("uint8", uint64(r.Intn(200)))},
		{K: "fid", V: val.Fn("id")}, {K: "ferr", V: val.Fn("err")}, {K: "fsum", V: val.Fn("sum")}, {K: "fcat", V: val.Fn("cat")},
		{K: "fnums", V: val.Fn("nums")}, {K: "fstrs", V: val.Fn("strs")}, {K: "fctx", V: val.Fn("ctx")}, {K: "fnoret", V: val.Fn("noret")},
		{K: "fone", V: val.Fn("one")}, {K: "fpanic", V: val.Fn("panic")}, {K: "fnildec", V: val.Fn("retnildec")}, {K: "fnilptr", V: val.Fn("retnilptr")}, {K: "fanys", V: val.Fn("anys")}, {K: "ftime", V: val.Fn("time")}, {K: "fmap", V: val.Fn("mapf")}, {K: "fcurry", V: val.Fn("curry")},
	}
	// decimals built by the host without a context (mantissa and scale) and in a 60-digit context of its own
	kv = append(kv, val.KV{K: "draw", V: val.V{K: "decraw", S: "-12345678901234567.89"}}, val.KV{K: "d60", V: val.V{K: "dec60", S: "1234567890123456789012345678901234567890123.5"}})
	// sibling host functions (closures of one literal, method values of one method)
	kv = append(kv, val.KV{K: "fmk1", V: val.Fn("mk:one")}, val.KV{K: "fmk2", V: val.Fn("mk:two")}, val.KV{K: "mget1", V: val.Fn("meth:p1")}, val.KV{K: "mget2", V: val.Fn("meth:p2")},
		// host functions whose parameter types are different structs printing the same type name
		val.KV{K: "frowA", V: val.Fn("rowfn:A")}, val.KV{K: "frowB", V: val.Fn("rowfn:B")})
	// odd kinds under fixed names
	kv = append(kv, val.KV{K: "x0", V: val.RandValue(r, 2)}, val.KV{K: "x1", V: val.RandValue(r, 3)}, val.KV{K: "x2", V: val.RandScalar(r)}, val.KV{K: "odd", V: val.OddKind(r)}, val.KV{K: "odd2", V: val.OddKind(r)})
	return val.Map(kv...)
}

var stdNames = []string{"n0", "n1", "s0", "s1", "b0", "z", "m", "tm", "arr", "strs", "ms", "st", "pst", "nilp", "nd", "ra", "rb", "t0", "d0", "u0", "x0", "x1", "x2", "odd", "odd2", "undefinedname", "$v", "$w", "se", "mu", "__u", "_u", "ym", "dw"}
var stdFuncs = []string{"fid", "ferr", "fsum", "fcat", "fnums", "fstrs", "fctx", "fnoret", "fone", "fpanic", "fanys", "ftime", "fmap", "fnildec", "fnilptr", "fcurry", "undefinedfn", "n0", "s0", "m", "z"}
var stdMembers = []string{"k", "name", "b", "f", "A", "S", "M", "priv", "Z", "missing", "Qty", "Price", "Note", "Name", "L", "R", "SelfNode", "MutRight", "true", "null", "name"}

// safeBuiltins: every builtin except lpad/rpad (whose length argument is generated
// structurally, bounded by 10^6 as the statement says).
func safeBuiltins() []string {
	var out []string
	for _, b := range gen.Builtins {
		if b != "lpad" && b != "rpad" {
			out = append(out, b)
		}
	}
	return out
}

// EvalSyntax: programs over the standard data names, all operators and builtins.
func EvalSyntax() *gen.ProgCfg {
	return &gen.ProgCfg{
		Idents:  append(append([]string{}, stdNames...), "abs", "len", "now"),
		Members: stdMembers,
		Funcs:   append(append([]string{}, stdFuncs...), safeBuiltins()...),
		Nums:    []string{"0", "1", "2", "3", "-1", "10", "2.5", "0.1", ".5", "1e3", "100", "7", "1000000", "0.0", "12"}[:],
		Strs:    []string{"'a'", "'abc'", "''", "'0'", "'12.5'", "'x y'", "'('", "'^a+$'", "'UTC'", "'2006-01-02'", "'中'", "'k'", "','"},
		Kws:     []string{"null", "true", "false", "this", "ctx"},
		BinOps:  ref.BinOps, PreOps: ref.PreOps,
		WBin: 24, WPre: 8, WTypeof: 3, WCond: 6, WSel: 10, WCall: 22, WArr: 6, WParen: 4, WAssign: 4, WComma: 3,
		AssignTargets: []string{"$v", "$w", "n0", "m"}, SpreadPct: 15, AssertPct: 25, MaxList: 3, PathCallee: true,
	}
}

func fixNums(cfg *gen.ProgCfg) *gen.ProgCfg {
	// "-1" is not a literal; keep spellings lexically valid
	var nums []string
	for _, n := range cfg.Nums {
		if !strings.HasPrefix(n, "-") {
			nums = append(nums, n)
		}
	}
	cfg.Nums = nums
	return cfg
}
