package props

import (
	"context"
	"fmt"
	"math"
	"math/big"
	"math/rand"
	"strconv"
	"strings"

	"github.com/aundis/formula"
	"github.com/ericlagergren/decimal"

	"verifmon/internal/core"
	"verifmon/internal/obs"
	"verifmon/internal/ref"
)

var c04 = core.Register(&core.Prop{
	ID:    "C04",
	Title: "Decimal arithmetic is exact",
	Rule: "operand pairs of 1-34 significant digits, exponents within +-30, both signs, in varied spellings, under + - * / %; parenthesised chains of <= 4 operations; " +
		"float64/int/int32/int64 data values incl. > 2^53; float64 hand-back of results; values received by a host function; " +
		"non-trivial = result needed rounding, or operands had different exponents, or |value| > 2^53, or a data value with >= 16 digits; distinct by case text",
	Assumptions: []string{
		"'%' with an integer quotient of more than 34 digits is 'division impossible' in IEEE 754 decimal128 (the anchor's own context): NaN or the exact remainder are both accepted there and counted",
		"division by zero and non-finite results are outside the quantifier",
		"the implementation's numbers are read through decimal.Big.Decompose (sign, coefficient, exponent)",
	},
	Shards: func(tier string) int { return pickTier(tier, 8, 16) },
	Floors: func(c map[string]int64, tier string) []string {
		var out []string
		for _, k := range []string{"op:+", "op:-", "op:*", "op:/", "op:%", "rounded_results", "exact_ties", "chain_cases", "minimal_parentheses_chains", "disturbers_evaluated", "data_float_cases", "data_values_below_top_level", "operands_entering_as_text", "data_values_under_operators", "data_values_through_setthisvalue", "data_int_cases", "handback_exact_domain", "handback_ulp_domain", "host_received"} {
			if c[k] == 0 {
				out = append(out, "coverage floor: no "+k)
			}
		}
		return out
	},
})

// AExpr is an arithmetic expression over decimal literals.
type AExpr struct {
	Lit string `json:"lit,omitempty"` // signed decimal text
	// Text: the operand enters as text through toFloat('...') (decimal numbers kept as strings by the host)
	Text bool   `json:"text,omitempty"`
	Op   string `json:"op,omitempty"`
	L    *AExpr `json:"l,omitempty"`
	R    *AExpr `json:"r,omitempty"`
}

var aPrec = map[string]int{"+": 9, "-": 9, "*": 10, "/": 10, "%": 10}

// MinSrc prints with the parentheses precedence and left associativity require, and no others.
func (e *AExpr) MinSrc() string {
	if e.Op == "" {
		return e.Src()
	}
	l, r := e.L.MinSrc(), e.R.MinSrc()
	if e.L.Op != "" && aPrec[e.L.Op] < aPrec[e.Op] {
		l = "(" + l + ")"
	}
	if e.R.Op != "" && aPrec[e.R.Op] <= aPrec[e.Op] {
		r = "(" + r + ")"
	}
	return l + " " + e.Op + " " + r
}

func (e *AExpr) Src() string {
	if e.Op == "" {
		if e.Text {
			return "toFloat('" + strings.ReplaceAll(e.Lit, "_", "") + "')"
		}
		if strings.HasPrefix(e.Lit, "-") {
			return "(" + e.Lit + ")"
		}
		return e.Lit
	}
	return "(" + e.L.Src() + " " + e.Op + " " + e.R.Src() + ")"
}

type modelOut struct {
	V       ref.Dec
	Skip    string // outside the quantifier
	RemOpen bool   // remainder with > 34 digit quotient: NaN or exact
	Rounded bool
	Tie     bool
	DiffExp bool
}

func applyOp(op string, a, b ref.Dec) modelOut {
	var out modelOut
	out.DiffExp = a.Exp != b.Exp
	var exact ref.Dec
	switch op {
	case "+":
		exact = ref.Add(a, b)
	case "-":
		exact = ref.Sub(a, b)
	case "*":
		exact = ref.Mul(a, b)
	case "/":
		if b.IsZero() {
			out.Skip = "division by zero"
			return out
		}
		out.V = ref.Quo(a, b, 34)
		// rounded unless exact
		out.Rounded = !ref.Mul(out.V, b).Equal(a)
		return out
	case "%":
		if b.IsZero() {
			out.Skip = "remainder by zero"
			return out
		}
		r, qd := ref.Rem(a, b)
		out.V = r
		if qd > 34 {
			out.RemOpen = true
		}
		return out
	}
	out.V = exact.RoundHalfEven(34)
	out.Rounded = exact.Digits() > 34
	if out.Rounded {
		// tie: the dropped digits are exactly 5000...
		shift := exact.Digits() - 34
		s := exact.Coef.String()
		rest := s[len(s)-shift:]
		out.Tie = rest[0] == '5' && strings.Trim(rest[1:], "0") == ""
	}
	return out
}

func (e *AExpr) model() modelOut {
	if e.Op == "" {
		d, ok := ref.ParseDec(strings.ReplaceAll(e.Lit, "_", "")) // single underscores between digits are separators
		if !ok {
			return modelOut{Skip: "bad literal " + e.Lit}
		}
		return modelOut{V: d}
	}
	l := e.L.model()
	if l.Skip != "" || l.RemOpen {
		if l.RemOpen {
			l.Skip = "open remainder inside a chain"
		}
		return l
	}
	r := e.R.model()
	if r.Skip != "" || r.RemOpen {
		if r.RemOpen {
			r.Skip = "open remainder inside a chain"
		}
		return r
	}
	o := applyOp(e.Op, l.V, r.V)
	o.Rounded = o.Rounded || l.Rounded || r.Rounded
	o.Tie = o.Tie || l.Tie || r.Tie
	o.DiffExp = o.DiffExp || l.DiffExp || r.DiffExp
	return o
}

func evalArray1(src string, data map[string]interface{}) (interface{}, error, bool, interface{}) {
	sc, err := hostParse([]byte(src), true)
	if err != nil {
		return nil, fmt.Errorf("parse: %w", err), false, nil
	}
	r := formula.NewRunner()
	if data != nil {
		r.SetThis(data)
	}
	var v interface{}
	var rerr error
	ctx, release := hostCtx(src)
	defer release()
	panicked, pv := core.Call(func() { v, rerr = r.Resolve(ctx, sc.Expression) })
	if !panicked && rerr == nil {
		if e2 := secondEvaluationOn(r, sc, src, ctx, data, outcome(v, nil, false, nil)); e2 != nil {
			return nil, e2, false, nil
		}
	}
	return v, rerr, panicked, pv
}

func elem0(v interface{}) (*decimal.Big, bool) {
	arr, ok := v.([]interface{})
	if !ok || len(arr) != 1 {
		return nil, false
	}
	d, ok := arr[0].(*decimal.Big)
	return d, ok && d != nil
}

var c04Arith = core.Mon(c04, "arith-exact", func(w *core.W, e *AExpr) {
	w.Eval(1)
	m := e.model()
	src := "[" + e.Src() + "]"
	if m.Skip != "" {
		w.Skip(strings.SplitN(m.Skip, " ", 3)[0] + "-" + strings.SplitN(m.Skip+" x", " ", 3)[1])
		return
	}
	if e.Op != "" && (e.L.Op != "" || e.R.Op != "") && len(e.Lit)%2 == 0 {
		// chains are also written the way people write them: a*b + c, without redundant parentheses
		if w.Counter("chain_cases")%2 == 1 {
			src = "[" + e.MinSrc() + "]"
			w.Count("minimal_parentheses_chains")
		}
	}
	v, err, panicked, pv := evalArray1(src, nil)
	if panicked {
		w.Violation("arith-exact", "C04/escaped-panic", e, m.V.String(), fmt.Sprint(pv), src)
		return
	}
	if err != nil {
		w.Violation("arith-exact", "C04/error", e, m.V.String(), err.Error(), src)
		return
	}
	d, ok := elem0(v)
	if !ok {
		w.Violation("arith-exact", "C04/not-a-number", e, m.V.String(), show(v), src)
		return
	}
	got := obs.DecOf(d)
	op := e.Op
	if op == "" {
		op = "lit"
	}
	w.Count("op:" + op)
	if m.Rounded {
		w.Count("rounded_results")
	}
	if m.Tie {
		w.Count("exact_ties")
	}
	if m.Rounded || m.DiffExp {
		w.Nontrivial(src)
	}
	if m.RemOpen {
		w.Count("rem_quotient_over_34_digits")
		if got.IsNaN() || got.Equal(m.V) {
			return
		}
	}
	if got.Finite() && got.Equal(m.V) && core.Hash64(src)%300 == 7 && !substitutionCheck(w, "arith-exact", "C04", e, e.Src(), d, nil) {
		return
	}
	if !got.Finite() || !got.Equal(m.V) {
		sig := "C04/wrong-result:" + op
		if e.Op != "" && (e.L.Op != "" || e.R.Op != "") {
			sig = "C04/wrong-result:chain"
		}
		w.Violation("arith-exact", sig, e, m.V.String(), got.String(), fmt.Sprintf("%s: model %s, implementation %s", src, m.V.String(), d.String()))
		return
	}
})

// DataNumCase: a Go numeric data value.
type DataNumCase struct {
	Kind string  `json:"kind"` // f64 int int32 int64 | dec128 decraw dec60: a *decimal.Big the host built (S = its text)
	F    float64 `json:"f,omitempty"`
	I    int64   `json:"i,omitempty"`
	S    string  `json:"s,omitempty"`
	// Where the value sits in the caller's data: "" top-level entry, "map" entry of a nested map[string]interface{},
	// "tmap" element of a map typed by the value's kind, "field" typed struct field, "anyfield" interface{} struct field,
	// "setvalue" handed over through Runner.SetThisValue (no map of the caller's), "setvalue-after" the same on top of a map
	Where string `json:"where,omitempty"`
}

type numHolder struct {
	F   float64
	I   int
	I32 int32
	I64 int64
	Any interface{}
}

// place puts the value where the case says and returns the data map and the path that reads it.
func (c *DataNumCase) place(gv interface{}) (map[string]interface{}, string) {
	switch c.Where {
	case "map":
		return map[string]interface{}{"o": map[string]interface{}{"v": gv, "w": 1}}, "o.v"
	case "tmap":
		switch x := gv.(type) {
		case float64:
			return map[string]interface{}{"o": map[string]float64{"v": x}}, "o.v"
		case int:
			return map[string]interface{}{"o": map[string]int{"v": x}}, "o.v"
		case int32:
			return map[string]interface{}{"o": map[string]int32{"v": x}}, "o.v"
		case int64:
			return map[string]interface{}{"o": map[string]int64{"v": x}}, "o.v"
		case *decimal.Big:
			return map[string]interface{}{"o": map[string]*decimal.Big{"v": x}}, "o.v"
		}
	case "field":
		switch x := gv.(type) {
		case float64:
			return map[string]interface{}{"o": numHolder{F: x}}, "o.F"
		case int:
			return map[string]interface{}{"o": numHolder{I: x}}, "o.I"
		case int32:
			return map[string]interface{}{"o": numHolder{I32: x}}, "o.I32"
		case int64:
			return map[string]interface{}{"o": numHolder{I64: x}}, "o.I64"
		case *decimal.Big:
			return map[string]interface{}{"o": struct{ D *decimal.Big }{x}}, "o.D"
		}
	case "anyfield":
		return map[string]interface{}{"o": numHolder{Any: gv}}, "o.Any"
	}
	return map[string]interface{}{"x": gv}, "x"
}

func (c *DataNumCase) value() (interface{}, string) {
	switch c.Kind {
	case "f64":
		return c.F, strconv.FormatFloat(c.F, 'e', -1, 64)
	case "int":
		return int(c.I), strconv.FormatInt(c.I, 10)
	case "int32":
		return int32(c.I), strconv.FormatInt(int64(int32(c.I)), 10)
	case "dec128":
		// the library's own widest context
		d, _ := decimal.WithContext(decimal.Context128).SetString(c.S)
		return d, c.S
	case "dec60":
		// a context of the host's choice, wider than anything the evaluator computes in
		d, _ := decimal.WithPrecision(60).SetString(c.S)
		return d, c.S
	case "decraw":
		// no context at all: mantissa and scale, the way database drivers hand decimals over
		dd, _ := ref.ParseDec(c.S)
		m := new(big.Int).Set(dd.Coef)
		if dd.Neg {
			m.Neg(m)
		}
		return new(decimal.Big).SetBigMantScale(m, -dd.Exp), c.S
	default:
		return c.I, strconv.FormatInt(c.I, 10)
	}
}

var c04Data = core.Mon(c04, "data-entry", func(w *core.W, c *DataNumCase) {
	w.Eval(1)
	gv, text := c.value()
	exp, ok := ref.ParseDec(text)
	if !ok || !exp.Finite() {
		w.Skip("non-finite-data")
		return
	}
	data, path := c.place(gv)
	if c.Where != "" {
		w.Count("data_values_below_top_level")
	}
	if strings.HasPrefix(c.Where, "setvalue") {
		// the single-entry setter is an entry point like the map: what it stores is the caller's value
		ssrc := path + " === " + litOf(text) + " ? [" + path + "] : ['differs', " + path + "]"
		if exp.Digits() > 34 && exp.Neg {
			ssrc = "[" + path + "]" // (a negated literal is arithmetic: rounded to 34 digits)
		}
		v, err, panicked, pv := evalViaSetter(ssrc, gv, c.Where == "setvalue-after")
		w.Count("data_values_through_setthisvalue")
		if panicked || err != nil {
			w.Violation("data-entry", "C04/data-entry-error", c, text, fmt.Sprint(pv, err), "SetThisValue(x, ...) then "+path)
			return
		}
		d, ok := elem0(v)
		if !ok || !obs.DecOf(d).Equal(exp) {
			w.Violation("data-entry", "C04/data-value-through-setter:"+c.Kind, c, text, show(v), fmt.Sprintf("x handed over with SetThisValue as %s(%s) is not the number %s inside a formula", c.Kind, text, text))
		}
		return
	}
	v, err, panicked, pv := evalArray1("["+path+"]", data)
	if panicked || err != nil {
		w.Violation("data-entry", "C04/data-entry-error", c, text, fmt.Sprint(pv, err), "["+path+"]")
		return
	}
	d, ok := elem0(v)
	if !ok {
		w.Violation("data-entry", "C04/data-not-number", c, text, show(v), fmt.Sprintf("[%s] with the value %s(%s)", path, c.Kind, text))
		return
	}
	if c.Kind == "f64" {
		w.Count("data_float_cases")
	} else if strings.HasPrefix(c.Kind, "dec") {
		w.Count("data_host_decimal_cases")
	} else {
		w.Count("data_int_cases")
	}
	if exp.Digits() >= 16 || (c.Kind != "f64" && (c.I > 1<<53 || c.I < -(1<<53))) {
		w.Nontrivial(c.Kind + ":" + text)
	}
	got := obs.DecOf(d)
	if !got.Finite() || !got.Equal(exp) {
		w.Violation("data-entry", "C04/data-value:"+c.Kind, c, text, got.String(), fmt.Sprintf("[%s] with the value %s(%s) gives %s", path, c.Kind, text, d.String()))
		return
	}
	if exp.Digits() > 34 && exp.Neg {
		return // (a negated literal is arithmetic: rounded to 34 digits)
	}
	// x === the same number written as a literal
	lit := strings.TrimPrefix(text, "-")
	src := path + " === " + lit
	if strings.HasPrefix(text, "-") {
		src = path + " === -" + lit
	}
	v2, err2, p2, pv2 := evalArray1(src, data)
	if p2 || err2 != nil {
		w.Violation("data-entry", "C04/data-entry-error", c, true, fmt.Sprint(pv2, err2), src)
		return
	}
	if v2 != true {
		w.Violation("data-entry", "C04/data-literal-identity:"+c.Kind, c, true, show(v2), fmt.Sprintf("%s with the value %s(%s)", src, c.Kind, text))
		return
	}
	// the operators treat it like the literal (at most 19 / 17 digits here, so nothing is rounded)
	if exp.Digits() <= 34 && core.Hash64(text)%4 == 0 {
		plit := lit
		if strings.HasPrefix(text, "-") {
			plit = "(-" + lit + ")"
		}
		ops := "[-" + path + " === -" + plit + ", -" + path + " + " + path + " === 0, 0 - " + path + " === -" + plit + ", +" + path + " === " + plit + ", " + path + " * 1 === " + plit + ", " + path + " + 0 === " + plit +
			", " + path + " - " + plit + " === 0, " + path + " / 1 === " + plit + ", -(-" + path + ") === " + plit + ", " + path + " == " + plit + ", " + path + " <= " + plit + " && " + path + " >= " + plit + "]"
		v3, err3, p3, pv3 := evalArray1("["+ops+"]", data)
		w.Count("data_values_under_operators")
		if p3 || err3 != nil {
			w.Violation("data-entry", "C04/data-entry-error", c, true, fmt.Sprint(pv3, err3), ops)
			return
		}
		outer, _ := v3.([]interface{})
		var arr []interface{}
		if len(outer) == 1 {
			arr, _ = outer[0].([]interface{})
		}
		for i, e := range arr {
			if e != true {
				w.Violation("data-entry", "C04/data-value-under-operator:"+c.Kind, c, "all true", show(arr), fmt.Sprintf("check %d of %s with the value %s(%s)", i, ops, c.Kind, text))
				return
			}
		}
	}
})

func litOf(text string) string {
	if strings.HasPrefix(text, "-") {
		return "(-" + strings.TrimPrefix(text, "-") + ")"
	}
	return text
}

// evalViaSetter evaluates src on a runner whose entry x was set with SetThisValue.
func evalViaSetter(src string, x interface{}, onTopOfMap bool) (interface{}, error, bool, interface{}) {
	sc, err := hostParse([]byte(src), true)
	if err != nil {
		return nil, err, false, nil
	}
	r := formula.NewRunner()
	if onTopOfMap {
		r.SetThis(map[string]interface{}{"y": 1})
	}
	r.SetThisValue("x", x)
	var v interface{}
	var rerr error
	p, pv := core.Call(func() { v, rerr = r.Resolve(context.Background(), sc.Expression) })
	return v, rerr, p, pv
}

func ulpDiff(a, b float64) float64 {
	if a == b {
		return 0
	}
	ia, ib := int64(math.Float64bits(math.Abs(a))), int64(math.Float64bits(math.Abs(b)))
	if (a < 0) != (b < 0) {
		return float64(ia + ib)
	}
	return math.Abs(float64(ia - ib))
}

var c04Handback = core.Mon(c04, "float-handback", func(w *core.W, e *AExpr) {
	w.Eval(1)
	m := e.model()
	if m.Skip != "" || m.RemOpen {
		w.Skip("handback-outside-quantifier")
		return
	}
	src := e.Src()
	v, err, panicked, pv := evalArray1(src, nil)
	if panicked || err != nil {
		w.Violation("float-handback", "C04/handback-error", e, m.V.String(), fmt.Sprint(pv, err), src)
		return
	}
	f, ok := v.(float64)
	if !ok {
		w.Violation("float-handback", "C04/handback-not-float64", e, "float64", show(v), src)
		return
	}
	want, _ := m.V.Rat().Float64()
	if math.IsInf(want, 0) || (want == 0 && !m.V.IsZero()) || math.Abs(want) < 2.3e-308 {
		w.Skip("handback-outside-float-range")
		return
	}
	// reduce the coefficient
	c := new(big.Int).Set(m.V.Coef)
	q := m.V.Exp
	for c.Sign() != 0 {
		qq, rr := new(big.Int).QuoRem(c, big.NewInt(10), new(big.Int))
		if rr.Sign() != 0 {
			break
		}
		c, q = qq, q+1
	}
	exactDomain := len(c.String()) <= 15 && q >= -22 && q <= 22
	w.Nontrivial("handback:" + src)
	if exactDomain {
		w.Count("handback_exact_domain")
		if f != want {
			w.Violation("float-handback", "C04/handback-not-nearest", e, want, f, fmt.Sprintf("%s = %s: float64 handed back %v, nearest is %v", src, m.V.String(), f, want))
		}
		return
	}
	w.Count("handback_ulp_domain")
	if u := ulpDiff(f, want); u > 4 {
		w.Violation("float-handback", "C04/handback-beyond-4ulp", e, want, f, fmt.Sprintf("%s = %s: %v is %.0f ulp from %v", src, m.V.String(), f, u, want))
	}
})

var c04Host = core.Mon(c04, "host-receives", func(w *core.W, e *AExpr) {
	w.Eval(1)
	m := e.model()
	if m.Skip != "" || m.RemOpen {
		w.Skip("host-outside-quantifier")
		return
	}
	var got []ref.Dec
	data := map[string]interface{}{"rec": func(x *decimal.Big) (bool, error) {
		got = append(got, obs.DecOf(x))
		return true, nil
	}}
	src := "rec(" + e.Src() + ")"
	_, err, panicked, pv := evalArray1(src, data)
	if panicked || err != nil {
		w.Violation("host-receives", "C04/host-error", e, m.V.String(), fmt.Sprint(pv, err), src)
		return
	}
	w.Count("host_received")
	if len(got) != 1 || !got[0].Finite() || !got[0].Equal(m.V) {
		w.Violation("host-receives", "C04/host-value", e, m.V.String(), fmt.Sprint(got), src)
	}
})

// ---- operand generators ----------------------------------------------------------

func digits(r *rand.Rand, n int) string {
	b := make([]byte, n)
	for i := range b {
		b[i] = byte('0' + r.Intn(10))
	}
	if b[0] == '0' {
		b[0] = byte('1' + r.Intn(9))
	}
	return string(b)
}

// spell writes coefficient digits and an exponent in a random equivalent spelling.
func spell(r *rand.Rand, neg bool, dig string, exp int) string {
	var s string
	switch r.Intn(4) {
	case 0: // scientific with integer coefficient
		s = dig
		if exp != 0 || r.Intn(2) == 0 {
			s += []string{"e", "E"}[r.Intn(2)] + strconv.Itoa(exp)
		}
	case 1: // d.ddd e x
		if len(dig) > 1 {
			s = dig[:1] + "." + dig[1:] + "e" + strconv.Itoa(exp+len(dig)-1)
		} else {
			s = dig + "e" + []string{"", "+"}[r.Intn(2)] + strconv.Itoa(exp)
			if exp < 0 {
				s = dig + "e" + strconv.Itoa(exp)
			}
		}
	default: // plain
		switch {
		case exp >= 0:
			s = dig + strings.Repeat("0", exp)
			if r.Intn(3) == 0 {
				s += "."
			}
		case -exp < len(dig):
			s = dig[:len(dig)+exp] + "." + dig[len(dig)+exp:]
		default:
			s = "0." + strings.Repeat("0", -exp-len(dig)) + dig
			if r.Intn(2) == 0 {
				s = s[1:]
			}
		}
	}
	if r.Intn(6) == 0 {
		s = "0" + s
		if s[1] == '.' {
			s = s[1:]
		}
	}
	if r.Intn(5) == 0 {
		// digit separators: a single underscore between two digits of one digit group (coefficient, fraction or exponent)
		b := []byte(s)
		var out []byte
		for i, ch := range b {
			out = append(out, ch)
			if i+1 < len(b) && ch >= '0' && ch <= '9' && b[i+1] >= '0' && b[i+1] <= '9' && r.Intn(3) == 0 {
				out = append(out, '_')
			}
		}
		s = string(out)
	}
	if neg {
		s = "-" + s
	}
	return s
}

func randOperand(r *rand.Rand) string {
	n := 1 + r.Intn(34)
	if r.Intn(3) == 0 {
		n = []int{1, 2, 15, 16, 17, 33, 34}[r.Intn(7)]
	}
	dig := digits(r, n)
	switch r.Intn(8) {
	case 0:
		dig = strings.Repeat("9", n)
	case 1:
		dig = "1" + strings.Repeat("0", n-1)
	case 2:
		if n > 1 {
			dig = "1" + strings.Repeat("0", n-2) + "1"
		}
	}
	exp := r.Intn(61) - 30
	if r.Intn(3) == 0 {
		exp = r.Intn(7) - 3
	}
	if r.Intn(12) == 0 {
		dig = "0"
	}
	return spell(r, r.Intn(2) == 0, dig, exp)
}

var arithOps = []string{"+", "-", "*", "/", "%"}

func init() { c04.Run = runC04 }

// c04Disturb evaluates formulas that use other rounding modes and contexts; arithmetic afterwards must be unaffected.
var c04Disturbers = []string{"toInt(7.9)", "round(2.5)", "roundBank(3.5)", "floor(-2.5)", "ceil(2.1)", "sqrt(2)", "exp(1)", "ln(10)", "log(1000)", "toInt('12.7')", "round(-0.5) + toInt(-7.9)", "abs(-3) % 2", "max(1, 2.5)", "1 / 3", "~5 & 3"}

func c04Disturb(w *core.W, i int) {
	evalArray1(c04Disturbers[i%len(c04Disturbers)], nil)
	w.Count("disturbers_evaluated")
}

func runC04(w *core.W) {
	runStability(w, c04Stable)
	r := w.RNG("pairs")
	sample := func(kind string, e *AExpr, i int) {
		if i%2003 == 0 {
			w.Sample(kind, "["+e.Src()+"]")
		}
	}
	// 1. random pairs
	for i, n := 0, w.Pick(120000, 1500000); i < n; i++ {
		e := &AExpr{Op: arithOps[i%5], L: &AExpr{Lit: randOperand(r)}, R: &AExpr{Lit: randOperand(r)}}
		if i%11 == 3 {
			e.L.Text = true
			w.Count("operands_entering_as_text")
		} else if i%11 == 7 {
			e.R.Text = true
			w.Count("operands_entering_as_text")
		}
		if i%7 == 0 {
			c04Disturb(w, i/7)
		}
		c04Arith(w, e)
		sample("pair", e, i)
	}
	// 2. boundary families
	for i, n := 0, w.Pick(24000, 300000); i < n; i++ {
		var a, b string
		op := arithOps[r.Intn(5)]
		switch i % 8 {
		case 0: // exact tie at the 35th digit for + and -
			d := digits(r, 34)
			a = spell(r, false, d+"0", r.Intn(5)-2)
			ad, _ := ref.ParseDec(a)
			b = spell(r, r.Intn(2) == 0, "5", ad.Exp)
			if ad.Exp != ad.Exp {
				b = "5"
			}
			op = []string{"+", "-"}[r.Intn(2)]
		case 1: // alignment over a wide exponent gap
			a = spell(r, r.Intn(2) == 0, digits(r, 1+r.Intn(34)), 30-r.Intn(5))
			b = spell(r, r.Intn(2) == 0, digits(r, 1+r.Intn(34)), -30+r.Intn(45))
			op = []string{"+", "-"}[r.Intn(2)]
		case 2: // cancellation
			d := digits(r, 1+r.Intn(34))
			e := r.Intn(20) - 10
			a = spell(r, false, d, e)
			b = spell(r, false, d, e)
			if r.Intn(2) == 0 {
				db, _ := new(big.Int).SetString(d, 10)
				db.Add(db, big.NewInt(int64(r.Intn(3)-1)))
				if db.Sign() > 0 {
					b = spell(r, false, db.String(), e)
				}
			}
			op = "-"
		case 3: // wide products
			k := []int{17, 18, 34, 20}[r.Intn(4)]
			a = spell(r, r.Intn(2) == 0, digits(r, k), r.Intn(11)-5)
			b = spell(r, r.Intn(2) == 0, digits(r, k), r.Intn(11)-5)
			op = "*"
		case 4: // periodic quotients
			a = spell(r, r.Intn(2) == 0, strconv.Itoa(1+r.Intn(50)), r.Intn(7)-3)
			b = []string{"", "-"}[r.Intn(2)] + []string{"3", "7", "9", "11", "13", "6", "97", "3000", "0.7"}[r.Intn(9)]
			op = "/"
		case 5: // remainders with fractional divisors and negative operands
			a = spell(r, r.Intn(2) == 0, digits(r, 1+r.Intn(12)), r.Intn(9)-6)
			b = spell(r, r.Intn(2) == 0, digits(r, 1+r.Intn(4)), r.Intn(7)-5)
			op = "%"
		case 6: // ties in products: x * 5 patterns, and quotient ties
			a = spell(r, false, digits(r, 34), 0)
			b = []string{"5", "0.5", "15", "2.5", "25e-1", "1.5"}[r.Intn(6)]
			op = []string{"*", "/"}[r.Intn(2)]
		default: // 10^k +- 1, all nines
			k := 1 + r.Intn(34)
			a = spell(r, false, strings.Repeat("9", k), r.Intn(5)-2)
			b = []string{"", "-"}[r.Intn(2)] + []string{"1", "2", "0.1", "1e-30", "9", "1e30"}[r.Intn(6)]
		}
		e := &AExpr{Op: op, L: &AExpr{Lit: a}, R: &AExpr{Lit: b}}
		if i%3 == 0 {
			c04Disturb(w, i/3)
		}
		c04Arith(w, e)
		sample("boundary", e, i)
	}
	// 2b. machine-integer boundaries (a fast path through int64/int32/float64 would show here)
	mach := []string{"9223372036854775808", "9223372036854775807", "9223372036854775806", "4294967296", "4294967295", "2147483648", "2147483647", "18446744073709551615", "18446744073709551616",
		"9007199254740992", "9007199254740993", "4611686018427387904", "3037000500", "1", "2", "3", "10", "0", "1e19", "1e18", "0.5", "1000000007", "6442450941"}
	mi := 0
	for _, a := range mach {
		for _, b := range mach {
			for _, op := range arithOps {
				for sg := 0; sg < 4; sg++ {
					mi++
					if !w.Mine(mi) {
						continue
					}
					x, y := a, b
					if sg&1 != 0 {
						x = "-" + x
					}
					if sg&2 != 0 {
						y = "-" + y
					}
					e := &AExpr{Op: op, L: &AExpr{Lit: x}, R: &AExpr{Lit: y}}
					c04Arith(w, e)
					c04Handback(w, e)
					sample("machine-boundary", e, mi)
				}
			}
		}
	}
	w.ExhaustivePart("every pair of 23 machine-integer boundary values x 4 sign combinations x 5 operators")
	// 3. chains of up to 4 operations
	r = w.RNG("chains")
	var build func(ops int) *AExpr
	build = func(ops int) *AExpr {
		if ops == 0 {
			n := 1 + r.Intn(20)
			return &AExpr{Lit: spell(r, r.Intn(3) == 0, digits(r, n), r.Intn(21)-10)}
		}
		left := r.Intn(ops)
		return &AExpr{Op: arithOps[r.Intn(5)], L: build(left), R: build(ops - 1 - left)}
	}
	for i, n := 0, w.Pick(60000, 900000); i < n; i++ {
		e := build(2 + r.Intn(3))
		if i%5 == 0 {
			c04Disturb(w, i/5)
		}
		w.Count("chain_cases")
		c04Arith(w, e)
		sample("chain", e, i)
		if i%4 == 0 {
			c04Handback(w, e)
		}
		if i%16 == 0 {
			c04Host(w, e)
		}
	}
	// 4. hand-back on literals and simple operations in and out of the exact domain
	r = w.RNG("handback")
	for i, n := 0, w.Pick(60000, 600000); i < n; i++ {
		var e *AExpr
		switch i % 4 {
		case 0:
			e = &AExpr{Lit: spell(r, r.Intn(2) == 0, digits(r, 1+r.Intn(15)), r.Intn(45)-22)}
		case 1:
			e = &AExpr{Lit: spell(r, r.Intn(2) == 0, digits(r, 16+r.Intn(19)), r.Intn(45)-22)}
		case 2:
			e = &AExpr{Op: arithOps[r.Intn(4)], L: &AExpr{Lit: spell(r, false, digits(r, 1+r.Intn(8)), r.Intn(7)-3)}, R: &AExpr{Lit: spell(r, false, digits(r, 1+r.Intn(7)), r.Intn(7)-3)}}
		default:
			e = &AExpr{Lit: spell(r, r.Intn(2) == 0, digits(r, 1+r.Intn(20)), r.Intn(600)-300)}
		}
		c04Handback(w, e)
		if i%8 == 0 {
			c04Host(w, e)
		}
		sample("handback", e, i)
	}
	// 5. data values
	r = w.RNG("data")
	fedge := []float64{0.1, 0.2, 0.3, 1e22, 1e23, 5e-324, math.MaxFloat64, 1 << 53, 1<<53 + 2, 9007199254740993, 30.749999000000003, 0.30000000000000004, 1.1, 2.2, 1e-7, 123456789.123456789, -0.0, 1, -1, 4.35, 100, 1e15, 1e16, 1e17, 2.5e-10,
		// float64 values that a float32 holds exactly (their shortest float64 text is long)
		float64(float32(0.1)), float64(float32(19.99)), float64(float32(1.1)), float64(float32(33.333332)), float64(float32(2.675)), float64(float32(1e-3))}
	for i, n := 0, w.Pick(60000, 900000); i < n; i++ {
		var c *DataNumCase
		switch i % 6 {
		case 0:
			c = &DataNumCase{Kind: "f64", F: math.Float64frombits(r.Uint64())}
		case 1:
			c = &DataNumCase{Kind: "f64", F: fedge[r.Intn(len(fedge))]}
			if r.Intn(2) == 0 {
				c.F = float64(r.Intn(2000000)-1000000) / []float64{1, 10, 100, 1000, 8, 3}[r.Intn(6)]
			}
		case 2:
			c = &DataNumCase{Kind: "int64", I: int64(r.Uint64())}
		case 3:
			c = &DataNumCase{Kind: "int64", I: []int64{math.MaxInt64, math.MinInt64, 1<<53 + 1, -(1<<53 + 1), 1 << 53, 9007199254740993, 0, -1, 1 << 62, 999999999999999999, 1<<63 - 2}[r.Intn(11)]}
		case 4:
			c = &DataNumCase{Kind: "int", I: int64(r.Uint64() >> uint(r.Intn(64)))}
			if r.Intn(2) == 0 {
				c.I = -c.I
			}
		default:
			c = &DataNumCase{Kind: "int32", I: int64(int32(r.Uint32()))}
		}
		c04Data(w, c)
		// the same value below the top level of the data: in a nested map, a map typed by its kind, a typed and an untyped struct field
		nc := *c
		nc.Where = []string{"map", "tmap", "field", "anyfield", "setvalue", "setvalue-after"}[(i/6)%6]
		c04Data(w, &nc)
		if i%3001 == 0 {
			_, t := c.value()
			w.Sample("data", c.Kind+":"+t)
		}
	}
	// 5b. decimals the host built itself: in the library's 34-digit context, in a 60-digit context of its own, and without
	// any context (mantissa and scale) - they are the numbers written, wherever they sit and under every operator
	r = w.RNG("host-decimals")
	for i, n := 0, w.Pick(12000, 200000); i < n; i++ {
		kind := []string{"dec128", "decraw", "dec60"}[i%3]
		nd := 1 + r.Intn(34)
		if kind == "dec60" {
			nd = 30 + r.Intn(26)
		} else if r.Intn(3) == 0 {
			nd = 17 + r.Intn(18)
		}
		dig := digits(r, nd)
		for dig[0] == '0' && nd > 1 {
			dig = digits(r, nd)
		}
		e := r.Intn(12) - 8
		if r.Intn(4) == 0 {
			e = r.Intn(80) - 60
		}
		text := spellExp(dig, e)
		if r.Intn(2) == 0 {
			text = "-" + text
		}
		c := &DataNumCase{Kind: kind, S: text, Where: []string{"", "map", "tmap", "field", "anyfield", "setvalue", "setvalue-after"}[(i/3)%7]}
		c04Data(w, c)
	}
}
