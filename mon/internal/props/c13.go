package props

import (
	"fmt"
	"math/rand"
	"strings"
	"unicode/utf8"

	"verifmon/internal/core"
	"verifmon/internal/gen"
)

var c13 = core.Register(&core.Prop{
	ID:    "C13",
	Title: "String literals round-trip every text through quoting and escaping",
	Rule: "texts over ASCII, control characters, both quotes, backslashes, multi-byte and invalid UTF-8 (length 0-64, plus 4 KiB and 64 KiB), escaped by a reference escaper that must escape delimiter, backslash and line breaks and randomly escapes anything else, " +
		"choosing among equivalent escape forms, in both quote styles; unterminated literals (end of input or any line-break form before the closing quote, trailing backslashes) alone and embedded; non-trivial = text needs at least one escape or has a multi-byte/invalid byte; distinct by literal bytes",
	Assumptions: []string{
		"line continuations (backslash + line break), surrogate escapes and \\x / \\u with fewer digits are not generated (left open by the statement)",
		"\\xHH and \\uHHHH denote the code point (so bytes >= 0x80 that are not valid UTF-8 can only be written verbatim)",
	},
	Shards: func(tier string) int { return pickTier(tier, 8, 16) },
	Floors: func(c map[string]int64, tier string) []string {
		var out []string
		for _, k := range []string{"roundtrips", "unterminated_checked", "esc:simple", "esc:x", "esc:u", "esc:quote", "esc:backslash", "quote:single", "quote:double", "invalid_utf8_texts", "large_texts", "string_sequences", "codepoint_sweep", "literal_uses", "escape_at_buffer_boundary"} {
			if c[k] == 0 {
				out = append(out, "coverage floor: no "+k)
			}
		}
		return out
	},
})

// StrCase: the text and the literal built from it by the reference escaper.
type StrCase struct {
	Text []byte `json:"text"`
	Lit  []byte `json:"lit"`
}

var simpleEsc = map[rune]string{'\n': `\n`, '\r': `\r`, '\t': `\t`, '\b': `\b`, '\f': `\f`, '\v': `\v`, 0: `\0`, '\'': `\'`, '"': `\"`, '\\': `\\`}

// escape is the reference escaper; counts records which forms were used.
func escape(r *rand.Rand, text []byte, quote byte, escapeRate int, counts map[string]int) []byte {
	out := []byte{quote}
	for p := 0; p < len(text); {
		ch, sz := utf8.DecodeRune(text[p:])
		if ch == utf8.RuneError && sz == 1 {
			out = append(out, text[p]) // invalid byte: verbatim is the only way
			p++
			continue
		}
		must := ch == rune(quote) || ch == '\\' || ch == '\n' || ch == '\r' || ch == 0x2028 || ch == 0x2029 || ch == 0x85
		if !must && r.Intn(100) >= escapeRate {
			out = append(out, text[p:p+sz]...)
			p += sz
			continue
		}
		// equivalent forms
		var forms []string
		if s, ok := simpleEsc[ch]; ok {
			forms = append(forms, s)
			if ch == '\\' {
				counts["esc:backslash"]++
			}
			if ch == '\'' || ch == '"' {
				counts["esc:quote"]++
			}
		}
		if ch < 0x100 {
			forms = append(forms, fmt.Sprintf("\\x%02x", ch), fmt.Sprintf("\\x%02X", ch))
		}
		if ch < 0x10000 && !(ch >= 0xD800 && ch <= 0xDFFF) {
			forms = append(forms, fmt.Sprintf("\\u%04x", ch), fmt.Sprintf("\\u%04X", ch))
		}
		if len(forms) == 0 { // astral: verbatim only
			out = append(out, text[p:p+sz]...)
			p += sz
			continue
		}
		f := forms[r.Intn(len(forms))]
		switch {
		case strings.HasPrefix(f, `\x`):
			counts["esc:x"]++
		case strings.HasPrefix(f, `\u`):
			counts["esc:u"]++
		default:
			counts["esc:simple"]++
		}
		out = append(out, f...)
		p += sz
	}
	return append(out, quote)
}

var c13Round = core.Mon(c13, "round-trip", func(w *core.W, c *StrCase) {
	if len(c.Lit) >= 2048 || w.Replay {
		w.Cur("round-trip", c)
	}
	w.Eval(1)
	// a literal denotes its text whatever data the runner holds (names in the data that also occur in the text mean nothing)
	var data map[string]interface{}
	if core.Hash64(string(c.Lit))%2 == 0 {
		data = c13Data()
	}
	v, err, panicked, pv := evalArray1(string(c.Lit), data)
	q := fmt.Sprintf("%q", clipS(string(c.Lit), 120))
	if panicked || err != nil {
		w.Violation("round-trip", "C13/literal-rejected", c, fmt.Sprintf("%q", clipS(string(c.Text), 80)), fmt.Sprint(pv, err), "literal "+q)
		return
	}
	s, ok := v.(string)
	if !ok {
		w.Violation("round-trip", "C13/not-a-string", c, "string", show(v), "literal "+q)
		return
	}
	w.Count("roundtrips")
	if len(c.Lit) != len(c.Text)+2 || !utf8.Valid(c.Text) || len(c.Text) != utf8.RuneCount(c.Text) {
		w.Nontrivial(string(c.Lit))
	}
	if s != string(c.Text) {
		// locate the first difference
		i := 0
		for i < len(s) && i < len(c.Text) && s[i] == c.Text[i] {
			i++
		}
		w.Violation("round-trip", "C13/round-trip", c, fmt.Sprintf("%q", clipS(string(c.Text), 80)), fmt.Sprintf("%q", clipS(s, 80)),
			fmt.Sprintf("literal %s decodes differently from byte %d on (want %q, got %q)", q, i, clipS(string(c.Text[i:]), 12), clipS(s[i:], 12)))
	}
})

func c13Data() map[string]interface{} {
	return map[string]interface{}{"name": "Bob", "a": 1, "b": "bee", "n": 7, "$who": "world", "x41": "X", "u0041": "U", "0": "zero", "fid": func(x interface{}) (interface{}, error) { return x, nil }}
}

// LitUseCase: a string literal written directly where a builtin, an operator or a host function takes its operand means
// the same as the literal bound to a local first and the local written there.
type LitUseCase struct {
	Lit  []byte `json:"lit"`
	Tmpl string `json:"tmpl"`
}

var litUseTemplates = []string{"regexp('a5b\\\\d', %s)", "regexp(%s, 'a')", "regexp(%s, %s)", "len(%s)", "upper(%s)", "lower(%s)", "trim(%s)", "replace('x-y-z', '-', %s)", "replace(%s, 'a', 'b')", "replace('a.b', %s, '!')", "join(['a', 'b'], %s)",
	"startWith(%s, %s)", "endWith(%s, 'a')", "contains('abc', %s)", "find(%s, 'a')", "lpad('a', %s, 3)", "rpad(%s, 'x', 5)", "toString(%s)", "%s + 'x'", "'x' + %s", "fid(%s)", "typeof %s", "%s ? 1 : 2", "%s == %s", "%s === 'a'",
	"%s ?? 1", "toFloat(%s)", "toInt(%s)", "includes(['a', '5'], %s)", "mapToArr([], %s)", "mid(%s, 0, 2)", "left(%s, 1)", "right(%s, 1)", "[%s, %s]", "timeFormat(date(2020, 1, 2), %s)", "useTimezone(date(2020, 1, 2), %s)", "%s < 'b'", "-%s", "!%s"}

var c13Use = core.Mon(c13, "literal-in-use", func(w *core.W, c *LitUseCase) {
	w.Eval(2)
	w.Count("literal_uses")
	w.Nontrivial("use:" + c.Tmpl + "|" + string(c.Lit))
	direct := strings.ReplaceAll(c.Tmpl, "%s", string(c.Lit))
	viaLocal := "$l = " + string(c.Lit) + ", " + strings.ReplaceAll(c.Tmpl, "%s", "$l")
	v1, e1, p1, pv1 := resolveIn(c13Data(), direct)
	v2, e2, p2, pv2 := resolveIn(c13Data(), viaLocal)
	if p1 || p2 {
		w.Violation("literal-in-use", "C13/escaped-panic", c, nil, fmt.Sprint(pv1, pv2), direct)
		return
	}
	if o1, o2 := outcome(v1, e1, p1, pv1), outcome(v2, e2, p2, pv2); o1 != o2 {
		w.Violation("literal-in-use", "C13/literal-means-something-else-here", c, clipS(o2, 200), clipS(o1, 200),
			fmt.Sprintf("%q differs from %q: the literal written in place does not denote the text it denotes elsewhere", clipS(direct, 160), clipS(viaLocal, 160)))
	}
})

// StrSeqCase: several literals in one array; each must decode to its own text.
type StrSeqCase struct {
	Texts [][]byte `json:"texts"`
	Lits  [][]byte `json:"lits"`
}

var c13Seq = core.Mon(c13, "literal-sequence", func(w *core.W, c *StrSeqCase) {
	w.Eval(1)
	var sb strings.Builder
	sb.WriteString("[")
	for i, l := range c.Lits {
		if i > 0 {
			sb.WriteString(", ")
		}
		sb.Write(l)
	}
	sb.WriteString("]")
	v, err, panicked, pv := evalArray1(sb.String(), nil)
	w.Count("string_sequences")
	w.Nontrivial("seq:" + sb.String())
	if panicked || err != nil {
		w.Violation("literal-sequence", "C13/sequence-rejected", c, "values", fmt.Sprint(pv, err), fmt.Sprintf("%q", clipS(sb.String(), 200)))
		return
	}
	arr, _ := v.([]interface{})
	if len(arr) != len(c.Texts) {
		w.Violation("literal-sequence", "C13/sequence-shape", c, len(c.Texts), show(v), fmt.Sprintf("%q", clipS(sb.String(), 200)))
		return
	}
	for i := range arr {
		if s, ok := arr[i].(string); !ok || s != string(c.Texts[i]) {
			w.Violation("literal-sequence", "C13/sequence-round-trip", c, fmt.Sprintf("%q", clipS(string(c.Texts[i]), 60)), show(arr[i]), fmt.Sprintf("literal %d of %q", i, clipS(sb.String(), 200)))
			return
		}
	}
})

var c13Open = core.Mon(c13, "unterminated", func(w *core.W, c *ParseCase) {
	w.Eval(1)
	var err error
	panicked, pv := core.Call(func() { _, err = hostParse(c.Src, true) })
	w.Count("unterminated_checked")
	w.Nontrivial("open:" + string(c.Src))
	if panicked {
		w.Violation("unterminated", "C13/escaped-panic", c, "syntax error", fmt.Sprint(pv), c.Quoted())
		return
	}
	if err == nil {
		w.Violation("unterminated", "C13/unterminated-accepted", c, "syntax error", "accepted", "a literal left open was accepted: "+c.Quoted())
	}
})

var textPool = []string{"a", "b", " ", "'", "\"", "\\", "\n", "\r", "\t", "\b", "\f", "\v", "\x00", "\x01", "\x7f", "\u0085", "\u2028", "\u2029", "\u00e9", "\u00ff", "\u0100", "\u4e2d", "\U0001F600", "\xff", "\xc3", "\xe2\x80", "\x80", "x41", "u0041", "n", "0", "1", "$", "\u00a0", "\ufeff", "\uffff", "\ud7ff",
	"${name}", "${a}", "${$who}", "${", "}", "{", "{{name}}", "%s", "%d", "$1", "\\d", "\\\\d", "\\u0041", "^", "(", "[a", "#{b}", "{0}", "$who", "<b>", "&amp;",
	// texts that spell something of another kind: keywords, numbers, timestamps, arrays (a string literal denotes its text)
	"true", "false", "null", "this", "ctx", "typeof", "NaN", "Infinity", "-0", "1.5", "1e3", "0x10", "007", "2024-02-29T12:30:00Z", "2024-02-29T12:30:00.5+09:00", "0001-01-01T00:00:00Z", "2024-02-29", "12:30:00", "[1]", "name", "$who", "fid", "abs", "now"}

func randText(r *rand.Rand, maxLen int) []byte {
	n := r.Intn(maxLen + 1)
	var b []byte
	mode := r.Intn(3)
	for len(b) < n {
		switch mode {
		case 0:
			b = append(b, textPool[r.Intn(len(textPool))]...)
		case 1:
			b = append(b, byte(r.Intn(256)))
		default:
			if r.Intn(3) == 0 {
				b = append(b, textPool[r.Intn(len(textPool))]...)
			} else {
				b = append(b, byte(32+r.Intn(95)))
			}
		}
	}
	return b
}

func init() { c13.Run = runC13 }

func runC13(w *core.W) {
	r := w.RNG("texts")
	counts := map[string]int{}
	one := func(text []byte, i int) {
		quote := byte('\'')
		if i%2 == 1 {
			quote = '"'
			w.Count("quote:double")
		} else {
			w.Count("quote:single")
		}
		rate := []int{0, 10, 50, 100}[(i/2)%4]
		c := &StrCase{Text: text, Lit: escape(r, text, quote, rate, counts)}
		if !utf8.Valid(text) {
			w.Count("invalid_utf8_texts")
		}
		c13Round(w, c)
		if i%3001 == 0 {
			w.Sample("round-trip", fmt.Sprintf("%q", clipS(string(c.Lit), 100)))
		}
	}
	// every single pool element and every pair, in both quote styles and all escape rates
	idx := 0
	for _, a := range textPool {
		for _, b := range append([]string{""}, textPool...) {
			for k := 0; k < 8; k++ {
				idx++
				if w.Mine(idx) {
					one([]byte(a+b), k)
				}
			}
		}
	}
	// every code point of the basic plane through its \\uHHHH escape (and \\xHH below 0x100), between two plain characters
	for cp := rune(0); cp <= 0xFFFF; cp++ {
		if cp >= 0xD800 && cp <= 0xDFFF {
			continue
		}
		idx++
		if !w.Mine(idx) {
			continue
		}
		text := []byte("a" + string(cp) + "b")
		form := []string{"\\u%04x", "\\u%04X"}[int(cp)%2]
		c13Round(w, &StrCase{Text: text, Lit: []byte("'a" + fmt.Sprintf(form, cp) + "b'")})
		counts["esc:u"]++
		if cp < 0x100 {
			c13Round(w, &StrCase{Text: text, Lit: []byte("\"a" + fmt.Sprintf("\\x%02X", cp) + "b\"")})
			counts["esc:x"]++
		}
		w.Count("codepoint_sweep")
	}
	w.ExhaustivePart("every text made of one or two elements of a 37-element pool (quotes, backslash, controls, line breaks, multi-byte, invalid bytes) x 2 quote styles x 4 escape rates")
	for i, n := 0, w.Pick(150000, 1800000); i < n; i++ {
		one(randText(r, 64), i)
	}
	// an escape (or a multi-byte character) right where a buffer of 2^k bytes would be full
	zi := 0
	for _, n := range []int{6, 7, 8, 9, 14, 15, 16, 17, 30, 31, 32, 33, 62, 63, 64, 65, 126, 127, 128, 129, 253, 254, 255, 256, 257, 258, 510, 511, 512, 513, 1022, 1023, 1024, 1025, 2047, 2048, 2049, 4094, 4095, 4096, 4097, 8191, 8192, 8193} {
		for _, mid := range []struct{ text, lit string }{{"\n", "\\n"}, {"A", "\\x41"}, {"\u00e9", "\\xE9"}, {"\u00e9", "\\u00e9"}, {"\u2028", "\\u2028"}, {"'", "\\'"}, {"\\", "\\\\"}, {"\u4e2d", "\u4e2d"}, {"\t\t", "\\t\\t"}, {"\x00", "\\0"}} {
			zi++
			if !w.Mine(zi) {
				continue
			}
			for _, fill := range []string{"x", "\u00e9"} {
				body := strings.Repeat(fill, n/len(fill)) + strings.Repeat("y", n%len(fill))
				text := body + mid.text + "tail"
				c13Round(w, &StrCase{Text: []byte(text), Lit: []byte("'" + body + mid.lit + "tail'")})
				w.Count("escape_at_buffer_boundary")
			}
		}
	}
	// literals in use: every template with texts that need escapes
	ur := w.RNG("uses")
	for i, n := 0, w.Pick(40000, 400000); i < n; i++ {
		t := randText(ur, 6)
		lit := escape(ur, t, "'\""[ur.Intn(2)], []int{0, 40, 100}[ur.Intn(3)], counts)
		c13Use(w, &LitUseCase{Lit: lit, Tmpl: litUseTemplates[i%len(litUseTemplates)]})
	}
	for i, n := 0, w.Pick(2, 8); i < n; i++ {
		size := []int{4096, 65000}[i%2]
		var t []byte
		for len(t) < size {
			t = append(t, randText(r, 64)...)
		}
		if len(t) > 20000 {
			t = t[:20000] // the escaped literal must stay within 64 KiB
		}
		w.Count("large_texts")
		one(t, i)
	}
	// sequences of literals in one formula (scanner state must not carry over)
	for i, n := 0, w.Pick(20000, 200000); i < n; i++ {
		c := &StrSeqCase{}
		for j, k := 0, 2+r.Intn(4); j < k; j++ {
			t := randText(r, 10)
			if j > 0 && r.Intn(4) == 0 {
				t = []byte{} // an empty literal right after a non-empty one
			}
			c.Texts = append(c.Texts, t)
			c.Lits = append(c.Lits, escape(r, t, "'\""[r.Intn(2)], []int{0, 30, 100}[r.Intn(3)], counts))
		}
		c13Seq(w, c)
	}
	for k, v := range counts {
		w.CountN(k, int64(v))
	}
	// unterminated literals
	r = w.RNG("open")
	breaks := []string{"\n", "\r", "\r\n", "\u2028", "\u2029", "\u0085"}
	embeds := []string{"%s", "f(%s", "[%s", "1 + %s", "a ? %s", "f(1, %s", "%s)", "(%s"}
	for i, n := 0, w.Pick(24000, 240000); i < n; i++ {
		quote := byte("'\""[r.Intn(2)])
		body := escape(r, randText(r, 12), quote, 20, counts)
		body = body[:len(body)-1] // drop the closing quote
		var lit []byte
		switch i % 4 {
		case 0: // end of input
			lit = body
		case 1: // line break before the closing quote
			lit = append(append(body, breaks[r.Intn(len(breaks))]...), quote)
		case 2: // trailing backslash(es) then end of input
			lit = append(body, strings.Repeat("\\", 1+2*r.Intn(2))...)
		default: // escaped quote is not a terminator
			lit = append(append(body, '\\'), quote)
		}
		if r.Intn(3) == 0 && i%4 == 1 {
			lit = append(lit, " + 1"...)
		}
		src := fmt.Sprintf(embeds[r.Intn(len(embeds))], lit)
		c := &ParseCase{Src: []byte(src), Gen: "open"}
		c13Open(w, c)
		if i%2003 == 0 {
			w.Sample("unterminated", c.Quoted())
		}
	}
	_ = gen.Seps
}
