package props

import (
	"context"
	"fmt"
	"reflect"
	"time"

	"github.com/aundis/formula"

	"verifmon/internal/core"
)

// OpaqueCase: a host value of a kind that formulas hand on unchanged (C16: strings, booleans, times, slices, maps;
// also structs, pointers and functions) is bound to a local in one evaluation and read back in later ones. The model's
// store holds exactly the value that was bound: the local's entry in the caller's map, the result of the binding
// evaluation and every later read are the caller's own value (Go == for comparable values - which for an instant
// includes its monotonic clock reading and its location -, the same backing store for maps, slices, pointers and
// functions).
type OpaqueCase struct {
	Kind string `json:"kind"`
	Bind string `json:"bind"` // formula binding $t (may be "" when Via is setvalue)
	Via  string `json:"via"`  // resolve | setvalue
	Swap bool   `json:"swap"` // SetThis to a second map carrying the local in between
}

type opaqueRow struct {
	A int
	S string
	T time.Time
}

func opaqueValue(kind string) interface{} {
	switch kind {
	case "time-now":
		return time.Now() // carries a monotonic clock reading
	case "time-now-zone":
		return time.Now().In(time.FixedZone("X", 5*3600+1800))
	case "time-date":
		return time.Date(2024, 2, 29, 13, 4, 5, 6, time.UTC)
	case "time-unix-local":
		return time.Unix(1700000000, 999)
	case "time-zero":
		return time.Time{}
	case "string":
		return "2024-01-02 03:04:05"
	case "bool":
		return true
	case "bytes":
		return []byte("text")
	case "strs":
		return []string{"a", "b"}
	case "list":
		return []interface{}{1, "x", nil}
	case "map":
		return map[string]interface{}{"k": 1}
	case "mapss":
		return map[string]string{"k": "v"}
	case "struct":
		return opaqueRow{A: 1, S: "s", T: time.Now()}
	case "pstruct":
		return &opaqueRow{A: 2}
	case "func":
		return func(x int) (int, error) { return x, nil }
	}
	return nil
}

var opaqueKinds = []string{"time-now", "time-now-zone", "time-date", "time-unix-local", "time-zero", "string", "bool", "bytes", "strs", "list", "map", "mapss", "struct", "pstruct", "func"}

var opaqueBinds = []string{"$t = d", "$t = this.d", "$t = (d)", "($t = d)", "$u = $t = d", "$t = ($u = d)", "$t = h.d", "$t = true ? d : 0", "$t = null ?? d", "$t = d || 0", "$t = (0, d)", "$t = d, $t", "[$t = d]", "$u = d, $t = $u"}

func sameOpaque(a, b interface{}) bool {
	va, vb := reflect.ValueOf(a), reflect.ValueOf(b)
	if !va.IsValid() || !vb.IsValid() {
		return !va.IsValid() && !vb.IsValid()
	}
	if va.Type() != vb.Type() {
		return false
	}
	switch va.Kind() {
	case reflect.Map, reflect.Ptr, reflect.Func, reflect.Slice:
		return samePointer(a, b)
	}
	if va.Type().Comparable() {
		return a == b
	}
	return reflect.DeepEqual(a, b)
}

func showOpaque(v interface{}) string {
	if t, ok := v.(time.Time); ok {
		return fmt.Sprintf("time.Time{%s}", t.String()) // (String shows the monotonic reading as m=+-x)
	}
	return clipS(fmt.Sprintf("%T %v", v, v), 120)
}

var c20Opaque = core.Mon(c20, "opaque-values-stored-unchanged", func(w *core.W, c *OpaqueCase) {
	v := opaqueValue(c.Kind)
	data := map[string]interface{}{"d": v, "x": 1, "h": map[string]interface{}{"d": v}}
	r := formula.NewRunner()
	r.SetThis(data)
	bad := func(sig string, got interface{}, what string) {
		w.Violation("opaque-values-stored-unchanged", "C20/"+sig+":"+c.Kind, c, showOpaque(v), showOpaque(got), what)
	}
	eval := func(src string) (interface{}, bool) {
		w.Eval(1)
		sc, err := hostParse([]byte(src), false)
		if err != nil {
			w.Skip("opaque-formula-rejected")
			return nil, false
		}
		var out interface{}
		var rerr error
		panicked, pv := core.Call(func() { out, rerr = r.Resolve(context.Background(), sc.Expression) })
		if panicked || rerr != nil {
			bad("opaque-evaluation-failed", fmt.Sprint(pv, rerr), src)
			return nil, false
		}
		return out, true
	}
	if c.Via == "setvalue" {
		r.SetThisValue("$t", v)
	} else {
		out, ok := eval(c.Bind)
		if !ok {
			return
		}
		// the value of the binding evaluation, where the formula's value is the bound value itself
		switch c.Bind {
		case "[$t = d]":
			if l, isList := out.([]interface{}); !isList || len(l) != 1 || !sameOpaque(l[0], v) {
				bad("assignment-value-not-the-bound-value", out, c.Bind)
				return
			}
		default:
			if !sameOpaque(out, v) {
				bad("assignment-value-not-the-bound-value", out, c.Bind+": an assignment has its right-hand side's value")
				return
			}
		}
	}
	w.Count("opaque_bindings")
	if got, ok := data["$t"]; !ok || !sameOpaque(got, v) {
		bad("local-entry-not-the-bound-value", got, "the caller's map after "+c.Via+" "+c.Bind+": entry $t")
		return
	}
	if c.Swap {
		// replacing the map by one that carries the local keeps it
		data2 := map[string]interface{}{"d": v, "$t": data["$t"], "h": data["h"]}
		r.SetThis(data2)
		data = data2
	}
	for _, read := range []string{"$t", "this.$t", "($t)", "$t ?? 0", "true ? $t : 0", "$t && $t"} {
		if c.Kind == "time-zero" && read == "$t && $t" {
			// (no claim about the truthiness of a zero instant here)
			continue
		}
		out, ok := eval(read)
		if !ok {
			return
		}
		if !sameOpaque(out, v) {
			bad("later-read-not-the-bound-value", out, "after "+c.Via+" "+c.Bind+": "+read)
			return
		}
		w.Count("opaque_later_reads")
	}
	if got := data["d"]; !sameOpaque(got, v) {
		bad("data-entry-changed", got, "entry d after the evaluations")
	}
	w.Nontrivial(fmt.Sprint("opaque:", c.Kind, c.Bind, c.Via, c.Swap))
})

func runC20Opaque(w *core.W) {
	i := 0
	for _, k := range opaqueKinds {
		for _, swap := range []bool{false, true} {
			i++
			if w.Mine(i) {
				c20Opaque(w, &OpaqueCase{Kind: k, Via: "setvalue", Swap: swap})
			}
			for _, b := range opaqueBinds {
				i++
				if w.Mine(i) {
					c20Opaque(w, &OpaqueCase{Kind: k, Bind: b, Via: "resolve", Swap: swap})
				}
			}
		}
	}
}
