package props

import (
	"fmt"
	"math/rand"
	"regexp"
	"strings"
	"unicode"
	"unicode/utf8"

	"verifmon/internal/core"
	"verifmon/internal/val"
)

var c17 = core.Register(&core.Prop{
	ID:    "C17",
	Title: "String builtins obey the laws of prefix, suffix, slice and pad",
	Rule: "strings over {empty, ASCII, repeated substrings, multi-byte, white space} x every integer position from below zero to beyond the length for each of the 18 string/list builtins, checked against byte-wise reference functions and through the algebraic laws relating them; " +
		"non-trivial = non-empty subject string or list; distinct by (builtin, arguments)",
	Assumptions: []string{
		"lengths and positions are byte counts (as the slicing laws left+right==s require); pads are one byte; mid with i > j may be an error or the empty string (never another piece of the text); replace with an empty pattern, trim of non-ASCII white space and case mapping of invalid UTF-8 are unspecified",
		"Go's regexp package is the RE2 reference",
	},
	Shards: func(tier string) int { return pickTier(tier, 8, 16) },
	Floors: func(c map[string]int64, tier string) []string {
		var out []string
		for _, b := range []string{"startWith", "endWith", "contains", "find", "left", "right", "mid", "len", "lower", "upper", "trim", "replace", "lpad", "rpad", "regexp", "mapToArr", "join", "includes"} {
			if c["fn:"+b] == 0 {
				out = append(out, "coverage floor: builtin "+b+" never checked")
			}
		}
		for _, k := range []string{"law:left+right", "law:startWith-left", "law:endWith-right", "law:find-contains", "regexp_invalid_patterns", "string_kind_cases"} {
			if c[k] == 0 {
				out = append(out, "coverage floor: no "+k)
			}
		}
		return out
	},
})

// StrFnCase: one call (or law) on concrete arguments.
type StrFnCase struct {
	Fn   string              `json:"fn"`
	S    string              `json:"s"`
	T    string              `json:"t,omitempty"`
	U    string              `json:"u,omitempty"`
	N    int                 `json:"n,omitempty"`
	M    int                 `json:"m,omitempty"`
	List []string            `json:"list,omitempty"`
	Maps []map[string]string `json:"maps,omitempty"`
}

func refIndex(s, t string) int {
	for i := 0; i+len(t) <= len(s); i++ {
		if s[i:i+len(t)] == t {
			return i
		}
	}
	return -1
}

func refReplaceAll(s, old, new string) string {
	var sb strings.Builder
	for i := 0; i < len(s); {
		if i+len(old) <= len(s) && s[i:i+len(old)] == old {
			sb.WriteString(new)
			i += len(old)
			continue
		}
		sb.WriteByte(s[i])
		i++
	}
	return sb.String()
}

func isASCIISpace(b byte) bool {
	return b == ' ' || b == '\t' || b == '\n' || b == '\v' || b == '\f' || b == '\r'
}

func refTrim(s string) (string, bool) {
	i, j := 0, len(s)
	for i < j && isASCIISpace(s[i]) {
		i++
	}
	for j > i && isASCIISpace(s[j-1]) {
		j--
	}
	out := s[i:j]
	// white space beyond ASCII at the edges: unspecified
	if out != "" {
		r1, _ := utf8.DecodeRuneInString(out)
		r2, _ := utf8.DecodeLastRuneInString(out)
		if (r1 >= 0x80 && unicode.IsSpace(r1)) || (r2 >= 0x80 && unicode.IsSpace(r2)) {
			return "", false
		}
	}
	return out, true
}

func clamp(i, n int) int {
	if i < 0 {
		return 0
	}
	if i > n {
		return n
	}
	return i
}

func c17Eval(w *core.W, c *StrFnCase, src string, data map[string]interface{}) (interface{}, bool) {
	v, err, panicked, pv := resolveIn(data, src)
	w.Eval(1)
	if panicked {
		w.Violation("string-builtins", "C17/escaped-panic", c, nil, fmt.Sprint(pv), src)
		return nil, false
	}
	if err != nil {
		w.Violation("string-builtins", "C17/unexpected-error:"+c.Fn, c, "a value", err.Error(), fmt.Sprintf("%s with s=%q t=%q u=%q n=%d m=%d", src, clipS(c.S, 40), clipS(c.T, 40), clipS(c.U, 20), c.N, c.M))
		return nil, false
	}
	return v, true
}

var c17Check = core.Mon(c17, "string-builtins", func(w *core.W, c *StrFnCase) {
	data := map[string]interface{}{"s": c.S, "t": c.T, "u": c.U, "n": c.N, "m": c.M}
	if c.List != nil {
		data["list"] = c.List
		la := make([]interface{}, len(c.List))
		for i, e := range c.List {
			la[i] = e
		}
		data["alist"] = la
	}
	if c.Maps != nil {
		ms := make([]map[string]interface{}, len(c.Maps))
		for i, m := range c.Maps {
			ms[i] = map[string]interface{}{}
			for k, v := range m {
				ms[i][k] = v
			}
		}
		data["ms"] = ms
	}
	w.Count("fn:" + c.Fn)
	if c.S != "" || len(c.List) > 0 || len(c.Maps) > 0 {
		w.Nontrivial(core.HashStr(c))
	}
	args := fmt.Sprintf("s=%q t=%q u=%q n=%d m=%d", clipS(c.S, 40), clipS(c.T, 40), clipS(c.U, 20), c.N, c.M)
	expect := func(src string, want interface{}) bool {
		v, ok := c17Eval(w, c, src, data)
		if !ok {
			return false
		}
		match := false
		switch x := want.(type) {
		case int:
			match = mvMatches(mvInt(int64(x)), v)
		default:
			match = v == want
		}
		if !match {
			w.Violation("string-builtins", "C17/"+c.Fn, c, want, show(v), src+" with "+args)
			return false
		}
		return true
	}
	s, t := c.S, c.T
	n := len(s)
	switch c.Fn {
	case "startWith":
		expect("startWith(s, t)", len(t) <= n && s[:len(t)] == t)
	case "endWith":
		expect("endWith(s, t)", len(t) <= n && s[n-len(t):] == t)
	case "contains":
		expect("contains(s, t)", refIndex(s, t) >= 0)
	case "find":
		idx := refIndex(s, t)
		if expect("find(s, t)", idx) {
			w.Count("law:find-contains")
			expect("(find(s, t) == -1) == !contains(s, t)", true)
		}
	case "len":
		expect("len(s)", n)
	case "left":
		k := c.N
		if k < 0 {
			w.Skip("negative-length")
			return
		}
		if !expect("left(s, n)", s[:clamp(k, n)]) {
			return
		}
		w.Count("law:startWith-left")
		expect("startWith(s, left(s, n))", true)
		if k <= n {
			w.Count("law:left+right")
			expect("left(s, n) + right(s, len(s) - n) == s", true)
		}
	case "right":
		k := c.N
		if k < 0 {
			w.Skip("negative-length")
			return
		}
		if !expect("right(s, n)", s[n-clamp(k, n):]) {
			return
		}
		w.Count("law:endWith-right")
		expect("endWith(s, right(s, n))", true)
	case "mid":
		if c.N > c.M {
			// "the slice from i to j" with i behind j: there is no such piece of s - an error or the empty string, never some
			// other part of the text
			v, err, panicked, pv := resolveIn(data, "mid(s, n, m)")
			w.Eval(1)
			w.Count("mid_start_after_end")
			if panicked {
				w.Violation("string-builtins", "C17/escaped-panic", c, nil, fmt.Sprint(pv), "mid(s, n, m) with "+args)
			} else if err == nil && v != "" {
				w.Violation("string-builtins", "C17/mid-inverted-range", c, "an error or the empty string", show(v), "mid(s, n, m) with "+args)
			}
			return
		}
		expect("mid(s, n, m)", s[clamp(c.N, n):clamp(c.M, n)])
	case "lpad", "rpad":
		if len(c.T) != 1 || c.N < 0 || c.N > 1000000 {
			w.Skip("pad-outside-quantifier")
			return
		}
		var want string
		switch {
		case n > c.N:
			want = s[:c.N]
		case c.Fn == "lpad":
			want = strings.Repeat(c.T, c.N-n) + s
		default:
			want = s + strings.Repeat(c.T, c.N-n)
		}
		if c.N > 4096 {
			// compare through laws to keep the evidence small: exact length, position of s
			if expect("len("+c.Fn+"(s, t, n))", c.N) {
				if n > c.N {
					expect(c.Fn+"(s, t, n) == left(s, n)", true)
				} else if c.Fn == "lpad" {
					expect("endWith(lpad(s, t, n), s)", true)
				} else {
					expect("startWith(rpad(s, t, n), s)", true)
				}
			}
			return
		}
		expect(c.Fn+"(s, t, n)", want)
	case "replace":
		if c.T == "" {
			w.Skip("replace-empty-pattern")
			return
		}
		expect("replace(s, t, u)", refReplaceAll(s, c.T, c.U))
	case "trim":
		want, ok := refTrim(s)
		if !ok {
			w.Skip("trim-non-ascii-space")
			return
		}
		expect("trim(s)", want)
	case "lower", "upper":
		if !utf8.ValidString(s) {
			w.Skip("case-map-invalid-utf8")
			return
		}
		var sb strings.Builder
		for _, r := range s {
			if c.Fn == "lower" {
				sb.WriteRune(unicode.ToLower(r))
			} else {
				sb.WriteRune(unicode.ToUpper(r))
			}
		}
		if expect(c.Fn+"(s)", sb.String()) {
			expect(c.Fn+"("+c.Fn+"(s)) == "+c.Fn+"(s)", true)
		}
	case "join":
		var sb strings.Builder
		for i, e := range c.List {
			if i > 0 {
				sb.WriteString(t)
			}
			sb.WriteString(e)
		}
		expect("join(list, t)", sb.String())
		expect("join(alist, t)", sb.String())
	case "includes":
		found := false
		for _, e := range c.List {
			if e == t {
				found = true
			}
		}
		expect("includes(list, t)", found)
		expect("includes(alist, t)", found)
	case "mapToArr":
		v, ok := c17Eval(w, c, "mapToArr(ms, t)", data)
		if !ok {
			return
		}
		arr, isArr := v.([]interface{})
		good := (isArr || v == nil) && len(arr) == len(c.Maps)
		for i := 0; good && i < len(arr); i++ {
			want, has := c.Maps[i][t]
			if has {
				good = arr[i] == want
			} else {
				good = arr[i] == nil
			}
		}
		if !good {
			w.Violation("string-builtins", "C17/mapToArr", c, "projection on key "+t, show(v), "mapToArr(ms, t) with "+fmt.Sprint(c.Maps))
		}
	case "regexp":
		re, rerr := regexp.Compile(t)
		if rerr != nil {
			w.Count("regexp_invalid_patterns")
			v, err, panicked, pv := resolveIn(data, "regexp(s, t)")
			w.Eval(1)
			if panicked {
				w.Violation("string-builtins", "C17/escaped-panic", c, "an error", fmt.Sprint(pv), "regexp(s, t) "+args)
			} else if err == nil {
				w.Violation("string-builtins", "C17/regexp-invalid-pattern-no-error", c, "an error", show(v), "regexp(s, t) "+args)
			}
			return
		}
		expect("regexp(s, t)", re.MatchString(s))
	}
})

var c17Strings = []string{"", "a", "ab", "abc", "abab", "aaa", "aaaa", "abcabc", "hello world", " x ", "\t a b \n", "中文", "é", "aé中z", "ABC", "MiXeD", "ÀÉ", "a,b,c", "(", "a.b", "  ", "xyzzy", "ß", "İ", "\xff", "a\xffb", " x ", "0", "12.5",
	// format characters that are not white space (trim strips white space only) at the edges, alone and behind white space
	"a\nb", "x\ny\n", "\n", "a\r\nb", "-7", "+12", "-7x", "-", "--7", "-0.5", "+", "007",
	"\uFEFFid,name", "total\u200B", " \t\u200B \n", "\u2060x\u2060", "\u00ADa\u00AD", "\u200Bx", " \uFEFF", "\u180Ea", "a\u200D", "\u200E b \u200F", "\x00a\x00", "\x1fa\x7f", "\u0085"}

var c17Patterns = []string{"a", "^a", "a$", "^a+$", "a*", "[ab]+", "a|b", "(ab)+", ".", "^$", "\\d+", "\\s", "[^a]", "a{2}", "a{2,}", "(", "[a", "*", "a{2,1}", "\\", "(?i)abc", "中", "^.b", "b?c", "(a)(b)?", "x*", "\\bworld\\b", "[a-c]{3}", "(?P<n>a)", "\\p{Han}+", "a**", "(?<x>a)",
	// an unmatched closing parenthesis as the only syntax, brackets that are literals, slash-delimited lookalikes
	"a.b", "^.*$", "^.$", "x.y.", ".+", "(?s)a.b", "(?m)^b$", "a\\nb", "[^a]b",
	")", "a)", "total)", "())", "]", "}", "a]", "/a/", "/usr/", "/a/i", "/^a/m", "//", "/", "a/i",
	// blanks at the edges of a pattern are part of it
	"a ", " a", " ", "  ", "b\n", "\ta", "x \n", " x ", "\u00a0", "a\u3000"}

// StrKindCase: the same text supplied by the caller as a defined type and as its underlying type.
type StrKindCase struct {
	Src  string `json:"src"`
	S    string `json:"s"`
	Kind string `json:"kind"` // string | bytes | runes
}

type kStr string
type kBytes []byte
type kRunes []rune

// A defined type is converted for a string parameter exactly like its underlying type (json.RawMessage like
// []byte, a defined string type like string): which Go type names a caller uses is not part of the text.
var c17Kinds = core.Mon(c17, "string-kinds", func(w *core.W, c *StrKindCase) {
	var plain, defined interface{}
	switch c.Kind {
	case "string":
		plain, defined = c.S, kStr(c.S)
	case "bytes":
		plain, defined = []byte(c.S), kBytes(c.S)
	default:
		if !utf8.ValidString(c.S) {
			w.Skip("runes-of-invalid-utf8")
			return
		}
		plain, defined = []rune(c.S), kRunes(c.S)
	}
	w.Eval(2)
	w.Count("string_kind_cases")
	w.Nontrivial("kind:" + c.Kind + "|" + c.Src + "|" + c.S)
	data := func(s interface{}) map[string]interface{} {
		return map[string]interface{}{"s": s, "t": "a", "list": []interface{}{s, "a"}}
	}
	v1, e1, p1, pv1 := resolveIn(data(plain), c.Src)
	v2, e2, p2, pv2 := resolveIn(data(defined), c.Src)
	o1, o2 := outcome(v1, e1, p1, pv1), outcome(v2, e2, p2, pv2)
	if p1 || p2 {
		w.Violation("string-kinds", "C17/escaped-panic", c, nil, fmt.Sprint(pv1, pv2), c.Src)
		return
	}
	if o1 != o2 {
		w.Violation("string-kinds", "C17/defined-type-treated-differently:"+c.Kind, c, clipS(o1, 200), clipS(o2, 200),
			fmt.Sprintf("%s with s=%q supplied as %T and as %T", c.Src, clipS(c.S, 40), plain, defined))
	}
})

func init() { c17.Run = runC17 }

func runC17(w *core.W) {
	r := w.RNG("strings")
	rs := func() string {
		if r.Intn(4) == 0 {
			var sb strings.Builder
			for i, n := 0, r.Intn(12); i < n; i++ {
				sb.WriteString([]string{"a", "b", "ab", " ", "中", "é", "A", "z", "\t", ".", "0"}[r.Intn(11)])
			}
			return sb.String()
		}
		return c17Strings[r.Intn(len(c17Strings))]
	}
	sub := func(s string) string {
		if len(s) == 0 || r.Intn(3) == 0 {
			return rs()
		}
		i := r.Intn(len(s) + 1)
		j := i + r.Intn(len(s)-i+1)
		return s[i:j]
	}
	idx := 0
	sample := func(c *StrFnCase) {
		idx++
		if idx%3001 == 0 {
			w.Sample(c.Fn, fmt.Sprintf("%s(%q, %q, %q, n=%d, m=%d)", c.Fn, clipS(c.S, 30), clipS(c.T, 20), clipS(c.U, 10), c.N, c.M))
		}
	}
	run := func(c *StrFnCase) { c17Check(w, c); sample(c) }
	// 0. defined types against their underlying types
	ki := 0
	for _, src := range []string{"len(s)", "left(s, 2)", "right(s, 2)", "mid(s, 1, 3)", "upper(s)", "lower(s)", "trim(s)", "startWith(s, t)", "endWith(s, t)", "contains(s, t)", "find(s, t)", "replace(s, t, 'X')", "lpad(s, 'x', 12)", "rpad(s, 'x', 12)",
		"regexp(s, '^a')", "left(s, 2) + right(s, len(s) - 2)", "startWith(t, s)", "contains(t, s)", "replace(t, s, 'X')", "join(list, '-')", "includes(list, t)", "lpad('a', s, 4)"} {
		for _, s := range c17Strings {
			for _, k := range []string{"string", "bytes", "runes"} {
				ki++
				if w.Mine(ki) {
					c17Kinds(w, &StrKindCase{Src: src, S: s, Kind: k})
				}
			}
		}
	}
	// 1. exhaustive: every string x every other string as needle; every position
	si := 0
	for _, s := range c17Strings {
		si++
		if !w.Mine(si) {
			continue
		}
		for _, t := range c17Strings {
			for _, fn := range []string{"startWith", "endWith", "contains", "find"} {
				run(&StrFnCase{Fn: fn, S: s, T: t})
			}
			for _, u := range []string{"", "X", "ab", t + t} {
				run(&StrFnCase{Fn: "replace", S: s, T: t, U: u})
			}
		}
		// every substring as needle
		for i := 0; i <= len(s); i++ {
			for j := i; j <= len(s); j++ {
				for _, fn := range []string{"startWith", "endWith", "contains", "find"} {
					run(&StrFnCase{Fn: fn, S: s, T: s[i:j]})
				}
			}
		}
		for n := -3; n <= len(s)+3; n++ {
			run(&StrFnCase{Fn: "left", S: s, N: n})
			run(&StrFnCase{Fn: "right", S: s, N: n})
			for m := -3; m <= len(s)+3; m++ {
				run(&StrFnCase{Fn: "mid", S: s, N: n, M: m})
			}
			for _, p := range []string{"x", " ", "0", "-", "+", "7"} {
				run(&StrFnCase{Fn: "lpad", S: s, T: p, N: n})
				run(&StrFnCase{Fn: "rpad", S: s, T: p, N: n})
			}
		}
		for _, fn := range []string{"len", "lower", "upper", "trim"} {
			run(&StrFnCase{Fn: fn, S: s})
		}
		for _, p := range c17Patterns {
			run(&StrFnCase{Fn: "regexp", S: s, T: p})
		}
	}
	w.ExhaustivePart(fmt.Sprintf("%d subject strings x every needle / substring / position -3..len+3 / pad / pattern", len(c17Strings)))
	// 1b. case mapping of every code point that has a case at all (upper, lower or title form other than itself),
	// eight to a subject, between ASCII letters
	{
		var cased []rune
		for cp := rune(0x80); cp <= unicode.MaxRune; cp++ {
			if cp >= 0xD800 && cp <= 0xDFFF {
				continue
			}
			u, l := unicode.ToUpper(cp), unicode.ToLower(cp)
			if (u != cp || l != cp || unicode.ToTitle(cp) != cp) && unicode.ToUpper(u) == u && unicode.ToLower(l) == l {
				cased = append(cased, cp)
			}
		}
		for ci := 0; ci < len(cased); ci += 8 {
			if !w.Mine(ci / 8) {
				continue
			}
			end := ci + 8
			if end > len(cased) {
				end = len(cased)
			}
			s := "a" + string(cased[ci:end]) + "Z"
			run(&StrFnCase{Fn: "upper", S: s})
			run(&StrFnCase{Fn: "lower", S: s})
			w.Count("cased_code_point_subjects")
		}
	}
	// 2. random
	for i, n := 0, w.Pick(12000, 200000); i < n; i++ {
		s := rs()
		t := sub(s)
		for _, fn := range []string{"startWith", "endWith", "contains", "find"} {
			run(&StrFnCase{Fn: fn, S: s, T: t})
		}
		run(&StrFnCase{Fn: "replace", S: s, T: t, U: rs()})
		k := r.Intn(len(s)+8) - 3
		run(&StrFnCase{Fn: "left", S: s, N: k})
		run(&StrFnCase{Fn: "right", S: s, N: k})
		run(&StrFnCase{Fn: "mid", S: s, N: k, M: k + r.Intn(len(s)+4)})
		padN := r.Intn(40)
		if i%500 == 0 {
			padN = []int{4097, 65536, 1000000, 99999}[r.Intn(4)]
		}
		run(&StrFnCase{Fn: []string{"lpad", "rpad"}[r.Intn(2)], S: s, T: string(rune('a' + r.Intn(26))), N: padN})
		for _, fn := range []string{"len", "lower", "upper"} {
			run(&StrFnCase{Fn: fn, S: s})
		}
		ws := []string{"", " ", "\t", "\n", " \r\n ", "  "}
		run(&StrFnCase{Fn: "trim", S: ws[r.Intn(len(ws))] + s + ws[r.Intn(len(ws))]})
		run(&StrFnCase{Fn: "regexp", S: s, T: c17Patterns[r.Intn(len(c17Patterns))]})
		// lists
		ln := r.Intn(5)
		list := make([]string, ln)
		for j := range list {
			list[j] = rs()
		}
		if list == nil {
			list = []string{}
		}
		item := rs()
		if ln > 0 && r.Intn(2) == 0 {
			item = list[r.Intn(ln)]
		}
		run(&StrFnCase{Fn: "join", T: []string{",", "", " - ", "中"}[r.Intn(4)], List: list, S: "x"})
		run(&StrFnCase{Fn: "includes", T: item, List: list, S: "x"})
		maps := make([]map[string]string, r.Intn(4))
		for j := range maps {
			maps[j] = map[string]string{}
			for _, k := range []string{"name", "k", "x"} {
				if r.Intn(3) != 0 {
					maps[j][k] = rs()
				}
			}
		}
		run(&StrFnCase{Fn: "mapToArr", T: []string{"name", "k", "missing"}[r.Intn(3)], Maps: maps, S: "x"})
	}
	// sizes: long lists and long strings around powers of two
	for zi, n := range []int{0, 1, 2, 7, 8, 9, 63, 64, 65, 255, 256, 257, 1023, 1024, 1025, 4096, 10000} {
		if !w.Mine(zi) {
			continue
		}
		list := make([]string, n)
		for j := range list {
			list[j] = fmt.Sprint("e", j%10)
		}
		if n == 0 {
			list = []string{}
		}
		run(&StrFnCase{Fn: "join", T: ",", List: list, S: "x"})
		run(&StrFnCase{Fn: "includes", T: fmt.Sprint("e", 9), List: list, S: "x"})
		run(&StrFnCase{Fn: "includes", T: "absent", List: list, S: "x"})
		long := strings.Repeat("ab", n)
		for _, fn := range []string{"len", "lower", "upper", "trim"} {
			run(&StrFnCase{Fn: fn, S: long})
		}
		run(&StrFnCase{Fn: "find", S: long + "z", T: "z"})
		run(&StrFnCase{Fn: "endWith", S: long + "z", T: "bz"})
		run(&StrFnCase{Fn: "replace", S: long, T: "ab", U: "c"})
		run(&StrFnCase{Fn: "left", S: long, N: n})
		run(&StrFnCase{Fn: "right", S: long, N: n + 1})
		run(&StrFnCase{Fn: "mid", S: long, N: n / 2, M: n})
		run(&StrFnCase{Fn: "lpad", S: "s", T: "p", N: n})
		run(&StrFnCase{Fn: "rpad", S: long, T: "p", N: n})
		run(&StrFnCase{Fn: "regexp", S: long, T: "^(ab)*$"})
		w.Count("size_cases")
	}
	_ = val.Nil
}

var _ = rand.Intn
