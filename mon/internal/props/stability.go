package props

import (
	"context"
	"fmt"
	"strings"

	"math/big"

	"github.com/aundis/formula"
	"github.com/ericlagergren/decimal"

	"verifmon/internal/core"
	"verifmon/internal/obs"
)

// StoredNumCase: a number bound to a local is observed (as text, by comparison, by arithmetic) inside the evaluation
// that binds it, and again in later evaluations by the same runner with other evaluations in between. Nothing
// assigns the local in between, so every observation is what it was: whatever the exact text of a number is,
// it does not change while the number sits in the map.
type StoredNumCase struct {
	Val     string   `json:"val"`     // formula text of the number
	Top     bool     `json:"top"`     // the binding is the top-level result of its evaluation (`$a = V` alone)
	Between []string `json:"between"` // evaluated in between (none assigns $a)
}

const stableProbe = "[toString($a), '' + $a, $a == V, $a === V, $a - V, $a * 1, typeof $a, [$a], $a > V, $a < V]"

func stableCheck(w *core.W, mon, id string, c *StoredNumCase) {
	wide, _ := new(decimal.Big).SetString("98765432109876543210987654321000000000000")
	// numbers the way hosts build them: with a context of their own choice (60 digits here), or without any (mantissa and scale)
	w50, _ := decimal.WithPrecision(60).SetString("12345678901234567890123456789012345678901234567890")
	w40f, _ := decimal.WithPrecision(60).SetString("-1234567890123456789012345678901234.567891")
	m20, _ := new(big.Int).SetString("12345678901234567890", 10)
	raw20 := new(decimal.Big).SetBigMantScale(m20, 2)
	m33, _ := new(big.Int).SetString("-987654321098765432109876543210123", 10)
	raw33 := new(decimal.Big).SetBigMantScale(m33, -3)
	data := func() map[string]interface{} {
		return map[string]interface{}{"w50": w50, "w40f": w40f, "raw20": raw20, "raw33": raw33, "dwide": wide, "d150": decimal.New(150, 2), "d100": decimal.New(100, 0), "d1e2": decimal.New(1, -2), "i100": 100, "f": 2500.0, "x": 3}
	}
	probe := strings.ReplaceAll(stableProbe, "V", "("+c.Val+")")
	w.Eval(1)
	w.Count("stability_cases")
	w.Nontrivial("stable:" + core.HashStr(c))
	// reference: binding and observation in one evaluation on a fresh runner
	want, err0, p0, _ := resolveIn(data(), "$a = "+c.Val+", "+probe)
	if p0 || err0 != nil {
		w.Skip("stability-value-not-evaluable")
		return
	}
	ws := obs.SnapshotValues(want)
	// whatever V is, the local bound to it equals it: `$a == V`, `$a === V`, neither above nor below it
	if arr, _ := want.([]interface{}); len(arr) == 10 {
		if arr[2] != true || arr[3] != true || arr[8] != false || arr[9] != false {
			w.Violation(mon, id+"/local-differs-from-what-was-bound", c, "[... true true ... false false]", clipS(show(want), 300),
				fmt.Sprintf("$a = %s, then %s: the local is not equal to the value it was bound to", c.Val, probe))
			return
		}
	}
	r := formula.NewRunner()
	r.SetThis(data())
	run := func(src string) (interface{}, bool) {
		sc, err := hostParse([]byte(src), true)
		if err != nil {
			return nil, false
		}
		var v interface{}
		var rerr error
		p, _ := core.Call(func() { v, rerr = r.Resolve(context.Background(), sc.Expression) })
		return v, !p && rerr == nil
	}
	first := "$a = " + c.Val
	if !c.Top {
		first += ", " + probe
	}
	v, ok := run(first)
	if !ok {
		w.Violation(mon, id+"/stability-error", c, "as on a fresh runner", "error", first)
		return
	}
	if !c.Top && obs.SnapshotValues(v) != ws {
		w.Violation(mon, id+"/evaluation-not-repeatable", c, clipS(ws, 200), clipS(obs.SnapshotValues(v), 200), first)
		return
	}
	for round := 0; round < 2; round++ {
		for _, b := range c.Between {
			run(b)
		}
		v, ok = run(probe)
		if !ok || obs.SnapshotValues(v) != ws {
			w.Violation(mon, id+"/stored-number-changed", c, clipS(show(want), 300), clipS(show(v), 300),
				fmt.Sprintf("observations %s of the local bound by %q: in a later evaluation (round %d) they differ from the observations made inside the binding evaluation", probe, first, round+1))
			return
		}
	}
}

var stableValues = []string{"100", "1.50", "10", "2 * 5", "100000000000000000000", "98765432109876543210.50 + 0.50", "12345678901234567890 * 1000", "1e2", "1e21", "123456789012345678901234567890000", "0.10", "0.000",
	"-500", "w50", "w40f", "raw20", "raw33", "dwide", "d150", "d100", "d1e2", "i100", "f", "1200 / 4", "7.0", "30 % 20", "100 + 0", "5e-1 * 200", "99999999999999999999 + 1", "1000000 * 1000000 * 1000000 * 1000"}

var stableBetween = [][]string{{}, {"1 + 1"}, {"$b = 7", "x * 2", "toString(5)"}, {"$b = $a", "$b + 1", "[$a, $a]", "max($a, 1)"}, {"nofn()", "left('abc', 0 - 1)"}}

func runStability(w *core.W, f func(w *core.W, c *StoredNumCase)) {
	idx := 0
	for _, v := range stableValues {
		for _, top := range []bool{true, false} {
			for _, b := range stableBetween {
				idx++
				if w.Mine(idx) {
					f(w, &StoredNumCase{Val: v, Top: top, Between: b})
				}
			}
		}
	}
}

var c20Stable = core.Mon(c20, "stored-number-stability", func(w *core.W, c *StoredNumCase) { stableCheck(w, "stored-number-stability", "C20", c) })
var c04Stable = core.Mon(c04, "stored-number-stability", func(w *core.W, c *StoredNumCase) { stableCheck(w, "stored-number-stability", "C04", c) })

// StormCase: N failing evaluations of one kind on a long-lived runner, then ordinary formulas: a failed
// evaluation leaves nothing behind but the locals it had bound before failing, however many there were.
type StormCase struct {
	Fail string `json:"fail"`
	N    int    `json:"n"`
}

var stormFails = []string{"nope()", "$seen = 1, (nope($seen))", "left('abc', 0 - 1)", "null!.k", "1 = 2", "boom(1)", "regexp('a', '(')", "((((((((nope()))))))))", "[1, [2, [3, [nope()]]]]", "x.y.z!.w", "max('a')",
	"true ? nope() : 0", "-(-(-(-(nope()))))", "fid(fid(fid(nope())))", "lpad('a', 'b', 0 - 5)", "$seen = nope()", "1 + 'a' + nope()", "failing()", "mid('abc', 5, 1) + nope()"}

func stormBattery() []string {
	deep := strings.Repeat("(", 200) + "1" + strings.Repeat(")", 200)
	chain := "1" + strings.Repeat(" + 1", 300)
	pre := strings.Repeat("-", 150) + "1"
	arr := strings.Repeat("[", 120) + "x" + strings.Repeat("]", 120)
	calls := strings.Repeat("fid(", 100) + "x" + strings.Repeat(")", 100)
	return []string{"1 + 2", "$seen", "[x, $a]", "x ? 'y' : 'n'", "$a = x + 1, $a * 2", deep, chain, pre, arr, calls, "max(1, 2, 3)", "left('abc', 2)", "fid(x) + 1"}
}

var c20Storm = core.Mon(c20, "failure-storm", func(w *core.W, c *StormCase) {
	data := func() map[string]interface{} {
		return map[string]interface{}{"x": 3, "fid": func(v interface{}) (interface{}, error) { return v, nil },
			"boom": func(v interface{}) (interface{}, error) { panic("host panic") }, "failing": func() (interface{}, error) { return nil, fmt.Errorf("no") }}
	}
	fsc, err := hostParse([]byte(c.Fail), true)
	if err != nil {
		w.Skip("storm-unparsable")
		return
	}
	r := formula.NewRunner()
	r.SetThis(data())
	ctx := context.Background()
	w.Nontrivial("storm:" + c.Fail + fmt.Sprint(c.N))
	for i := 0; i < c.N; i++ {
		var ferr error
		p, pv := core.Call(func() { _, ferr = r.Resolve(ctx, fsc.Expression) })
		if p {
			w.Violation("failure-storm", "C20/escaped-panic", c, "an error", fmt.Sprint(pv), c.Fail)
			return
		}
		if ferr == nil {
			w.Skip("storm-formula-does-not-fail")
			return
		}
		if i%4096 == 0 {
			w.Beat()
		}
	}
	w.Eval(c.N)
	w.Count("storm_failures_injected")
	// the reference: a fresh runner over an equal map that saw one failure of the same kind (which may have bound $seen)
	f := formula.NewRunner()
	f.SetThis(data())
	core.Call(func() { f.Resolve(ctx, fsc.Expression) })
	for _, src := range stormBattery() {
		sc, perr := hostParse([]byte(src), true)
		if perr != nil {
			continue
		}
		var v1, v2 interface{}
		var e1, e2 error
		p1, pv1 := core.Call(func() { v1, e1 = r.Resolve(ctx, sc.Expression) })
		p2, pv2 := core.Call(func() { v2, e2 = f.Resolve(ctx, sc.Expression) })
		w.Count("storm_comparisons")
		if o1, o2 := outcome(v1, e1, p1, pv1), outcome(v2, e2, p2, pv2); o1 != o2 {
			w.Violation("failure-storm", "C20/failed-evaluations-leave-a-trace", c, clipS(o2, 200), clipS(o1, 200),
				fmt.Sprintf("%q after %d failing evaluations of %q on the same runner, against a runner that saw one", clipS(src, 80), c.N, c.Fail))
			return
		}
	}
})

func runStorm(w *core.W) {
	n := w.Pick(6000, 150000)
	for i, f := range stormFails {
		if w.Mine(i) {
			c20Storm(w, &StormCase{Fail: f, N: n})
			c20Storm(w, &StormCase{Fail: f, N: 70})
		}
	}
}
