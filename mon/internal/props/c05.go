package props

import (
	"bytes"
	"fmt"
	"math/rand"
	"strconv"
	"strings"

	"verifmon/internal/core"
	"verifmon/internal/ref"
	"verifmon/internal/val"
)

var c05 = core.Register(&core.Prop{
	ID:    "C05",
	Title: "Ordering and equality are lawful and representation-independent",
	Rule: "all ordered pairs over a value grid (numbers in several spellings of equal and neighbouring values, results of arithmetic, -0, 34-digit neighbours, Go ints/floats from data; strings incl. prefixes, multi-byte and digit strings; booleans; null, typed nil pointer, missing name) " +
		"and random pairs beyond it, each under all eight operators; non-trivial = the two operands are written differently; distinct by (a, b)",
	Assumptions: []string{
		"relational operators across kinds, NaN and infinities are unspecified (the statement says 'finite numbers' / 'two strings')",
		"'==' across kinds is only required to be the negation of '!='",
	},
	Shards: func(tier string) int { return pickTier(tier, 4, 16) },
	Floors: func(c map[string]int64, tier string) []string {
		var out []string
		for _, k := range []string{"num_num_pairs", "str_str_pairs", "mixed_kind_pairs", "equal_value_different_spelling", "null_pairs", "data_operands"} {
			if c[k] == 0 {
				out = append(out, "coverage floor: no "+k)
			}
		}
		return out
	},
})

// CmpVal is one operand: its formula text, its kind and model value.
type CmpVal struct {
	Src  string  `json:"src"`
	Kind string  `json:"kind"` // num str bool null
	Num  string  `json:"num,omitempty"`
	Str  string  `json:"str,omitempty"`
	B    bool    `json:"b,omitempty"`
	Data *val.KV `json:"data,omitempty"`
}

type CmpCase struct {
	A CmpVal `json:"a"`
	B CmpVal `json:"b"`
}

var cmpOps = []string{"<", ">", "<=", ">=", "==", "!=", "===", "!=="}

var c05Laws = core.Mon(c05, "comparison-laws", func(w *core.W, c *CmpCase) {
	var kv []val.KV
	if c.A.Data != nil {
		kv = append(kv, *c.A.Data)
		w.Count("data_operands")
	}
	if c.B.Data != nil && (c.A.Data == nil || c.A.Data.K != c.B.Data.K) {
		kv = append(kv, *c.B.Data)
		w.Count("data_operands")
	}
	data := val.Map(kv...)
	res := map[string]bool{}
	for _, op := range cmpOps {
		src := "(" + c.A.Src + ") " + op + " (" + c.B.Src + ")"
		out := evaluate(src, data, nil)
		w.Eval(1)
		if out.ParseErr != nil {
			w.Violation("comparison-laws", "C05/unparsable", c, "parses", out.ParseErr.Error(), src)
			return
		}
		if out.Panicked || out.Err != nil {
			w.Violation("comparison-laws", "C05/error:"+op, c, "boolean", fmt.Sprint(out.PanicVal, out.Err), src)
			return
		}
		b, ok := out.Val.(bool)
		if !ok {
			w.Violation("comparison-laws", "C05/not-boolean:"+op, c, "boolean", show(out.Val), src)
			return
		}
		res[op] = b
	}
	if c.A.Src != c.B.Src {
		w.Nontrivial(c.A.Src + "\x00" + c.B.Src)
	}
	pair := fmt.Sprintf("a=%s b=%s", c.A.Src, c.B.Src)
	bad := func(sig string, exp, got interface{}, what string) {
		w.Violation("comparison-laws", "C05/"+sig, c, exp, got, what+" for "+pair+fmt.Sprintf(" results=%v", res))
	}
	// negation laws hold for every pair
	if res["!="] == res["=="] {
		bad("negation:!=", !res["=="], res["!="], "a != b is not the negation of a == b")
	}
	if res["!=="] == res["==="] {
		bad("negation:!==", !res["==="], res["!=="], "a !== b is not the negation of a === b")
	}
	ka, kb := c.A.Kind, c.B.Kind
	// strict equality
	var strict bool
	switch {
	case ka == "null" && kb == "null":
		strict = true
		w.Count("null_pairs")
	case ka != kb:
		strict = false
	case ka == "num":
		da, _ := ref.ParseDec(c.A.Num)
		db, _ := ref.ParseDec(c.B.Num)
		strict = da.Cmp(db) == 0
	case ka == "str":
		strict = c.A.Str == c.B.Str
	case ka == "bool":
		strict = c.A.B == c.B.B
	}
	if res["==="] != strict {
		bad("strict-equality", strict, res["==="], "a === b")
	}
	if ka == kb && res["=="] != res["==="] {
		bad("loose-vs-strict", res["==="], res["=="], "== differs from === on same-kind operands")
	}
	if ka != kb {
		w.Count("mixed_kind_pairs")
	}
	switch {
	case ka == "num" && kb == "num":
		w.Count("num_num_pairs")
		da, _ := ref.ParseDec(c.A.Num)
		db, _ := ref.ParseDec(c.B.Num)
		cmp := da.Cmp(db)
		if cmp == 0 && c.A.Src != c.B.Src {
			w.Count("equal_value_different_spelling")
		}
		n := 0
		for _, op := range []string{"<", "==", ">"} {
			if res[op] {
				n++
			}
		}
		if n != 1 {
			bad("trichotomy", "exactly one of < == >", n, "trichotomy")
		}
		if res["<"] != (cmp < 0) || res[">"] != (cmp > 0) || res["=="] != (cmp == 0) {
			bad("numeric-order", cmp, fmt.Sprint(res), "order disagrees with the numeric order")
		}
		if res["<="] != (res["<"] || res["=="]) {
			bad("le-disjunction", res["<"] || res["=="], res["<="], "<= is not (< or ==)")
		}
		if res[">="] != (res[">"] || res["=="]) {
			bad("ge-disjunction", res[">"] || res["=="], res[">="], ">= is not (> or ==)")
		}
	case ka == "str" && kb == "str":
		w.Count("str_str_pairs")
		cmp := bytes.Compare([]byte(c.A.Str), []byte(c.B.Str))
		if res["<"] != (cmp < 0) || res[">"] != (cmp > 0) || res["<="] != (cmp <= 0) || res[">="] != (cmp >= 0) || res["=="] != (cmp == 0) {
			bad("string-order", cmp, fmt.Sprint(res), "strings do not compare byte-wise")
		}
	}
})

func numVal(e *AExpr) (CmpVal, bool) {
	m := e.model()
	if m.Skip != "" || m.RemOpen || !m.V.Finite() {
		return CmpVal{}, false
	}
	src := e.Src()
	return CmpVal{Src: src, Kind: "num", Num: decText(m.V)}, true
}

// decText writes a Dec as text ParseDec reads back.
func decText(d ref.Dec) string {
	s := d.Coef.String()
	if d.Neg {
		s = "-" + s
	}
	return s + "e" + strconv.Itoa(d.Exp)
}

func strLit(s string) string {
	var sb strings.Builder
	sb.WriteByte('\'')
	for i := 0; i < len(s); i++ {
		switch s[i] {
		case '\'':
			sb.WriteString("\\'")
		case '\\':
			sb.WriteString("\\\\")
		case '\n':
			sb.WriteString("\\n")
		case '\r':
			sb.WriteString("\\r")
		default:
			sb.WriteByte(s[i])
		}
	}
	sb.WriteByte('\'')
	return sb.String()
}

func c05Grid(r *rand.Rand, extra int) []CmpVal {
	var g []CmpVal
	lit := func(s string) {
		if v, ok := numVal(&AExpr{Lit: s}); ok {
			g = append(g, v)
		}
	}
	for _, s := range []string{"1", "1.0", "1e0", "10e-1", "0.1e1", "001", "1.00000000000000000000000000000000", "0", "0.0", "0e5", "-1", "-1.0", "2", "0.3", ".3", "0.30", "3e-1",
		"0.9999999999999999999999999999999999", "1.000000000000000000000000000000001", "9999999999999999999999999999999999", "9999999999999999999999999999999998",
		"1e34", "1e-30", "-1e-30",
		// wider than the 34 digits of the arithmetic context: literals (and data decimals below) are exact at any width
		"1000000000000000000000000000000000000", "1000000000000000000000000000000000001", "1234567890123456789012345678901234567890", "1234567890123456789012345678901234567891",
		"0.1234567890123456789012345678901234567890", "0.1234567890123456789012345678901234567891", "99999999999999999999999999999999999", "100000000000000000000000000000000000",
		"1e-6200", "2e-6200", "1e-7000", "1e-6999", "1e-6143", "1e-6176", "9e-6177", "1e6100", "9e6099", "1.5e6000", "1e6144", "1e-6100", "0e-7000", "123456789012345678", "123456789012345679", "9007199254740993", "9007199254740992", "100", "1e2", "99.99", "-0.5", "12.5", "0.1", "0.2",
		// one number in several spellings (either case of the exponent letter, padded fractions, exponents ending in zero)
		"1.5E10", "1.5e10", "1.50E10", "15000000000", "15E9", "1.5E+10", "0.15E11", "2.50E-10", "2.5e-10", "25E-11", "1.0E100", "1E100", "10.0e99"} {
		lit(s)
	}
	ar := func(op, a, b string) {
		if v, ok := numVal(&AExpr{Op: op, L: &AExpr{Lit: a}, R: &AExpr{Lit: b}}); ok {
			g = append(g, v)
		}
	}
	ar("+", "0.1", "0.2")
	ar("*", "0", "-1")
	ar("-", "1", "1")
	ar("/", "1", "3")
	ar("*", "0.5", "2")
	ar("-", "0.3", "0.0")
	ar("/", "10", "4")
	if v, ok := numVal(&AExpr{Op: "*", L: &AExpr{Op: "/", L: &AExpr{Lit: "1"}, R: &AExpr{Lit: "3"}}, R: &AExpr{Lit: "3"}}); ok {
		g = append(g, v)
	}
	for i := 0; i < extra; i++ {
		lit(randOperand(r))
	}
	// numbers that come out of coercions, builtins, selections and host functions
	for _, e := range [][2]string{{"(+'5')", "5"}, {"(-'3')", "-3"}, {"toFloat('2.5')", "2.5"}, {"toInt('7.9')", "7"}, {"len('abc')", "3"}, {"find('abc', 'c')", "2"}, {"round(2.4)", "2"}, {"abs(0 - 1)", "1"},
		{"max(1, 2)", "2"}, {"(1 ? 1 : 0)", "1"}, {"(0 || 2)", "2"}, {"(null ?? 1)", "1"}, {"($l = 3)", "3"}, {"floor(0.3)", "0"}, {"sqrt(4)", "2"}, {"year(date(2, 1, 1))", "2"}, {"(1, 2)", "2"}, {"~0", "-1"}, {"(3 & 1)", "1"}} {
		g = append(g, CmpVal{Src: e[0], Kind: "num", Num: e[1]})
	}
	g = append(g, CmpVal{Src: "fseven()", Kind: "num", Num: "7", Data: &val.KV{K: "fseven", V: val.Fn("retint")}},
		CmpVal{Src: "fhalf()", Kind: "num", Num: "1.5", Data: &val.KV{K: "fhalf", V: val.Fn("retf32")}}, CmpVal{Src: "fsame(1)", Kind: "num", Num: "1", Data: &val.KV{K: "fsame", V: val.Fn("id")}})
	// data numbers
	dn := func(name string, v val.V, num string) {
		g = append(g, CmpVal{Src: name, Kind: "num", Num: num, Data: &val.KV{K: name, V: v}})
	}
	dn("di1", val.Int("int", 1), "1")
	dn("df1", val.F64(1), "1")
	dn("di64", val.Int("int64", 9007199254740993), "9007199254740993")
	dn("df03", val.F64(0.3), "0.3")
	dn("df01", val.F64(0.1), "0.1")
	dn("di0", val.Int("int32", 0), "0")
	dn("dfneg0", val.F64(-0.0*1), "0")
	dn("dd1", val.Dec("1.000"), "1")
	dn("df125", val.F64(12.5), "12.5")
	// a float32 and the float64 that holds the very same real number are one value
	for i, f := range []float32{0.1, 1.1, 2.675, 33.333332, 16777216, 0.5} {
		wide := float64(f)
		num := strconv.FormatFloat(wide, 'f', -1, 64)
		dn(fmt.Sprintf("df32_%d", i), val.F32(f), num)
		dn(fmt.Sprintf("df64w_%d", i), val.F64(wide), num)
	}
	dn("dwide1", val.Dec("1234567890123456789012345678901234567890"), "1234567890123456789012345678901234567890")
	dn("dwide2", val.Dec("1234567890123456789012345678901234567891"), "1234567890123456789012345678901234567891")
	dn("dwide3", val.Dec("1000000000000000000000000000000000000.5"), "1000000000000000000000000000000000000.5")
	// decimals the host built without a context (mantissa and scale) or in a 60-digit context of its own, and their negations
	dn("draw20", val.V{K: "decraw", S: "12345678901234567.89"}, "12345678901234567.89")
	dn("draw33", val.V{K: "decraw", S: "-987654321098765432109876543210.123"}, "-987654321098765432109876543210.123")
	dn("d60w", val.V{K: "dec60", S: "1234567890123456789012345678901234567891"}, "1234567890123456789012345678901234567891")
	for _, e := range [][3]string{{"(-draw20)", "-12345678901234567.89", "draw20"}, {"(0 - draw20)", "-12345678901234567.89", "draw20"}, {"(draw20 * -1)", "-12345678901234567.89", "draw20"}, {"(-(-draw20))", "12345678901234567.89", "draw20"},
		{"(+draw20)", "12345678901234567.89", "draw20"}, {"(-draw33)", "987654321098765432109876543210.123", "draw33"}, {"($l = draw20)", "12345678901234567.89", "draw20"}, {"max(draw20, 1)", "12345678901234567.89", "draw20"}} {
		kind, sv := "decraw", map[string]string{"draw20": "12345678901234567.89", "draw33": "-987654321098765432109876543210.123"}[e[2]]
		g = append(g, CmpVal{Src: e[0], Kind: "num", Num: e[1], Data: &val.KV{K: e[2], V: val.V{K: kind, S: sv}}})
	}
	// strings
	for _, s := range []string{"", "a", "ab", "abc", "b", "B", "é", "中", "az", "aé", "0", "1", "10", "9", "1.0", " ", "a ", "true", "null",
		"\U0001F600", "\uff0c", "\ue000", "\U00020000", "\ufffd", "a\U0001F600", "a\uff0c", "\xff", "\xc3", "a\xff", "\U0010FFFF", "\uffff", "\ud7ff",
		// look-alikes: full-width forms, the ideographic space, composed and decomposed accents, case variants
		"ABC", "\uff21\uff22\uff23", "123", "\uff11\uff12\uff13", "(", "\uff08", "\u3000", "\u00e9", "e\u0301", "abc", "Abc", "\u00c5", "\u212b", "ss", "\u00df", "\ufb01", "fi"} {
		g = append(g, CmpVal{Src: strLit(s), Kind: "str", Str: s})
	}
	g = append(g, CmpVal{Src: "ds", Kind: "str", Str: "ab", Data: &val.KV{K: "ds", V: val.Str("ab")}})
	g = append(g, CmpVal{Src: "'a' + 'b'", Kind: "str", Str: "ab"})
	for i := 0; i < extra/4; i++ {
		s := strPoolC05[r.Intn(len(strPoolC05))] + strPoolC05[r.Intn(len(strPoolC05))]
		g = append(g, CmpVal{Src: strLit(s), Kind: "str", Str: s})
	}
	// booleans
	g = append(g, CmpVal{Src: "true", Kind: "bool", B: true}, CmpVal{Src: "false", Kind: "bool", B: false},
		CmpVal{Src: "db", Kind: "bool", B: true, Data: &val.KV{K: "db", V: val.Bool(true)}}, CmpVal{Src: "!true", Kind: "bool", B: false}, CmpVal{Src: "1 < 2", Kind: "bool", B: true})
	// nulls
	g = append(g, CmpVal{Src: "null", Kind: "null"}, CmpVal{Src: "nothere", Kind: "null"},
		CmpVal{Src: "dnilp", Kind: "null", Data: &val.KV{K: "dnilp", V: val.V{K: "nilptr"}}}, CmpVal{Src: "dnil", Kind: "null", Data: &val.KV{K: "dnil", V: val.Nil()}},
		CmpVal{Src: "dnps", Kind: "null", Data: &val.KV{K: "dnps", V: val.V{K: "nilpstruct"}}},
		CmpVal{Src: "dnd", Kind: "null", Data: &val.KV{K: "dnd", V: val.V{K: "nildec"}}}, CmpVal{Src: "$l = dnd", Kind: "null", Data: &val.KV{K: "dnd", V: val.V{K: "nildec"}}},
		CmpVal{Src: "fnd(1)", Kind: "null", Data: &val.KV{K: "fnd", V: val.Fn("retnildec")}}, CmpVal{Src: "fnp()", Kind: "null", Data: &val.KV{K: "fnp", V: val.Fn("retnilptr")}})
	return g
}

var strPoolC05 = []string{"", "a", "b", "ab", "z", "é", "中", "0", "9", "A", " ", "\x7f", "ß", "\U0001F600", "\uff0c", "\ue000", "\xff", "\U00020000"}

func init() { c05.Run = runC05 }

func runC05(w *core.W) {
	r := w.RNG("grid")
	// the grid itself must be identical in every shard: derive it from the seed only
	gr := rand.New(rand.NewSource(w.Seed*7919 + 17))
	grid := c05Grid(gr, w.Pick(40, 400))
	idx := 0
	for i := range grid {
		for j := range grid {
			idx++
			if !w.Mine(idx) {
				continue
			}
			c := &CmpCase{A: grid[i], B: grid[j]}
			c05Laws(w, c)
			if idx%1709 == 0 {
				w.Sample("grid", c.A.Src+"  vs  "+c.B.Src)
			}
		}
	}
	w.ExhaustivePart(fmt.Sprintf("all %d x %d ordered pairs of the value grid under 8 operators", len(grid), len(grid)))
	// random pairs beyond the grid: close neighbours and different spellings of one value
	for i, n := 0, w.Pick(20000, 240000); i < n; i++ {
		d := digits(r, 1+r.Intn(34))
		if i%9 == 0 {
			d = digits(r, 35+r.Intn(12)) // wider than the arithmetic context
		}
		e := r.Intn(41) - 20
		// (a wide number is written without a sign: `-x` is an arithmetic operation and rounds to 34 digits)
		a := &AExpr{Lit: spell(r, r.Intn(2) == 0 && len(d) <= 34, d, e)}
		var b *AExpr
		switch i % 4 {
		case 0:
			b = &AExpr{Lit: spell(r, strings.HasPrefix(a.Lit, "-"), d, e)} // same value, other spelling
		case 1:
			b = &AExpr{Lit: spell(r, strings.HasPrefix(a.Lit, "-"), d+"0", e-1)} // same value, trailing zero
		case 2:
			b = &AExpr{Op: "+", L: &AExpr{Lit: a.Lit}, R: &AExpr{Lit: spell(r, r.Intn(2) == 0, "1", e-r.Intn(3))}} // neighbour
		default:
			b = &AExpr{Lit: randOperand(r)}
		}
		va, ok1 := numVal(a)
		vb, ok2 := numVal(b)
		if !ok1 || !ok2 {
			continue
		}
		c := &CmpCase{A: va, B: vb}
		if r.Intn(2) == 0 {
			c = &CmpCase{A: vb, B: va}
		}
		c05Laws(w, c)
		if i%1009 == 0 {
			w.Sample("random", c.A.Src+"  vs  "+c.B.Src)
		}
	}
	for i, n := 0, w.Pick(7500, 80000); i < n; i++ {
		mk := func() string {
			var sb strings.Builder
			for k := r.Intn(4); k >= 0; k-- {
				sb.WriteString(strPoolC05[r.Intn(len(strPoolC05))])
			}
			return sb.String()
		}
		a, b := mk(), mk()
		if i%3 == 0 {
			b = a + strPoolC05[r.Intn(len(strPoolC05))]
		}
		c05Laws(w, &CmpCase{A: CmpVal{Src: strLit(a), Kind: "str", Str: a}, B: CmpVal{Src: strLit(b), Kind: "str", Str: b}})
	}
}
