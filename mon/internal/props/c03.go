package props

import (
	"fmt"
	"strings"

	"verifmon/internal/core"
	"verifmon/internal/gen"
	"verifmon/internal/obs"
	"verifmon/internal/ref"
	"verifmon/internal/val"
)

var c03 = core.Register(&core.Prop{
	ID:    "C03",
	Title: "Evaluation is total",
	Rule: "programs: grammar-directed random programs over every operator, keyword, builtin and data/host-function name, exhaustive short token programs over an evaluation alphabet, corpus mutants that parse, " +
		"pathological shapes that parse (up to 64 KiB), structured pad/slice calls; each evaluated against generated data maps incl. odd kinds and host functions; misuse templates must yield an error; " +
		"non-trivial = evaluation visited >= 2 nodes; distinct by (formula, data)",
	Assumptions: []string{
		"lpad/rpad lengths are generated structurally within the statement's bound of 10^6 (pads <= 8 bytes)",
		"where the statement leaves 'error or clamped value' open (negative or reversed string positions) only 'no panic' is demanded",
		"visits per evaluation are bounded by 4*nodes+16 (no blow-up), counted by the hook at the evaluator's node dispatch",
	},
	Shards:           func(tier string) int { return pickTier(tier, 8, 16) },
	CrashIsViolation: true,
	MemLimitMB:       12000,
	Probes:           func(tier string) int { return len(c03Probes) },
	Floors: func(c map[string]int64, tier string) []string {
		var out []string
		for _, k := range []string{"evaluated", "value_results", "error_results", "misuse_cases", "shape_evals", "pad_cases", "misuse_inside_larger_formulas", "kind_pair_cases"} {
			if c[k] == 0 {
				out = append(out, "coverage floor: no "+k)
			}
		}
		for _, b := range gen.Builtins {
			if c["builtin:"+b] == 0 {
				out = append(out, "coverage floor: builtin "+b+" never appeared in an evaluated program")
			}
		}
		return out
	},
})

var c03Eval = core.Mon(c03, "eval-total", func(w *core.W, c *EvalCase) {
	w.CurRaw("eval-total", c.Crumb())
	out := evaluate(c.Src, c.Data, nil)
	if out.ParseErr != nil {
		w.Count("not_parsed")
		return
	}
	w.Eval(1)
	w.Count("evaluated")
	checkTotal(w, "eval-total", c, out)
})

func checkTotal(w *core.W, mon string, c *EvalCase, out *EvalOut) bool {
	if out.Panicked {
		w.Violation(mon, "C03/escaped-panic:"+panicClass(out.PanicVal), c, "value or error", fmt.Sprint(out.PanicVal), "panic escaped Runner.Resolve on "+c.Quoted())
		return false
	}
	if out.Err != nil && out.Val != nil {
		w.Violation(mon, "C03/value-and-error", c, "(nil, err)", fmt.Sprintf("(%s, %v)", show(out.Val), out.Err), c.Quoted())
		return false
	}
	if out.Err != nil {
		w.Count("error_results")
	} else {
		w.Count("value_results")
	}
	if obs.HookAvailable() {
		if out.Visits >= 2 {
			w.Nontrivial(c.Src + "\x00" + core.HashStr(c.Data))
		}
		w.Max("visits_per_node", float64(out.Visits)/float64(out.Nodes+1))
		if out.Visits > int64(4*out.Nodes+16) {
			w.Violation(mon, "C03/visit-blowup", c, fmt.Sprintf("<= %d visits for %d nodes", 4*out.Nodes+16, out.Nodes), out.Visits, "evaluation work not bounded by the tree size: "+c.Quoted())
			return false
		}
	} else {
		w.Nontrivial(c.Src + "\x00" + core.HashStr(c.Data))
		w.Skip("no-hook:visit-bound")
	}
	return true
}

// MisuseCase: a formula that must yield an error (class names the misuse).
type MisuseCase struct {
	EvalCase
	Class string `json:"class"`
}

// misuseWraps: the misuse sits somewhere inside a larger formula; its error still is the outcome (an element, argument
// or operand that failed is not replaced by null, and nothing that follows it hides the failure).
var misuseWraps = []string{"%s", "[(%s), 1]", "[1, (%s), 'x']", "fanys((%s), 1)", "fanys(1, (%s), 2)", "fcat((%s), 'b')", "((%s), 1)", "(%s) + 1", "1 + (%s)", "true ? (%s) : 0", "$v = (%s)", "[[(%s)], 2]", "fid([(%s), 1])", "max((%s), 1, 2)", "typeof (%s), 1",
	"(%s).k", "(%s) ? 1 : 2", "fanys([(%s), 2]...)", "!(%s)", "-(%s)", "(%s) == 1", "(%s) && 1", "0 || (%s)", "1 && (%s)", "null ?? (%s)", "(%s) ?? 1", "[1, [2, [(%s)]], 3]", "fid(fid(fid((%s))))", "$v = 1, (%s), $v"}

var c03Misuse = core.Mon(c03, "misuse-is-error", func(w *core.W, c *MisuseCase) {
	out := evaluate(c.Src, c.Data, nil)
	w.Eval(1)
	w.Count("misuse_cases")
	w.Count("misuse:" + c.Class)
	if out.ParseErr != nil {
		w.Violation("misuse-is-error", "C03/misuse-template-unparsable", c, "parses", out.ParseErr.Error(), c.Quoted())
		return
	}
	if !checkTotal(w, "misuse-is-error", &c.EvalCase, out) {
		return
	}
	if out.Err == nil {
		w.Violation("misuse-is-error", "C03/misuse-not-reported:"+c.Class, c, "an error", show(out.Val), "misuse ("+c.Class+") evaluated to a value: "+c.Quoted())
		return
	}
	// the same on a Runner the host declared itself instead of asking NewRunner for one
	if core.Hash64(c.Src)%3 == 0 {
		oz := evaluate(c.Src, c.Data, &evalOpts{zeroRunner: true})
		w.Count("misuse_on_zero_value_runner")
		if oz.Panicked {
			w.Violation("misuse-is-error", "C03/escaped-panic:"+panicClass(oz.PanicVal), c, "an error", fmt.Sprint(oz.PanicVal), "panic escaped Resolve of a zero-value Runner (new(formula.Runner), SetThis) on "+c.Quoted())
			return
		}
		if oz.Err == nil {
			w.Violation("misuse-is-error", "C03/misuse-not-reported:"+c.Class, c, "an error", show(oz.Val), "misuse ("+c.Class+") evaluated to a value on a zero-value Runner: "+c.Quoted())
		}
	}
})

var misuseTemplates = []struct{ class, src string }{
	{"call-non-function", "n0()"}, {"call-non-function", "s0(1)"}, {"call-non-function", "undefinedname()"}, {"call-non-function", "z()"}, {"call-non-function", "m(1)"},
	{"call-non-function", "arr()"}, {"call-non-function", "m.k(1)"}, {"call-non-function", "m.missing()"}, {"call-non-function", "b0()"}, {"call-non-function", "st()"},
	{"call-non-function", "1()"}, {"call-non-function", "'f'()"}, {"call-non-function", "(fid)(1)"}, {"call-non-function", "null()"}, {"call-non-function", "t0()"},
	{"call-non-function", "abs(1)(2)"}, {"call-non-function", "undefinedname.f(1)"}, {"call-non-function", "nilp.rename('y')"}, {"call-non-function", "z.k()"}, {"call-non-function", "m.missing.deep(1, 2)"},
	{"call-non-function", "1 + undefinedname.age()"}, {"call-non-function", "nd.f()"}, {"call-non-function", "undefinedname.a.b.c()"}, {"call-non-function", "st.M.nope.f(1)"},
	{"arg-count", "abs()"}, {"arg-count", "abs(1, 2)"}, {"arg-count", "left('a')"}, {"arg-count", "left('a', 1, 2)"}, {"arg-count", "fcat('a')"}, {"arg-count", "fcat('a','b','c')"},
	{"arg-count", "now(1)"}, {"arg-count", "date(2020, 1)"}, {"arg-count", "fid()"}, {"arg-count", "fid(1, 2)"}, {"arg-count", "fctx()"}, {"arg-count", "fctx(1, 2)"}, {"arg-count", "max()"},
	{"arg-count", "fnums(1, 2, 3)"}, {"arg-count", "fnums(1, 2, 3, 4, 5)"}, {"arg-count", "join(strs)"}, {"arg-count", "mid('abc', 1)"}, {"arg-count", "replace('a','b')"},
	{"arg-type", "abs('x')"}, {"arg-type", "left('abc', 'a')"}, {"arg-type", "year('x')"}, {"arg-type", "year(1)"}, {"arg-type", "abs(true)"}, {"arg-type", "abs(arr)"}, {"arg-type", "abs(m)"},
	{"arg-type", "fnums('a', 1, 2, 3)"}, {"arg-type", "fnums(1, 2, m, 3)"}, {"arg-type", "join('a', ',')"}, {"arg-type", "join(1, ',')"}, {"arg-type", "includes(m, 'a')"}, {"arg-type", "mapToArr('x', 'k')"},
	{"arg-type", "ftime(1)"}, {"arg-type", "ftime('x')"}, {"arg-type", "fmap(arr)"}, {"arg-type", "fmap(1)"}, {"arg-type", "fstrs(1)"}, {"arg-type", "fstrs(m)"}, {"arg-type", "sqrt(null)"}, {"arg-type", "date('a', 1, 1)"},
	{"arg-type", "max(1, 'a')"}, {"arg-type", "fsum(1, 's')"}, {"arg-type", "addDate(1, 1, 1, 1)"}, {"arg-type", "timeFormat('x', 'y')"},
	{"arg-type", "year(null)"}, {"arg-type", "year(z)"}, {"arg-type", "timeFormat(null, '2006')"}, {"arg-type", "useTimezone(nilp, 'UTC')"}, {"arg-type", "addDate(null, 1, 1, 1)"}, {"arg-type", "hour(undefinedname)"},
	{"arg-type", "millSecond(m.missing)"}, {"arg-type", "weekDay(nd)"}, {"arg-type", "month(s0)"}, {"arg-type", "day(arr)"}, {"arg-type", "ftime(null)"}, {"arg-type", "ftime(z)"},
	{"arg-type", "join(null, ',')"}, {"arg-type", "includes(null, 'a')"}, {"arg-type", "mapToArr(null, 'k')"}, {"arg-type", "fstrs(null)"}, {"arg-type", "join(z, ',')"}, {"arg-type", "fstrs(nilp)"},
	{"arg-type", "includes(undefinedname, 'a')"}, {"arg-type", "join(m.missing, '-')"}, {"arg-type", "fnums(1, 2, 3, null)"},
	{"spread-misuse", "abs(arr...)"}, {"spread-misuse", "fsum(1 ...)"}, {"spread-misuse", "fsum(s0...)"}, {"spread-misuse", "fsum(null...)"}, {"spread-misuse", "fcat('a', arr...)"}, {"spread-misuse", "fid(arr...)"},
	{"invalid-regexp", "regexp('a', '(')"}, {"invalid-regexp", "regexp(s0, '[a')"}, {"invalid-regexp", "regexp('a', '*')"}, {"invalid-regexp", "regexp('a', 'a{2,1}')"}, {"invalid-regexp", "regexp('a', '\\\\')"}, {"invalid-regexp", "regexp('a', ')')"}, {"invalid-regexp", "regexp(s0, 'a)')"}, {"invalid-regexp", "regexp('total)', 'total)')"}, {"invalid-regexp", "regexp('a', '())')"},
	{"compare-composite", "arr == arr"}, {"compare-composite", "[1] == [1]"}, {"compare-composite", "m == m"}, {"compare-composite", "m != m"}, {"compare-composite", "arr === arr"}, {"compare-composite", "m !== m"},
	{"compare-composite", "[1] != [2]"}, {"compare-composite", "[] === []"}, {"compare-composite", "m == this"}, {"compare-composite", "m.b == m.b"}, {"compare-composite", "arr == [1]"}, {"compare-composite", "this === this"},
	{"missing-struct-field", "st.Z"}, {"missing-struct-field", "st.missing"}, {"missing-struct-field", "st.a"}, {"missing-struct-field", "st.Z.k"}, {"missing-struct-field", "st!.Z"}, {"missing-struct-field", "[st.Z]"},
	{"missing-struct-field", "se.nope"}, {"missing-struct-field", "mu.nope"}, {"missing-struct-field", "se.nope ?? 'x'"}, {"missing-struct-field", "typeof mu.missing"},
	{"missing-struct-field", "[se.Name, se.zz]"}, {"missing-struct-field", "mu.L + mu.r"},
	// a method of the struct's type is no field of it
	{"missing-struct-field", "t0.Year"}, {"missing-struct-field", "t0.IsZero"}, {"missing-struct-field", "t0!.Unix"}, {"missing-struct-field", "[t0.Month]"}, {"missing-struct-field", "t0.String ?? 'x'"},
	{"missing-struct-field", "typeof t0.Weekday"}, {"missing-struct-field", "t0.Location.String"}, {"missing-struct-field", "$m = t0.UTC, 1"},
	{"assert-null", "z!.k"}, {"assert-null", "nilp!.k"}, {"assert-null", "m.missing!.k"}, {"assert-null", "undefinedname!.a"},
	{"host-error", "ferr(1)"}, {"host-error", "1 + ferr(2)"}, {"host-error", "[ferr(1)]"}, {"host-error", "fid(ferr(1))"},
	{"bad-assignment", "n0 = 1"}, {"bad-assignment", "m.k = 1"}, {"bad-assignment", "1 = 2"}, {"bad-assignment", "($v) = 1"},
	{"host-signature", "fnoret()"}, {"host-signature", "fone()"},
}

func init() {
	c03.Run = runC03
}

// evalAlphabet: lexemes for exhaustive short evaluation programs.
var evalAlphabet = []string{"1", "0", "'a'", "n0", "s0", "m", "arr", "st", "z", "fid", "abs", "left", "null", "true", "this", "typeof",
	"(", ")", "[", "]", ".", "!.", "...", ",", "?", ":", "=", "$v", "k", "+", "-", "*", "/", "%", "==", "===", "<", "&&", "||", "??", "&", "!", "!!", "~"}

func builtinsIn(src string, w *core.W) {
	lx := ref.Lexemes([]byte(src))
	for _, l := range lx {
		for _, b := range gen.Builtins {
			if l == b {
				w.Count("builtin:" + b)
			}
		}
	}
}

// c03Probes: inputs expected to kill the process on the pinned tree (known findings).
var c03Probes = []string{
	"$v = this, fcat(this, 'a')",
	"$v = this, toString(this)",
}

func runC03(w *core.W) {
	if w.Shard >= w.NShards {
		// probe child: one input, breadcrumb first
		r := w.RNG("probe")
		c := &EvalCase{Src: c03Probes[w.Shard-w.NShards], Data: StdData(r), Gen: "probe"}
		c03Eval(w, c)
		w.Count("probe_survived")
		return
	}
	run := func(genName, src string, data val.V, counter string) {
		c := &EvalCase{Src: src, Data: data, Gen: genName}
		c03Eval(w, c)
		w.Count(counter)
		if w.Counter(counter)%2503 == 1 {
			w.Sample(genName, c.Quoted())
		}
	}
	// 1. grammar-directed programs
	cfg := fixNums(EvalSyntax())
	r := w.RNG("prog")
	datas := make([]val.V, 8)
	for i, n := 0, w.Pick(9000, 150000); i < n; i++ {
		if i%64 == 0 {
			for j := range datas {
				datas[j] = StdData(r)
			}
		}
		src := ref.Print(NoSelfStore(cfg.Node(r, 1+r.Intn(5))))
		builtinsIn(src, w)
		for j, nd := 0, w.Pick(3, 6); j < nd; j++ {
			run("prog", src, datas[r.Intn(len(datas))], "prog_evals")
		}
	}
	// 2. exhaustive short token programs that parse
	kmax := w.Pick(3, 4)
	r = w.RNG("tokprog")
	d1, d2 := StdData(r), StdData(r)
	idx := 0
	for k := 1; k <= kmax; k++ {
		total := gen.Pow(len(evalAlphabet), k)
		for i := 0; i < total; i++ {
			idx++
			if !w.Mine(idx) {
				continue
			}
			src := strings.Join(gen.TokSeq(evalAlphabet, k, i), " ")
			run("tokprog", src, d1, "tokprog_cases")
			if k <= 3 {
				run("tokprog", src, d2, "tokprog_cases")
			}
		}
	}
	w.ExhaustivePart(fmt.Sprintf("all sequences of 1..%d lexemes over a %d-lexeme evaluation alphabet (those that parse are evaluated)", kmax, len(evalAlphabet)))
	// 3. mutants of the corpus and random pool sequences (kept when they parse)
	r = w.RNG("mut")
	corpus := gen.CorpusBytes()
	namePool := append(append(append([]string{}, gen.TokAlphabet...), stdNames...), append(stdFuncs, safeBuiltins()...)...)
	for i, n := 0, w.Pick(20000, 300000); i < n; i++ {
		var src string
		if i%2 == 0 {
			src = string(gen.Mutate(r, corpus[r.Intn(len(corpus))], corpus))
			if strings.Contains(src, "pad") {
				continue
			}
		} else {
			src = string(gen.RandTokens(r, namePool, 8))
		}
		if strings.Contains(src, "this") && strings.Contains(src, "=") {
			w.Skip("possible-self-store")
			continue
		}
		run("mutant", src, datas[r.Intn(len(datas))], "mutant_cases")
	}
	// 4. structured pad / slice calls (lengths within the statement's bound)
	r = w.RNG("pad")
	lens := []string{"-5", "-1", "0", "1", "2", "3", "5", "8", "20", "1000", "65536", "1000000", "n0", "2.7", "0 - 3", "len(s0)", "len(s0) + 1"}
	strs := []string{"''", "'a'", "'abc'", "s0", "s1", "'中文'", "lower(s0)", "s0 + s1", "toString(n0)"}
	pads := []string{"'x'", "' '", "'ab'", "''", "'中'", "'12345678'", "s1"}
	for i, n := 0, w.Pick(3000, 40000); i < n; i++ {
		fn := []string{"lpad", "rpad"}[r.Intn(2)]
		src := fmt.Sprintf("%s(%s, %s, %s)", fn, strs[r.Intn(len(strs))], pads[r.Intn(len(pads))], lens[r.Intn(len(lens))])
		if r.Intn(3) == 0 {
			src = "len(" + src + ")"
		}
		builtinsIn(src, w)
		d := datas[r.Intn(len(datas))]
		run("pad", src, d, "pad_cases")
		pos := []string{"-3", "-1", "0", "1", "2", "3", "4", "100", "n0", "len(s0)", "len(s0)+1", "0-1", "1.5", "1000000"}
		src2 := fmt.Sprintf("%s(%s, %s)", []string{"left", "right"}[r.Intn(2)], strs[r.Intn(len(strs))], pos[r.Intn(len(pos))])
		if r.Intn(2) == 0 {
			src2 = fmt.Sprintf("mid(%s, %s, %s)", strs[r.Intn(len(strs))], pos[r.Intn(len(pos))], pos[r.Intn(len(pos))])
		}
		run("slice", src2, d, "slice_cases")
	}
	// 5. pathological shapes that parse, evaluated
	si := 0
	r = w.RNG("shapes")
	for _, sh := range gen.Shapes {
		for _, n := range gen.ShapeSizes {
			si++
			if !w.Mine(si) {
				continue
			}
			if w.Quick() && sh.Name == "long-number" && n > 4096 {
				continue // the 64 KiB literal costs ~6 s in the decimal library; thorough tier only
			}
			run("shape:"+sh.Name, string(gen.ShapeBytes(sh, n)), StdData(r), "shape_evals")
		}
	}
	// 5b. every pair of value kinds (ordinary and odd Go kinds, two values of the same kind included) under every operator shape
	kinds := append([]string{"nil", "bool", "str", "int", "int64", "f64", "dec", "time", "list", "map", "struct", "pstruct", "nilptr", "nildec", "fn", "uint8", "f32"}, val.OddKinds()...)
	mk := func(k string, n int) val.V {
		switch k {
		case "list":
			return val.List(val.Int("int", int64(n)), val.Str("e"))
		case "map":
			return val.Map(val.KV{K: "k", V: val.Int("int", int64(n))})
		case "struct":
			return val.Struct(val.KV{K: "A", V: val.Int("int", int64(n))})
		case "pstruct":
			return val.PStruct(val.KV{K: "A", V: val.Int("int", int64(n))})
		case "dec":
			return val.Dec([]string{"1.50", "2.25"}[n%2])
		case "time":
			return val.Time(int64(1700000000+n), 0, "UTC")
		case "fn":
			return val.Fn([]string{"id", "one"}[n%2])
		case "f64":
			return val.F64(float64(n) + 0.5)
		case "f32":
			return val.F32(float32(n) + 0.5)
		case "bool":
			return val.Bool(n%2 == 0)
		case "uint8":
			return val.Uint("uint8", uint64(n))
		}
		return val.V{K: k, S: []string{"a", "b"}[n%2], I: int64(n), U: uint64(n)}
	}
	pairOps := []string{"p == q", "p != q", "p === q", "p !== q", "p < q", "p >= q", "p + q", "p - q", "p * q", "p / q", "p % q", "p & q", "p && q", "p || q", "p ?? q", "p == p", "p === p", "p < p", "[p, q]", "p ? q : p", "-p", "+p", "!p", "!!p", "~p", "typeof p",
		"p.k", "p!.k", "p(q)", "fid(p) == fid(q)", "max(p, q)", "join([p, q], ',')", "includes([p], q)", "toString(p) + toString(q)", "$v = p, $v == q", "len(p)", "p + ''", "'' + p", "p == 'a'", "p == 1", "1 == p", "p == null", "null == p"}
	pi := 0
	for _, k1 := range kinds {
		for _, k2 := range kinds {
			pi++
			if !w.Mine(pi) {
				continue
			}
			d := val.Map(val.KV{K: "p", V: mk(k1, 1)}, val.KV{K: "q", V: mk(k2, 2)}, val.KV{K: "fid", V: val.Fn("id")})
			for oi, op := range pairOps {
				if w.Quick() && (pi+oi)%3 != 0 {
					continue
				}
				run("kind-pair", op, d, "kind_pair_cases")
			}
		}
	}
	// 6. misuse must be an error
	r = w.RNG("misuse")
	for rep, nrep := 0, w.Pick(10, 30); rep < nrep; rep++ {
		d := StdData(r)
		for i, t := range misuseTemplates {
			if !w.Mine(i + rep) {
				continue
			}
			wrap := misuseWraps[(i+rep)%len(misuseWraps)]
			if t.class == "spread-misuse" && strings.Contains(t.src, " ...") {
				wrap = "%s"
			}
			c := &MisuseCase{EvalCase: EvalCase{Src: strings.ReplaceAll(wrap, "%s", t.src), Data: d, Gen: "misuse"}, Class: t.class}
			c03Misuse(w, c)
			if wrap != "%s" {
				w.Count("misuse_inside_larger_formulas")
				c03Misuse(w, &MisuseCase{EvalCase: EvalCase{Src: t.src, Data: d, Gen: "misuse"}, Class: t.class})
			}
			if rep == 0 && i%9 == 0 {
				w.Sample("misuse:"+t.class, t.src)
			}
		}
	}
}
