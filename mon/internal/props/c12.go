package props

import (
	"context"
	"fmt"
	"math/rand"
	"strings"

	"github.com/aundis/formula"
	"github.com/ericlagergren/decimal"

	"verifmon/internal/core"
	"verifmon/internal/gen"
	"verifmon/internal/obs"
	"verifmon/internal/ref"
)

var c12 = core.Register(&core.Prop{
	ID:    "C12",
	Title: "Numeric literals denote exactly the decimal number written",
	Rule: "all strings of <= k symbols over {0 1 9 . e E + - _ x} classified by the reference literal grammar (well-formed -> exact value; malformed of the statement's three classes -> syntax error; otherwise skipped), " +
		"random long spellings (parts of 0-40 digits, separators, exponents), each malformed spelling also embedded in 10 syntactic positions; non-trivial = has a fraction, exponent, separator, leading zero or > 19 digits; distinct by spelling (and position)",
	Assumptions: []string{
		"literals whose adjusted exponent lies outside +-6000 (beyond IEEE decimal128, the anchor's number format) are unspecified and skipped",
	},
	Shards: func(tier string) int { return pickTier(tier, 8, 16) },
	Floors: func(c map[string]int64, tier string) []string {
		var out []string
		for _, k := range []string{"wellformed_checked", "malformed_checked", "malformed:separator", "malformed:exponent", "malformed:identifier", "with_separator", "over_34_digits", "embedded_malformed", "literal_sequences", "followers_blank", "followers_identifier_character", "literal_as_argument"} {
			if c[k] == 0 {
				out = append(out, "coverage floor: no "+k)
			}
		}
		return out
	},
})

// LitCase: a spelling, optionally embedded in a formula template with one %s.
type LitCase struct {
	Lit   string `json:"lit"`
	Embed string `json:"embed,omitempty"`
}

// classify: 1 well-formed single literal, 2 malformed literal (the three classes), 0 neither.
func classifyLiteral(s string) (int, string) {
	if s == "" {
		return 0, ""
	}
	c := s[0]
	if !(c >= '0' && c <= '9') && !(c == '.' && len(s) > 1 && s[1] >= '0' && s[1] <= '9') {
		return 0, ""
	}
	lr := ref.Lex([]byte(s))
	if lr.Err != nil {
		switch {
		case strings.Contains(lr.Err.What, "separator"):
			return 2, "separator"
		case strings.Contains(lr.Err.What, "digit expected"):
			return 2, "exponent"
		case strings.Contains(lr.Err.What, "identifier"):
			return 2, "identifier"
		}
		return 0, ""
	}
	if len(lr.Toks) == 2 && lr.Toks[0].Kind == ref.TNum && lr.Toks[0].End == len(s) {
		return 1, ""
	}
	return 0, ""
}

var c12Lit = core.Mon(c12, "literal-value", func(w *core.W, c *LitCase) {
	w.Eval(1)
	class, why := classifyLiteral(c.Lit)
	switch class {
	case 0:
		w.Skip("not-a-single-literal")
		return
	case 2:
		src := c.Lit
		if c.Embed != "" {
			src = strings.ReplaceAll(c.Embed, "%s", c.Lit)
			w.Count("embedded_malformed")
		}
		var err error
		panicked, pv := core.Call(func() { _, err = hostParse([]byte(src), true) })
		w.Count("malformed_checked")
		w.Count("malformed:" + why)
		w.Nontrivial("bad:" + src)
		if panicked {
			w.Violation("literal-value", "C12/escaped-panic", c, "syntax error", fmt.Sprint(pv), src)
			return
		}
		if err == nil {
			w.Violation("literal-value", "C12/malformed-accepted:"+why, c, "syntax error ("+why+")", "accepted", fmt.Sprintf("malformed literal %q accepted in %q", c.Lit, src))
		}
		return
	}
	want, ok := ref.ParseDec(c.Lit)
	if !ok {
		w.Skip("reference-cannot-read")
		return
	}
	adj := want.Exp + want.Digits() - 1
	if want.IsZero() {
		adj = want.Exp
	}
	if adj > 6000 || adj < -6000 || want.Exp < -6000 || want.Exp > 6000 {
		w.Skip("exponent-beyond-decimal128")
		return
	}
	src := "[" + c.Lit + "]"
	if litValueEmbeds[c.Embed] {
		src = "[" + strings.ReplaceAll(c.Embed, "%s", c.Lit) + "]"
	}
	v, err, panicked, pv := evalArray1(src, nil)
	if panicked || err != nil {
		w.Violation("literal-value", "C12/wellformed-rejected", c, want.String(), fmt.Sprint(pv, err), fmt.Sprintf("well-formed literal %q not evaluated (%s)", c.Lit, src))
		return
	}
	d, ok := elem0(v)
	if !ok {
		w.Violation("literal-value", "C12/not-a-number", c, want.String(), show(v), src)
		return
	}
	w.Count("wellformed_checked")
	if strings.ContainsAny(c.Lit, "._eE") || (len(c.Lit) > 1 && c.Lit[0] == '0') || len(c.Lit) > 19 {
		w.Nontrivial(src)
	}
	if strings.Contains(c.Lit, "_") {
		w.Count("with_separator")
	}
	if want.Digits() > 34 {
		w.Count("over_34_digits")
	}
	got := obs.DecOf(d)
	if !got.Finite() || !got.Equal(want) {
		w.Violation("literal-value", "C12/wrong-value", c, want.String(), got.String(), fmt.Sprintf("literal %q evaluates to %s", c.Lit, d.String()))
		return
	}
	// standing as a condition or as the operand of a selection, the literal counts by its value (zero in any spelling is falsy)
	if want.IsZero() || core.Hash64(c.Lit)%4 == 1 {
		csrc := "[" + c.Lit + " ? 't' : 'f', !!" + c.Lit + ", (" + c.Lit + "?1:2), " + c.Lit + " || 'd', " + c.Lit + " && 'd', [" + c.Lit + " ? 't' : 'f'], fsel(" + c.Lit + " ? 't' : 'f')]"
		cv, cerr, cp, cpv := evalArray1("["+csrc+"]", map[string]interface{}{"fsel": func(x interface{}) (interface{}, error) { return x, nil }})
		w.Count("literal_as_condition")
		wantSel := `[["t", true, 1, NUM, "d", ["t"], "t"]]`
		if want.IsZero() {
			wantSel = `[["f", false, 2, "d", NUM, ["f"], "f"]]`
		}
		got := show(cv)
		ok := !cp && cerr == nil
		if ok {
			outer, _ := cv.([]interface{})
			ok = len(outer) == 1
			if ok {
				a, _ := outer[0].([]interface{})
				ok = len(a) == 7
				if ok {
					tf := "t"
					if want.IsZero() {
						tf = "f"
					}
					in, _ := a[5].([]interface{})
					ok = a[0] == tf && a[1] == !want.IsZero() && len(in) == 1 && in[0] == tf && a[6] == tf
					if two, isDec := a[2].(*decimal.Big); ok && isDec {
						n, _ := two.Int64()
						ok = (n == 1) == !want.IsZero()
					} else {
						ok = false
					}
					if ok && want.IsZero() {
						ok = a[3] == "d"
					} else if ok {
						ok = a[4] == "d"
					}
				}
			}
		}
		if !ok {
			w.Violation("literal-value", "C12/literal-as-condition", c, wantSel, fmt.Sprint(got, " ", cerr, cpv), fmt.Sprintf("literal %q as a condition: %s", c.Lit, csrc))
			return
		}
	}
	// behind the one keyword an operand may follow: a number whatever is written in front (`typeof.5` is `typeof .5`)
	if c.Lit[0] == '.' || core.Hash64(c.Lit)%4 == 0 {
		glue := " "
		if c.Lit[0] == '.' && core.Hash64(c.Lit)%3 != 0 {
			glue = ""
		}
		tsrc := "[typeof" + glue + c.Lit + ", typeof" + glue + c.Lit + " == 'number', (typeof" + glue + c.Lit + ")]"
		tv, terr, tp, tpv := evalArray1("["+tsrc+"]", nil)
		w.Count("behind_typeof")
		if got := show(tv); tp || terr != nil || got != show([]interface{}{[]interface{}{"number", true, "number"}}) {
			w.Violation("literal-value", "C12/behind-typeof", c, `[["number", true, "number"]]`, fmt.Sprint(got, " ", terr, tpv), fmt.Sprintf("literal %q behind typeof: %s", c.Lit, tsrc))
			return
		}
	}
	// the literal written directly as an argument: a Go integer, float, string or interface{} parameter receives the
	// number written (integers below 2^31 here, so that every integer parameter can hold it)
	if iv, isInt := want.Int64(); isInt && want.IsInt() && iv >= 0 && iv < 1<<31 && c.Embed == "" {
		var gotInt []int64
		var gotAny []string
		data := map[string]interface{}{
			"fint": func(i int) (int, error) { gotInt = append(gotInt, int64(i)); return i, nil },
			"fi64": func(i int64, j int32) (int64, error) { gotInt = append(gotInt, i, int64(j)); return i, nil },
			"fvar": func(xs ...int) (int, error) {
				for _, x := range xs {
					gotInt = append(gotInt, int64(x))
				}
				return len(xs), nil
			},
			"fany": func(x interface{}, s string) (int, error) {
				if dx, ok := x.(*decimal.Big); ok && dx != nil {
					gotAny = append(gotAny, obs.DecOf(dx).String())
				} else {
					gotAny = append(gotAny, fmt.Sprintf("%T", x))
				}
				gotAny = append(gotAny, s)
				return 0, nil
			},
		}
		asrc := "[fint(" + c.Lit + "), fi64(" + c.Lit + ", " + c.Lit + "), fvar(1, " + c.Lit + ", " + c.Lit + "), fany(" + c.Lit + ", " + c.Lit + "), len(left(lpad('', 'x', 300), " + c.Lit + "))]"
		_, aerr, ap, apv := evalArray1("["+asrc+"]", data)
		w.Count("literal_as_argument")
		if ap || aerr != nil {
			w.Violation("literal-value", "C12/literal-argument-error", c, want.String(), fmt.Sprint(apv, aerr), asrc)
			return
		}
		wantInts := []int64{iv, iv, iv, 1, iv, iv}
		okInts := len(gotInt) >= 6 && len(gotInt)%6 == 0
		for i := range gotInt {
			okInts = okInts && gotInt[i] == wantInts[i%6] // (the helper evaluates the formula again to check repeatability)
		}
		if !okInts || len(gotAny) < 2 || gotAny[0] != want.String() {
			w.Violation("literal-value", "C12/literal-as-argument", c, fmt.Sprint(wantInts, " ", want.String()), fmt.Sprint(gotInt, " ", gotAny), fmt.Sprintf("literal %q written directly as an argument: %s", c.Lit, asrc))
			return
		}
		if sd, ok := ref.ParseDec(gotAny[1]); !ok || !sd.Equal(want) {
			w.Violation("literal-value", "C12/literal-as-argument", c, want.String(), gotAny[1], fmt.Sprintf("literal %q handed to a string parameter must read back as the number written", c.Lit))
			return
		}
	}
	// the literal as the top-level result of one evaluation, read back in the next (the value must still be the written one)
	if want.Digits() > 30 || strings.Contains(c.Lit, "_") || w.Counter("wellformed_checked")%16 == 0 {
		sc1, e1 := hostParse([]byte("$v = "+c.Lit), true)
		sc2, e2 := hostParse([]byte("[$v, "+c.Lit+"]"), true)
		if e1 != nil || e2 != nil {
			return
		}
		r := formula.NewRunner()
		var v2 interface{}
		var rerr error
		panicked, pv := core.Call(func() {
			if _, rerr = r.Resolve(context.Background(), sc1.Expression); rerr == nil {
				v2, rerr = r.Resolve(context.Background(), sc2.Expression)
			}
		})
		w.Count("bound_and_read_back")
		if panicked || rerr != nil {
			w.Violation("literal-value", "C12/bound-literal-error", c, want.String(), fmt.Sprint(pv, rerr), "$v = "+c.Lit+" ; [$v, "+c.Lit+"]")
			return
		}
		arr, _ := v2.([]interface{})
		for i, e := range arr {
			de, ok := e.(*decimal.Big)
			if !ok || de == nil || !obs.DecOf(de).Finite() || !obs.DecOf(de).Equal(want) {
				w.Violation("literal-value", "C12/bound-literal-value", c, want.String(), show(e), fmt.Sprintf("element %d of [$v, %s] after `$v = %s` was the previous evaluation's result", i, c.Lit, c.Lit))
				return
			}
		}
	}
})

// LitPairCase: two (or three) well-formed literals in one formula.
type LitPairCase struct {
	Lits []string `json:"lits"`
	Sep  string   `json:"sep"`
}

var c12Pair = core.Mon(c12, "literal-sequence", func(w *core.W, c *LitPairCase) {
	w.Eval(1)
	var wants []ref.Dec
	for _, l := range c.Lits {
		if cl, _ := classifyLiteral(l); cl != 1 {
			w.Skip("pair-with-non-literal")
			return
		}
		d, ok := ref.ParseDec(l)
		if !ok || d.Exp > 6000 || d.Exp < -6000 || d.Exp+d.Digits() > 6000 {
			w.Skip("exponent-beyond-decimal128")
			return
		}
		wants = append(wants, d)
	}
	src := "[" + strings.Join(c.Lits, c.Sep) + "]"
	sc, err := hostParse([]byte(src), true)
	if err != nil {
		w.Violation("literal-sequence", "C12/sequence-rejected", c, "parses", err.Error(), src)
		return
	}
	v, rerr, panicked, pv := evalArray1("["+src+"]", nil)
	_ = sc
	w.Count("literal_sequences")
	w.Nontrivial("seq:" + src)
	if panicked || rerr != nil {
		w.Violation("literal-sequence", "C12/sequence-error", c, "values", fmt.Sprint(pv, rerr), src)
		return
	}
	outer, _ := v.([]interface{})
	var arr []interface{}
	if len(outer) == 1 {
		arr, _ = outer[0].([]interface{})
	}
	if len(arr) != len(wants) {
		w.Violation("literal-sequence", "C12/sequence-shape", c, len(wants), show(v), src)
		return
	}
	for i, want := range wants {
		d, ok := arr[i].(*decimal.Big)
		if !ok || d == nil || !obs.DecOf(d).Finite() || !obs.DecOf(d).Equal(want) {
			w.Violation("literal-sequence", "C12/sequence-value", c, want.String(), show(arr[i]), fmt.Sprintf("literal %d (%s) of %s", i, c.Lits[i], src))
			return
		}
	}
})

var litAlphabet = []string{"0", "1", "9", ".", "e", "E", "+", "-", "_", "x"}

var litEmbeds = []string{"[%s]", "f(%s)", "%s + 1", "1 + %s", "a ? %s : 1", "-%s", "(%s).k", "f(1, %s)", "a ? 1 : %s", "$v = %s", "typeof %s", "(%s)", "true ? %s : 0", "(0, %s)",
	// set tightly: the literal directly behind '?', ':', ',', an operator or a bracket
	"(true?%s:0)", "(false?0:%s)", "(0,%s)", "(null??%s)", "(%s)", "(true?%s:%s)", "a?%s:1", "[1,%s]", "f(%s,%s)", "1+%s", "!%s", "-%s", "1-%s", "a&&%s", "a||%s", "a??%s", "a?1:%s",
	// behind a member access whose name stands on the next line (the parser looks ahead there), and behind a rejected look-ahead
	"row.\nqty + %s", "a.\nb(%s)", "[o!.\nk, %s]", "x.\ny.\nz == %s"}

// embeddings that leave the literal's value as the element's value
var litValueEmbeds = map[string]bool{"(%s)": true, "true ? %s : 0": true, "(0, %s)": true, "$v = %s": true, "(true?%s:0)": true, "(false?0:%s)": true, "(0,%s)": true, "(null??%s)": true, "(true?%s:%s)": true}

// LitFollowCase: what stands immediately behind a literal. White space and line breaks of the ES sets end the literal and
// leave its value alone; an identifier character (of the ES5 classes, far beyond ASCII) makes the text a syntax error.
type LitFollowCase struct {
	Lit string `json:"lit"`
	CP  rune   `json:"cp"`
}

var c12Follow = core.Mon(c12, "literal-followers", func(w *core.W, c *LitFollowCase) {
	w.Eval(1)
	f := string(c.CP)
	switch {
	case ref.IsSpaceOpen(c.CP):
		w.Skip("follower-left-open")
		return
	case ref.IsSpace(c.CP) || ref.IsLineBreak(c.CP):
		want, ok := ref.ParseDec(strings.ReplaceAll(c.Lit, "_", ""))
		if !ok {
			return
		}
		w.Count("followers_blank")
		w.Nontrivial(fmt.Sprintf("follow:%s|%x", c.Lit, c.CP))
		srcs := []string{"[" + c.Lit + f + "]", "[(" + c.Lit + f + ")]"}
		if want.Digits() <= 34 {
			srcs = append(srcs, "["+c.Lit+f+"+"+f+"0]", "[0"+f+"+"+f+c.Lit+f+"]") // (arithmetic rounds to 34 digits)
		}
		for _, src := range srcs {
			v, err, panicked, pv := evalArray1(src, nil)
			if panicked || err != nil {
				w.Violation("literal-followers", "C12/wellformed-rejected", c, want.String(), fmt.Sprint(pv, err), fmt.Sprintf("literal %q followed by the blank U+%04X: %q", c.Lit, c.CP, src))
				return
			}
			d, ok := elem0(v)
			if !ok || !obs.DecOf(d).Equal(want) {
				w.Violation("literal-followers", "C12/wrong-value", c, want.String(), show(v), fmt.Sprintf("literal %q followed by the blank U+%04X: %q", c.Lit, c.CP, src))
				return
			}
		}
	case ref.IsIDPart(c.CP) && !(c.CP >= '0' && c.CP <= '9') && c.CP != 'e' && c.CP != 'E' && c.CP != '_':
		w.Count("followers_identifier_character")
		w.Nontrivial(fmt.Sprintf("follow:%s|%x", c.Lit, c.CP))
		for _, src := range []string{c.Lit + f, "[" + c.Lit + f + ", 3]", "f(" + c.Lit + f + ")", c.Lit + f + " + 1"} {
			var err error
			panicked, pv := core.Call(func() { _, err = hostParse([]byte(src), true) })
			if panicked {
				w.Violation("literal-followers", "C12/escaped-panic", c, "syntax error", fmt.Sprint(pv), src)
				return
			}
			if err == nil {
				w.Violation("literal-followers", "C12/malformed-accepted:identifier", c, "syntax error", "accepted", fmt.Sprintf("literal %q immediately followed by the identifier character U+%04X accepted: %q", c.Lit, c.CP, src))
				return
			}
		}
	default:
		w.Skip("follower-neither-blank-nor-identifier-character")
	}
})

func randDigits(r *rand.Rand, n int, sep bool) string {
	var sb strings.Builder
	for i := 0; i < n; i++ {
		if sep && i > 0 && r.Intn(4) == 0 {
			sb.WriteByte('_')
		}
		sb.WriteByte(byte('0' + r.Intn(10)))
	}
	return sb.String()
}

func randLiteral(r *rand.Rand) string {
	sep := r.Intn(3) == 0
	ip := randDigits(r, r.Intn(41), sep)
	var s string
	switch r.Intn(4) {
	case 0:
		if ip == "" {
			ip = "0"
		}
		s = ip
	case 1:
		if ip == "" {
			ip = "7"
		}
		s = ip + "." + randDigits(r, r.Intn(41), sep)
	case 2:
		s = "." + randDigits(r, 1+r.Intn(40), sep)
	default:
		if ip == "" {
			ip = "12"
		}
		s = ip + "."
	}
	if r.Intn(2) == 0 {
		s += []string{"e", "E"}[r.Intn(2)] + []string{"", "+", "-"}[r.Intn(3)]
		if r.Intn(4) == 0 {
			// leading zeros are insignificant in the exponent too, however many there are
			z := strings.Repeat("0", []int{1, 2, 15, 16, 17, 18, 19, 20, 21, 31, 32, 33, 40, 64, 300}[r.Intn(15)])
			if sep && r.Intn(3) == 0 {
				z = z[:len(z)/2] + "_" + z[len(z)/2:] + "_"
				z = strings.TrimPrefix(z, "_")
			}
			s += z
		}
		s += randDigits(r, 1+r.Intn(3), sep && r.Intn(2) == 0)
	}
	return s
}

func malform(r *rand.Rand, s string) string {
	b := []byte(s)
	switch r.Intn(6) {
	case 0: // doubled separator / separator at an edge of a group
		i := r.Intn(len(b) + 1)
		b = append(b[:i], append([]byte("_"), b[i:]...)...)
	case 1:
		b = append(b, '_')
	case 2: // identifier character right after
		b = append(b, "xaEe$_名"[r.Intn(6)])
		if r.Intn(2) == 0 {
			b = append(b, '1')
		}
	case 3: // exponent without digits
		b = append(b, 'e')
		if r.Intn(2) == 0 {
			b = append(b, "+-"[r.Intn(2)])
		}
	case 4:
		i := r.Intn(len(b) + 1)
		b = append(b[:i], append([]byte("__"), b[i:]...)...)
	default:
		if i := strings.IndexAny(string(b), ".eE"); i >= 0 {
			b = append(b[:i+1], append([]byte("_"), b[i+1:]...)...)
		} else {
			b = append(b, 'n')
		}
	}
	return string(b)
}

func init() { c12.Run = runC12 }

func runC12(w *core.W) {
	kmax := w.Pick(5, 7)
	idx := 0
	for k := 1; k <= kmax; k++ {
		total := gen.Pow(len(litAlphabet), k)
		for i := 0; i < total; i++ {
			idx++
			if !w.Mine(idx) {
				continue
			}
			s := strings.Join(gen.TokSeq(litAlphabet, k, i), "")
			c := &LitCase{Lit: s}
			c12Lit(w, c)
			if idx%40009 == 0 {
				w.Sample("short", s)
			}
			if cl, _ := classifyLiteral(s); cl == 2 && idx%7 == 0 {
				c12Lit(w, &LitCase{Lit: s, Embed: litEmbeds[(idx/7)%len(litEmbeds)]})
			}
		}
	}
	w.ExhaustivePart(fmt.Sprintf("all strings of 1..%d symbols over {0 1 9 . e E + - _ x}", kmax))
	// sequences of literals of different shapes in one formula
	rs := w.RNG("sequences")
	shapes := []string{"1", "0", "12", "1_0", "1_000_000", "1.5", "1_0.2_5", ".5", ".5_0", "3.", "1e5", "1E-2", "1_0e1_0", "2.5e+3", "007", "0.0", "123456789012345678901234567890123456789", "1e0", "9_9.9_9e-9_9", "0.000000000000000000000000000000000001"}
	pi := 0
	for _, a := range shapes {
		for _, b := range shapes {
			for _, sep := range []string{", ", ",", " ,\n", ",\t"} {
				pi++
				if w.Mine(pi) {
					c12Pair(w, &LitPairCase{Lits: []string{a, b}, Sep: sep})
				}
			}
		}
	}
	for i, n := 0, w.Pick(20000, 200000); i < n; i++ {
		k := 2 + rs.Intn(4)
		c := &LitPairCase{Sep: []string{", ", ","}[rs.Intn(2)]}
		for j := 0; j < k; j++ {
			if rs.Intn(2) == 0 {
				c.Lits = append(c.Lits, shapes[rs.Intn(len(shapes))])
			} else {
				c.Lits = append(c.Lits, randLiteral(rs))
			}
		}
		c12Pair(w, c)
	}
	// what follows a literal: every code point of the basic plane behind "7", and the blank / identifier classes behind other spellings
	fi := 0
	for cp := rune(1); cp <= 0xFFFF; cp++ {
		if cp >= 0xD800 && cp <= 0xDFFF {
			continue
		}
		fi++
		if w.Mine(fi) && (!w.Quick() || cp < 0x3100 || cp%7 == 0 || cp > 0xFE00) {
			c12Follow(w, &LitFollowCase{Lit: "7", CP: cp})
		}
	}
	for _, lit := range []string{"1.5", "2e3", ".5", "1_0", "3.", "1e-2", "0", "12345678901234567890123456789012345678"} {
		for _, cp := range []rune{' ', '\t', '\v', '\f', '\n', '\r', 0xA0, 0x1680, 0x2000, 0x2003, 0x200A, 0x202F, 0x205F, 0x3000, 0xFEFF, 0x2028, 0x2029, 0x85,
			'a', 'Z', '$', 0xE9, 0x4E2D, 0xAA, 0x663, 0x968, 0xFF11, 0x301, 0x203F, 0x200C, 0x200D, 0x3B1, 0x10D0, 0xFFDC} {
			fi++
			if w.Mine(fi) {
				c12Follow(w, &LitFollowCase{Lit: lit, CP: cp})
			}
		}
	}
	r := w.RNG("long")
	for i, n := 0, w.Pick(80000, 900000); i < n; i++ {
		s := randLiteral(r)
		c12Lit(w, &LitCase{Lit: s})
		if i%4 == 0 {
			c12Lit(w, &LitCase{Lit: s, Embed: litEmbeds[r.Intn(len(litEmbeds))]})
		}
		bad := malform(r, s)
		c12Lit(w, &LitCase{Lit: bad})
		c12Lit(w, &LitCase{Lit: bad, Embed: litEmbeds[r.Intn(len(litEmbeds))]})
		if i%2503 == 0 {
			w.Sample("long", s)
			w.Sample("malformed", bad)
		}
	}
}
