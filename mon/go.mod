module verifmon

go 1.21

require github.com/aundis/formula v0.0.0

require (
	github.com/ericlagergren/decimal v0.0.0-20221120152707-495c53812d05
	github.com/shopspring/decimal v1.3.1 // indirect
)

replace github.com/aundis/formula => /repo
