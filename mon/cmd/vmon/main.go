// vmon: runtime monitors for github.com/aundis/formula.
//
//	vmon run <Cxx> <quick|thorough>     parent: shards, watchdogs, evidence, exit code
//	vmon worker ...                     child (internal)
//	vmon replaycase ...                 child (internal)
//	vmon replay <path>                  re-execute a recorded violation
//	vmon list                           property ids
package main

import (
	"fmt"
	"os"

	"verifmon/internal/core"
	_ "verifmon/internal/props"
)

func main() {
	if len(os.Args) < 2 {
		fmt.Fprintln(os.Stderr, "usage: vmon run <id> <tier> | replay <path> | list")
		os.Exit(2)
	}
	switch os.Args[1] {
	case "run":
		if len(os.Args) < 4 {
			fmt.Fprintln(os.Stderr, "usage: vmon run <id> <tier>")
			os.Exit(2)
		}
		os.Exit(core.RunParent(os.Args[2], os.Args[3]))
	case "worker":
		os.Exit(core.RunWorker(os.Args[2:]))
	case "aux":
		os.Exit(core.RunAux(os.Args[2:]))
	case "replaycase":
		os.Exit(core.RunReplayCase(os.Args[2:]))
	case "replay":
		if len(os.Args) < 3 {
			os.Exit(2)
		}
		os.Exit(core.RunReplay(os.Args[2]))
	case "list":
		for _, id := range core.IDs() {
			fmt.Println(id)
		}
	default:
		fmt.Fprintln(os.Stderr, "unknown command", os.Args[1])
		os.Exit(2)
	}
}
